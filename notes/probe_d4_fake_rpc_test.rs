mod probe_d4 {
    use super::*;
    use std::collections::HashMap;
    use std::sync::Mutex as StdMutex;
    use tokio::io::{AsyncReadExt, AsyncWriteExt};

    #[derive(Default)]
    struct Node {
        // key -> (string, generation)
        data: HashMap<String, (String, u64)>,
        writes_seen: usize,
        fail_write_no: Option<usize>,
    }

    fn handle(node: &StdMutex<Node>, req: &serde_json::Value) -> serde_json::Value {
        let id = req["id"].clone();
        let p = &req["params"];
        let key = p["key"].as_array().map(|a| a.iter().map(|s| s.as_str().unwrap().to_string()).collect::<Vec<_>>().join("/")).unwrap_or_default();
        let mut n = node.lock().unwrap();
        let err = |code: i64, m: &str| serde_json::json!({"jsonrpc":"2.0","id":id,"error":{"code":code,"message":m}});
        match req["method"].as_str().unwrap() {
            "listdatastore" => {
                let ds: Vec<_> = n.data.iter().filter(|(k, _)| **k == key).map(|(k, (s, g))| serde_json::json!({"key": k.split('/').collect::<Vec<_>>(), "generation": g, "hex": hex::encode(s), "string": s})).collect();
                serde_json::json!({"jsonrpc":"2.0","id":id,"result":{"datastore": ds}})
            }
            "datastore" => {
                n.writes_seen += 1;
                if Some(n.writes_seen) == n.fail_write_no { return err(-1, "injected write failure"); }
                let mode = p["mode"].as_str().unwrap_or("must-create");
                let exists = n.data.contains_key(&key);
                if mode == "must-create" && exists { return err(1202, "already exists"); }
                if mode == "must-replace" && !exists { return err(1203, "does not exist"); }
                if let Some(g) = p["generation"].as_u64() { if n.data.get(&key).map(|e| e.1) != Some(g) { return err(1204, "generation mismatch"); } }
                let s = p["string"].as_str().unwrap().to_string();
                let g = n.data.get(&key).map(|e| e.1 + 1).unwrap_or(0);
                n.data.insert(key.clone(), (s.clone(), g));
                serde_json::json!({"jsonrpc":"2.0","id":id,"result":{"key": key.split('/').collect::<Vec<_>>(), "generation": g, "hex": hex::encode(&s), "string": s}})
            }
            m => err(-32601, m),
        }
    }

    async fn serve(path: String, node: Arc<StdMutex<Node>>) {
        let l = tokio::net::UnixListener::bind(path).unwrap();
        loop {
            let (mut s, _) = l.accept().await.unwrap();
            let node = node.clone();
            tokio::spawn(async move {
                let mut buf = Vec::new();
                loop {
                    let mut tmp = [0u8; 4096];
                    let n = match s.read(&mut tmp).await { Ok(0) | Err(_) => return, Ok(n) => n };
                    buf.extend_from_slice(&tmp[..n]);
                    while let Some(pos) = buf.windows(2).position(|w| w == b"\n\n") {
                        let msg: Vec<u8> = buf.drain(..pos + 2).collect();
                        let req: serde_json::Value = serde_json::from_slice(&msg[..pos]).unwrap();
                        let resp = handle(&node, &req);
                        let _ = s.write_all(format!("{}\n\n", resp).as_bytes()).await;
                    }
                }
            });
        }
    }

    fn trampoline() -> TrampolineInfo {
        use lightning_invoice::{Currency, InvoiceBuilder, PaymentSecret};
        use secp256k1::{hashes::Hash, Secp256k1, SecretKey, PublicKey};
        let sk = SecretKey::from_slice(&[0x42; 32]).unwrap();
        let invoice = InvoiceBuilder::new(Currency::Bitcoin)
            .description("d".into())
            .payment_hash(sha256::Hash::hash(&[0u8; 32]))
            .payment_secret(PaymentSecret([42u8; 32]))
            .timestamp(std::time::SystemTime::UNIX_EPOCH)
            .min_final_cltv_expiry_delta(144)
            .amount_milli_satoshis(1_000_000)
            .build_signed(|h| Secp256k1::new().sign_ecdsa_recoverable(h, &sk))
            .unwrap();
        TrampolineInfo {
            bolt11: invoice.to_string(),
            payee: PublicKey::from_secret_key(&Secp256k1::new(), &sk),
            invoice,
            amount_msat: 1_000_000,
            routing_policy: crate::messages::TrampolineRoutingPolicy { fee_base_msat: 0, fee_proportional_millionths: 5000, cltv_expiry_delta: 1008 },
        }
    }

    #[tokio::test]
    async fn second_write_fails_then_recovery() {
        let path = format!("/var/tmp/probe-d4-{}.sock", std::process::id());
        let _ = std::fs::remove_file(&path);
        let node = Arc::new(StdMutex::new(Node { fail_write_no: Some(2), ..Default::default() }));
        tokio::spawn(serve(path.clone(), node.clone()));
        tokio::time::sleep(std::time::Duration::from_millis(100)).await;
        let store = ClnDatastore::new(Arc::new(Rpc::new(path.clone())));
        let t = trampoline();
        let r = store.add_payment_attempt(&t).await;
        println!("D4 add_payment_attempt (2nd datastore write fails): is_err={}", r.is_err());
        for round in 1..=3 {
            match store.fetch_payment_info(&t).await.unwrap() {
                PaymentState::Pending { attempt_id, .. } => {
                    // restart path: wait_payment -> Ok(None) (no sendpay exists) -> mark_failed
                    let r = store.mark_failed(&t, &attempt_id).await;
                    println!("D4 round {round}: stored=Pending, mark_failed -> {}", match &r { Ok(_) => "Ok".to_string(), Err(e) => format!("Err({e})") });
                }
                PaymentState::Free => { println!("D4 round {round}: stored=Free (recovered)"); }
                PaymentState::Succeeded { .. } => println!("D4 round {round}: stored=Succeeded"),
            }
        }
        let _ = std::fs::remove_file(&path);
    }
}
