#![feature(rustc_private)]
extern crate rustc_driver;
extern crate rustc_interface;
extern crate rustc_middle;
extern crate rustc_hir;
extern crate rustc_span;
extern crate rustc_abi;

use rustc_driver::Compilation;
use rustc_middle::ty::{self, TyCtxt};
use rustc_middle::mir::*;

struct Cb;

fn place_str<'tcx>(tcx: TyCtxt<'tcx>, body: &Body<'tcx>, p: &Place<'tcx>) -> String {
    let mut s = format!("_{}", p.local.as_usize());
    let mut pty = tcx_place_ty(body, p.local);
    let mut variant: Option<rustc_abi::VariantIdx> = None;
    for elem in p.projection.iter() {
        match elem {
            ProjectionElem::Deref => s = format!("(*{})", s),
            ProjectionElem::Field(f, _) => {
                let name = match pty.kind() {
                    ty::Adt(adt, _) => {
                        let v = variant.unwrap_or(rustc_abi::FIRST_VARIANT);
                        if adt.is_enum() && variant.is_none() { format!("{}", f.as_usize()) } else {
                        format!("{}::{}", tcx.def_path_str(adt.did()), adt.variant(v).fields[f].name) }
                    }
                    ty::Closure(..) | ty::Coroutine(..) | ty::CoroutineClosure(..) => format!("upvar{}", f.as_usize()),
                    _ => format!("{}", f.as_usize()),
                };
                s = format!("{}.{}", s, name);
            }
            ProjectionElem::Downcast(name, idx) => { s = format!("({} as {:?})", s, name); variant = Some(idx); let t = PlaceTy::from_ty(pty).projection_ty(tcx, elem); pty = t.ty; continue; }
            other => s = format!("{}[{:?}]", s, other),
        }
        let mut t = PlaceTy::from_ty(pty);
        t.variant_index = variant;
        pty = t.projection_ty(tcx, elem).ty;
        variant = None;
    }
    s
}
fn tcx_place_ty<'tcx>(body: &Body<'tcx>, l: Local) -> ty::Ty<'tcx> { body.local_decls[l].ty }

fn op_str<'tcx>(tcx: TyCtxt<'tcx>, body: &Body<'tcx>, o: &Operand<'tcx>) -> String {
    match o {
        Operand::Copy(p) | Operand::Move(p) => place_str(tcx, body, p),
        Operand::Constant(c) => {
            match c.const_ {
                Const::Unevaluated(u, _) => format!("const<{}>", tcx.def_path_str(u.def)),
                _ => format!("const({})", c.const_),
            }
        }
        _ => format!("{:?}", o),
    }
}

impl rustc_driver::Callbacks for Cb {
    fn after_expansion<'tcx>(&mut self, _c: &rustc_interface::interface::Compiler, tcx: TyCtxt<'tcx>) -> Compilation {
        let krate = tcx.crate_name(rustc_span::def_id::LOCAL_CRATE);
        if krate.as_str() != "trampoline" { return Compilation::Continue; }
        let filter = std::env::var("DRV_FILTER").unwrap_or_default();
        for did in tcx.mir_keys(()) {
            let path = tcx.def_path_str(did.to_def_id());
            if filter.is_empty() || !filter.split(',').any(|f| path.contains(f)) { continue; }
            if path.contains("__CALLSITE") { continue; }
            let body = tcx.mir_promoted(*did).0.borrow();
            println!("BODY {} kind={:?}", path, tcx.def_kind(did.to_def_id()));
            if tcx.is_closure_like(did.to_def_id()) {
                let caps: Vec<String> = tcx.closure_captures(*did).iter().map(|c| c.var_ident.to_string()).collect();
                println!("  UPVARS {:?}", caps);
            }
            for (bb, data) in body.basic_blocks.iter_enumerated() {
                for st in &data.statements {
                    if st.source_info.span.from_expansion() && st.source_info.span.desugaring_kind().is_none() { continue; }
                    if let StatementKind::Assign(b) = &st.kind {
                        let (pl, rv) = &**b;
                        let r = match rv {
                            Rvalue::Use(o, _) => format!("use {}", op_str(tcx, &body, o)),
                            Rvalue::Ref(_, _, p) => format!("&{}", place_str(tcx, &body, p)),
                            Rvalue::Discriminant(p) => format!("discr {} : {}", place_str(tcx, &body, p), p.ty(&*body, tcx).ty),
                            Rvalue::Aggregate(k, ops) => {
                                let kn = match &**k {
                                    AggregateKind::Adt(d, v, _, _, _) => { let adt = tcx.adt_def(*d); format!("{}::{}", tcx.def_path_str(*d), adt.variant(*v).name) }
                                    AggregateKind::Closure(d, _) | AggregateKind::Coroutine(d, _) => format!("closure {}", tcx.def_path_str(*d)),
                                    o => format!("{:?}", o),
                                };
                                format!("agg {} [{}]", kn, ops.iter().map(|o| op_str(tcx, &body, o)).collect::<Vec<_>>().join(", "))
                            }
                            Rvalue::BinaryOp(op, b) => format!("bin {:?} {} {}", op, op_str(tcx, &body, &b.0), op_str(tcx, &body, &b.1)),
                            Rvalue::UnaryOp(op, o) => format!("un {:?} {}", op, op_str(tcx, &body, o)),
                            Rvalue::Cast(k, o, t) => format!("cast {:?} {} -> {}", k, op_str(tcx, &body, o), t),
                            o => format!("other {:?}", o),
                        };
                        println!("  {:?} {} = {}", bb, place_str(tcx, &body, pl), r);
                    }
                }
                let term = data.terminator();
                let dk = term.source_info.span.desugaring_kind();
                if term.source_info.span.from_expansion() && dk.is_none() { 
                    if let TerminatorKind::SwitchInt{..} | TerminatorKind::Return = term.kind {} else { continue; } }
                match &term.kind {
                    TerminatorKind::Call { func, args, destination, target, .. } => {
                        let f = if let Operand::Constant(c) = func { if let ty::FnDef(d, a) = c.const_.ty().kind() { tcx.def_path_str_with_args(*d, a) } else { "?".into() } } else { "<indirect>".into() };
                        let line = tcx.sess.source_map().lookup_char_pos(term.source_info.span.lo()).line;
                        println!("  {:?} CALL {} = {}({}) -> {:?} dk={:?} L{}", bb, place_str(tcx, &body, destination), f, args.iter().map(|a| op_str(tcx, &body, &a.node)).collect::<Vec<_>>().join(", "), target, dk, line);
                    }
                    TerminatorKind::SwitchInt { discr, targets } => println!("  {:?} SWITCH {} -> {:?} otherwise {:?}", bb, op_str(tcx, &body, discr), targets.iter().collect::<Vec<_>>(), targets.otherwise()),
                    TerminatorKind::Yield { resume, .. } => println!("  {:?} YIELD -> {:?}", bb, resume),
                    TerminatorKind::Return => println!("  {:?} RETURN", bb),
                    TerminatorKind::Assert { msg, target, .. } => println!("  {:?} ASSERT {:?} -> {:?}", bb, msg, target),
                    TerminatorKind::Drop { place, target, .. } => println!("  {:?} DROP {} -> {:?}", bb, place_str(tcx, &body, place), target),
                    TerminatorKind::Goto { target } => println!("  {:?} GOTO {:?}", bb, target),
                    _ => {}
                }
            }
        }
        Compilation::Continue
    }
}

fn main() {
    let mut args: Vec<String> = std::env::args().collect();
    args.remove(1);
    rustc_driver::run_compiler(&args, &mut Cb);
}
