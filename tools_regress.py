#!/usr/bin/env python3
"""dev: ./tools_regress.py [mut] [equiv] [seed] [ref] [-p C01,C02] [-j N]
Replays, in parallel and with a facts cache under /var/tmp, the self-test corpora of the checker against the CURRENT rules:
  mut    every catalogue mutant must fire on its property
  equiv  every behaviour-preserving edit (per-property EQUIV + GLOBAL_EQUIV) must leave all twenty properties silent
  seed   every kept seeded change (/verif/seeded/*/patch.diff) must fire on its property
  ref    every behaviour-preserving refactoring (/verif/refactors/*.diff) should leave all twenty properties silent
All variants are scratch COPIES of /repo's sources outside /repo and /verif; /repo is never touched."""
import sys, os, importlib, json, hashlib, shutil, subprocess, tempfile, glob, argparse, time
from concurrent.futures import ProcessPoolExecutor
ROOT = os.path.dirname(os.path.abspath(__file__))
sys.path.insert(0, os.path.join(ROOT, "rules"))
import engine, controls, mir

CACHE = "/var/tmp/verif-patchfacts"
PROPS = ["C%02d" % i for i in range(1, 21)]


def _facts_for(kind, payload):
    """kind 'edits' (payload=list of edits) or 'diff' (payload=path) -> facts path or (None, why)"""
    os.makedirs(CACHE, exist_ok=True)
    src = engine.source_hash()
    key = hashlib.sha256((src + kind + (json.dumps(payload) if kind == "edits" else open(payload).read())).encode()).hexdigest()[:24]
    cf = os.path.join(CACHE, key + ".json")
    if os.path.exists(cf):
        return cf, ""
    if os.path.exists(cf + ".err"):
        return None, open(cf + ".err").read()
    if kind == "edits":
        d, applied, why = controls.make_variant(payload)
        if not applied:
            shutil.rmtree(d, ignore_errors=True)
            open(cf + ".err", "w").write("skipped:" + why)
            return None, "skipped:" + why
    else:
        d = tempfile.mkdtemp(prefix="verif-patch-", dir="/var/tmp")
        shutil.copytree("/repo/src", os.path.join(d, "src"))
        for f in ("Cargo.toml", "Cargo.lock"):
            shutil.copy(os.path.join("/repo", f), os.path.join(d, f))
        r = subprocess.run(["patch", "-p1", "-s", "-i", os.path.abspath(payload)], cwd=d, stdout=subprocess.PIPE, stderr=subprocess.STDOUT, text=True)
        if r.returncode != 0:
            shutil.rmtree(d, ignore_errors=True)
            return None, "patch-failed:" + r.stdout[:200]
    try:
        out, log = engine.extract_variant(d, True)
        if out is None:
            open(cf + ".err", "w").write("compile-error:" + log[-800:])
            return None, "compile-error:" + log[-800:]
        shutil.copy(out, cf + ".tmp")
        os.rename(cf + ".tmp", cf)
        return cf, ""
    finally:
        shutil.rmtree(d, ignore_errors=True)


def job(args):
    kind, name, payload, props, expect_fire = args
    t0 = time.time()
    try:
        fp, why = _facts_for("diff" if kind in ("seed", "ref") else "edits", payload)
        if fp is None:
            return (kind, name, "skipped", why[:200], {}, time.time() - t0)
        F = mir.Facts(fp)
        known = {k["key"] for k in engine.load_known() if k.get("status") == "known"}
        fired = {}
        for p in props:
            mod = importlib.import_module("p_" + p.lower())
            rep = controls.run_rules_on(mod, F, p)
            v = [o for o in rep.violations() if o["key"] not in known]
            if v:
                fired[p] = (sorted({o["rule"] for o in v}), (v[0]["detail"] or v[0]["what"])[:160])
        st = "fired" if fired else "silent"
        return (kind, name, st, "", fired, time.time() - t0)
    except Exception as e:  # noqa
        import traceback
        return (kind, name, "error", traceback.format_exc()[-600:], {}, time.time() - t0)


def main():
    ap = argparse.ArgumentParser()
    ap.add_argument("what", nargs="*", default=["mut", "equiv", "seed", "ref"])
    ap.add_argument("-p", default="")
    ap.add_argument("-j", type=int, default=14)
    ap.add_argument("-v", action="store_true")
    a = ap.parse_args()
    engine.facts_path(True)
    sel = [p for p in PROPS if not a.p or p in a.p.split(",")]
    jobs = []
    import mutants_common
    if "mut" in a.what:
        for p in sel:
            for m in controls.load_catalogue(p):
                if "diff" in m:
                    continue       # seeded changes are replayed by `seed`
                jobs.append(("mut", "%s/%s" % (p, m["name"]), m["edits"], [p], True))
    if "equiv" in a.what:
        seen = set()
        for p in PROPS:
            try:
                eq = importlib.import_module("mutants_" + p.lower()).EQUIV
            except (ImportError, AttributeError):
                eq = []
            for m in eq:
                k = json.dumps(m["edits"])
                if k in seen:
                    continue
                seen.add(k)
                jobs.append(("equiv", "%s/%s" % (p, m["name"]), m["edits"], sel, False))
        for m in getattr(mutants_common, "GLOBAL_EQUIV", []):
            k = json.dumps(m["edits"])
            if k not in seen:
                seen.add(k)
                jobs.append(("equiv", "G/%s" % m["name"], m["edits"], sel, False))
    if "seed" in a.what:
        for d in sorted(glob.glob(os.path.join(ROOT, "seeded", "*"))):
            meta = json.load(open(os.path.join(d, "meta.json")))
            p = meta.get("property") or os.path.basename(d)[:3]
            if p in sel:
                jobs.append(("seed", os.path.basename(d), os.path.join(d, "patch.diff"), [p], True))
    if "ref" in a.what:
        for f in sorted(glob.glob(os.path.join(ROOT, "refactors", "*.diff")) + glob.glob(os.path.join(ROOT, "refactors2", "*.diff")) + glob.glob(os.path.join(ROOT, "refactors3", "*.diff")) + glob.glob(os.path.join(ROOT, "refactors4", "*.diff")) + glob.glob(os.path.join(ROOT, "refactors5", "*.diff")) + glob.glob(os.path.join(ROOT, "refactors6", "*.diff")) + glob.glob(os.path.join(ROOT, "refactors7", "*.diff")) + glob.glob(os.path.join(ROOT, "refactors8", "*.diff")) + glob.glob(os.path.join(ROOT, "refactors9", "*.diff")) + glob.glob(os.path.join(ROOT, "refactors10", "*.diff")) + glob.glob(os.path.join(ROOT, "refactors11", "*.diff"))):
            jobs.append(("ref", os.path.basename(f)[:-5], f, sel, False))
    bad = 0
    tally = {}
    with ProcessPoolExecutor(max_workers=a.j) as ex:
        for kind, name, st, why, fired, wall in ex.map(job, jobs):
            good = (st == "fired") if kind in ("mut", "seed") else (st == "silent")
            crash = [p for p, (rs, _m) in fired.items() if any(r.endswith("-INTERNAL") for r in rs)]
            if crash:
                print("%-5s %-44s INTERNAL-ERROR in %s" % (kind, name[:44], crash))
                if kind in ("mut", "seed") and all(all(r.endswith("-INTERNAL") for r in rs) for p, (rs, _m) in fired.items()):
                    good = False
            if st == "skipped":
                good = True
            tally.setdefault(kind, [0, 0])
            tally[kind][0 if good else 1] += 1
            if not good or a.v:
                bad += 0 if good else 1
                print("%-5s %-44s %-7s %s" % (kind, name[:44], st.upper() if not good else st, why[:150].replace("\n", " ")))
                for p, (rs, msg) in fired.items():
                    print("        %s %s: %s" % (p, rs, msg))
    for k, (g, b) in tally.items():
        print("== %-5s ok=%d bad=%d" % (k, g, b))
    return 1 if bad else 0


if __name__ == "__main__":
    sys.exit(main())
