#!/bin/bash
# usage: tools_verify_seed_par.sh <worktree> [subdir] ; 3-way confirmation of <worktree>/seed/{patch,demo}.diff inside that scratch worktree
W=$1
S=$W/seed${2:+/$2}
cd $W || exit 1
export CARGO_NET_OFFLINE=true
clean() { git reset -q ; git checkout -q -- . ; git clean -fdq -e target -e seed ; }
run() { cargo test --offline 2>&1 | grep -E "^test result|FAILED|failed|error(\[|:)" | head -8 | tr '\n' ';'; }
clean
A=$(git apply --check $S/patch.diff 2>&1 && echo patch-ok)
B=$(git apply --check $S/demo.diff 2>&1 && echo demo-ok)
git apply $S/patch.diff; RA=$(run); clean
git apply $S/demo.diff; RC=$(run); clean
git apply $S/patch.diff; git apply $S/demo.diff 2>/dev/null || git apply --3way $S/demo.diff 2>/dev/null; RB=$(run); clean
echo "$(basename $W)${2:+-$2} | $A $B | defect-only: $RA | demo-only: $RC | both: $RB"
