#!/usr/bin/env python3
"""Generates MANIFEST.json from the per-property tables below (kept valid at all times)."""
import json, os, sys
HERE = os.path.dirname(os.path.abspath(__file__))
sys.path.insert(0, os.path.join(HERE, "rules"))

NOTE_COMMON = ("Trusted base: rustc nightly MIR construction/type checking; the fact emitter engine/mirfacts; the primitive tables "
               "in rules/ (transparent calls, effect primitives, partial third-party API); third-party crates behaving as documented. "
               "Unwind edges are ignored (panics are C06-P1's business). ")

CHECKS = {
    "C18": dict(
        technique="MIR panic-site discipline + interval analysis + reader/writer table cross-check",
        text="Decides structural necessary conditions of C18 on every body of src/tlv.rs, for all paths: (P) every partial read / "
             "index / arithmetic / unwrap site is discharged by a dominating guard on the same receiver or an interval proof "
             "(totality); (T1) the BigSize reader's marker->width table equals the writer's range->(marker,width) table, ranges "
             "partition u64 and are minimal, big-endian on both sides; (L1) record order/content discipline of decoder and "
             "encoder; (L2) entry points delegate; (U) tu64 clauses. Not an enumeration of byte strings.",
        note="Not decided: decode(encode(x)) == x by enumeration (follows from T1+L1 given bytes' primitives); non-minimal input "
             "encodings are re-encoded minimally.",
        design="5/C18"),
}

NOT_APPLICABLE = {}


def main():
    props = [json.loads(l) for l in open(os.path.join(HERE, "properties.jsonl"))]
    ids = [p["id"] for p in props]
    checks = []
    for pid in ids:
        if pid not in CHECKS:
            continue
        c = CHECKS[pid]
        checks.append({
            "property_id": pid,
            "quick_cmd": "./check %s --tier quick" % pid,
            "thorough_cmd": "./check %s --tier thorough" % pid,
            "evidence_file": "evidence/%s.json" % pid,
            "replay_cmd_template": "./check %s --replay {path}" % pid,
            "engine": "mirfacts+rules",
            "level_claimed": {"category": "other", "text": c["text"], "design_ref": "DESIGN.md section " + c["design"]},
            "level_note": NOTE_COMMON + c["note"],
            "technique": c["technique"],
        })
    na = []
    for pid in ids:
        if pid not in CHECKS:
            na.append({"property_id": pid, "reason": NOT_APPLICABLE.get(pid, "rules for this property are not built yet (static clauses designed in DESIGN.md section 5); not claimed until they exist and are silent on the repaired tree")})
    man = {
        "version": 1,
        "setup_cmd": "./check --setup",
        "hooks": {
            "guard": "trampoline_verif",
            "enable": "none - the checks analyse the unmodified non-test bin target; the cfg name is reserved and unused",
            "baseline_off_cmd": "cd /repo && (cargo nextest run --workspace --no-fail-fast --offline || cargo test --workspace --no-fail-fast --offline)",
            "source_commits": [],
            "add_only": True,
        },
        "engines": [
            {"name": "mirfacts", "path": "engine/mirfacts", "serves_properties": sorted(CHECKS), "kind_free_text": "rustc_private driver (nightly) dumping type-checked MIR (mir_promoted) of every body of the crate as JSON facts; injected via RUSTC_WORKSPACE_WRAPPER under cargo +nightly check --offline"},
            {"name": "rules", "path": "rules", "serves_properties": sorted(CHECKS), "kind_free_text": "python3 (stdlib) rule engine: CFG/dominator path rules, def-use expression trees, interval analysis, effect classes, lock scopes; one module per property"},
            {"name": "mutants", "path": "rules/mutants_*.py", "serves_properties": sorted(CHECKS), "kind_free_text": "catalogue of single-edit source variants analysed (never executed) as positive controls for the rules"},
        ],
        "checks": checks,
        "not_applicable": na,
        "notes": "Static analysis only: every check re-extracts MIR facts from /repo's working tree (cache keyed by a hash of Cargo.toml, Cargo.lock, src/**) and evaluates property-specific rules. exit 0 = all obligations discharged; exit 1 = VIOLATION lines; exit 2 = infrastructure failure (no verdict).",
    }
    with open(os.path.join(HERE, "MANIFEST.json"), "w") as f:
        json.dump(man, f, indent=1)
    print("MANIFEST.json: %d checks, %d not_applicable" % (len(checks), len(na)))


if __name__ == "__main__":
    main()
