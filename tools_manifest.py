#!/usr/bin/env python3
"""Generates MANIFEST.json from the per-property tables below (kept valid at all times)."""
import json, os, sys
HERE = os.path.dirname(os.path.abspath(__file__))
sys.path.insert(0, os.path.join(HERE, "rules"))

NOTE_COMMON = ("Trusted base: rustc nightly MIR construction/type checking; the fact emitter engine/mirfacts; the primitive tables "
               "in rules/ (transparent calls, effect primitives, partial third-party API); third-party crates behaving as documented. "
               "Unwind edges are ignored (panics are C06-P1's business). ")

CHECKS = {
    "C18": dict(
        technique="MIR panic-site discipline + interval analysis + reader/writer table cross-check",
        text="Decides structural necessary conditions of C18 on every body of src/tlv.rs, for all paths: (P) every partial read / "
             "index / arithmetic / unwrap site is discharged by a dominating guard on the same receiver or an interval proof "
             "(totality); (T1) the BigSize reader's marker->width table equals the writer's range->(marker,width) table, ranges "
             "partition u64 and are minimal, big-endian on both sides; (L1) record order/content discipline of decoder and "
             "encoder; (L2) entry points delegate; (U) tu64 clauses; (G) get(typ) selects by type equality over the whole list; the decoder stops only with at most one stray byte left; the encoder's buffer starts empty; (E) every error originates under a remaining()/len() comparison or passes on an inner decoder's error. Not an enumeration of byte strings.",
        note="Not decided: decode(encode(x)) == x by enumeration (follows from T1+L1 given bytes' primitives); non-minimal input "
             "encodings are re-encoded minimally.",
        design="5/C18"),
    "C12": dict(
        technique="interval analysis + operator-tree normal form + encoder layout extraction (MIR)",
        text="Decides on MIR: (X1) every arithmetic op of the fee predicate discharged by intervals over the full input ranges, None arms of checked "
             "ops return false, in both overflow configurations (thorough); (X2) the returned comparison's operator tree, checked ops read as exact on "
             "their Some paths, equals total >= amount + base + floor(amount*ppm/10^6); (T) field widths; (F) the failure encoder's byte layout per "
             "variant equals 0x20,26||be32||be32||be16 and the two constant codes; (P) the policy payload is HtlcManagerParams::routing_policy; (G) gates - the total compared is the onion's total_msat or else forward_msat itself, with no arithmetic or constant in between; (P) no field of the params/policy is modified after construction; (W) option wiring; (Q) request fields verbatim; (N) every classified HTLC with a forward amount reaches the gates (C13-N1); (E) every lifecycle path answers once and removes its entry; (L) without stored state the lifecycle waits the configured timeout itself before its select, so a queued rejection is delivered whenever that timeout is non-zero (C11-T1/T4).",
        note="Exactness over u64 x u64 x u32 x u32 follows from X1+X2, it is not enumerated. Only cmp(total, sum) / cmp(total-amount, sum) shapes are accepted as normal form.",
        design="5/C12"),
    "C02": dict(
        technique="CFG path/typestate rules over the lifecycle coroutine's MIR + store write-record extraction",
        text="Decides, for every path of the lifecycle coroutine, the typestate clauses S1-S6 (fetch first; Pending => wait first; wait error never fails; "
             "mark_failed only after Ok(None)/pay Err and required Ok before collecting; fail requests only pre-payment; after pay fail only on Err) and S7 "
             "(generation-guarded Free write in every Datastore impl); S8 (a classified HTLC is answered only through the lifecycle), S9 (provider clauses, incl. no clock on the wait path), S10 (no per-HTLC failure answered directly before the lifecycle is consulted), S11 (a stored Pending record is reported as Pending: fetch mapping; records round-trip through serde), S12 (a held HTLC is answered only by the drain of its own lifecycle).",
        note="Not decided: the schedule/crash-point space as executions; node-side pay state after an RPC connection error.",
        design="5/C02"),
    "C05": dict(
        technique="CFG reachability/dominance rules + who-references rule (MIR)",
        text="Decides A1 (Succeeded short-circuit with the stored preimage), A2 (from Pending, pay only via wait==Ok(None) and mark_failed==Ok), A3 (lifecycle "
             "referenced once, inside Entry::or_insert_with's closure, spawned; single pay site outside loops), A4 (pay only via add_payment_attempt==Ok), "
             "A5 (exactly one answer per lifecycle path), A6 (provider clauses the restart path relies on), A7 (the Free marker is written only "
             "generation-guarded with the generation read from / written with the Pending record - never a constant None -, so a superseded attempt cannot erase a newer in-flight marker), A9 (a stored Succeeded/Pending record reads back as that variant: fetch mapping incl. which listed entry is looked at - nth(k>0)/skip never - and the record round-trip).",
        note="Not decided: a second lifecycle overlapping the first one's post-answer bookkeeping (mechanism clauses C02-S7/C08 are decided).",
        design="5/C05"),
    "C08": dict(
        technique="dominance rules on the lifecycle + per-method write-record extraction from Datastore impls (MIR def-use)",
        text="Decides W1 (pay only through add_payment_attempt==Ok; the impl returns Ok only after its awaited Pending write, which comes first), W2 (Free only "
             "in mark_failed, guarded, generation-conditional), W3 (Succeeded stores the settling preimage), W4 (fetch mapping; the entry decoded is the one the listing returns for the state key, never nth(k>0)/skip(k)), W5 (no deletion, per-hash keys), W6 (the provider clauses C15-V*/C16-D behind `nothing pending or complete`, which is what releases the Free marker), X (one lifecycle per hash; its table entry is removed only by its own final answer); W2 also requires mark_failed to be handed the lifecycle's own attempt.",
        note="Not decided: every execution prefix as a crash image at the node; overlapping lifecycles.",
        design="5/C08"),
    "C09": dict(
        technique="effect-sequence typestate: explicit fixed point over abstract stored images using write records extracted from MIR",
        text="Extracts (key kind, mode, generation guard, payload) of every datastore write per Datastore method, explores all images reachable by crashes / "
             "rejected / applied-but-failed writes, and requires every fault-free recovery write to be satisfiable on every reachable image; must-create keys "
             "must be clock-fresh; (E) every lifecycle path, failed-write exits included, answers exactly once and thereby removes the table entry; (V) wait_payment, on which the recovery of a stored Pending state hangs, honours C15-V* (a failed part is neither an error nor `nothing pending` while another part lives); (B) nothing blocks while the table lock is held (C14-L1), so a lifecycle can always answer and remove its entry; (F) the fetch mapping reports every image an interrupted run can leave, from the entry the listing returns; (G) a Pending state read back carries the listed record's generation (not a constant None), so the recovery's must-replace write is accepted; (R) every persisted record type is read with the field encodings it is written with.",
        note="Assumes documented CLN datastore mode semantics; the lifecycle's choice of recovery call per stored state is decided by C02-S2/S4, C05-A2 (re-checked here).",
        design="5/C09"),
    "C11": dict(
        technique="def-use provenance of the timer value per reaching definition + select-arm path rules (MIR)",
        text="Decides T1 (sleep operand is mpp_timeout or mpp_timeout.saturating_sub(age of the stored attempt); Pending reaches the select only through that "
             "computation), T2 (is_zero guard => immediate 0x2019, no pay), T3 (timer arm answers 0x2019 once, cannot pay/write), T4 (nothing answered before "
             "the select on the Free arm; operands are exactly timer/fail/ready), T5 (option wiring), T6 (the timer is armed once: the sleep future is not "
             "created inside a loop), T7 (the stored-state lookup before the clock starts cannot queue behind other payments: no connection/lock/semaphore shared across hashes), T8 (nothing blocks under the table lock the timer arm needs), and the exactness of the predicate that says a set is complete (C12-X1/X2).",
        note="Not decided: wall-clock behaviour, tokio timer accuracy.",
        design="5/C11"),
    "C01": dict(
        technique="edge-guard (dominating comparison) rule + def-use provenance of keys and Resolve payloads (MIR)",
        text="Decides: (G) every TrampolineInfo construction is dominated by the equal-edge of a whole-hash comparison between htlc.payment_hash and "
             "payment_hash() of the stored invoice; (K) table key, wait/pay hash, table lookups, datastore keys are the invoice hash of the classified value; "
             "(P) every Resolve key comes from pay's Ok, wait_payment's Ok(Some) or the stored Succeeded preimage; provider and store preserve it.",
        note="Not decided: SHA-256(key) == hash (needs the node to return the right preimage); interleavings.", design="5/C01"),
    "C03": dict(
        technique="select-arm reachability + guard/provenance rules on the ready signal, the held sum and the PaymentRequest (MIR def-use, intervals)",
        text="Decides R1 (pay only via the ready arm), R2 (ready only behind fee_sufficient(held sum, amount) and no fail request; single send site), R3 (held "
             "sum discipline: one write, sum+htlc amount, overflow-free, counted<=>held), R4 (budget = held sum saturating-minus amount, read under the lock "
             "after readiness), R5 (amount only for amountless invoices), R6 (provider forwards verbatim, no exemptfee/maxfeepercent/partial), R7 (held until fate known), "
             "R8 (amount table of the extractor), R9 (an HTLC whose TrampolineInfo, amount included, differs from the set's is rejected before it is counted), R10 (pay reports failure - which releases the counted HTLCs - only once nothing is pending or complete: C16-D, C15-V*), Q (amounts / expiries / declared total are the hook's JSON values: no hand-written field deserialiser), R11 (each lifecycle answers exactly once), R12 (one lifecycle per entry), and the exactness of the readiness predicate (C12-X1/X2).",
        note="Not decided: the inequality for every multiset by enumeration (follows from R2-R4 and C12); HTLC arrivals racing with the select.", design="5/C03"),
    "C04": dict(
        technique="operator-tree matching of the max-delay expression + who-writes rule on the minimum expiry + gate ordering (MIR)",
        text="Decides E (max_cltv_delta = min(clamp_u16(satsub(satsub(min expiry, height), safety delta)), policy delta)), T (height/expiry read after readiness, "
             "expiry under the lock), M (single min-update of the stored expiry on the listener-storing paths, initial u32::MAX), F (maxdelay forwarded), "
             "G (relative-expiry gate before add, with the configured policy), H (the height cell read at pay time only ever rises: C20-W), L (initial successful query before start, poll loop: C20-L), W (option wiring), Q (request fields verbatim).",
        note="Not decided: numeric value for every input by enumeration; height advancing between the read and the node's route computation.", design="5/C04"),
    "C06": dict(
        technique="panic-site discipline (guards/intervals/origins) over the handler scope + exactly-once path counting + lock-scope/latch rules (MIR)",
        text="Decides P1 (every panic-capable site in handler scope discharged), P2 (exactly one answer per lifecycle path; effect futures awaited), P3 (complete "
             "drain), P4/P5 (sender always registered; add-listener answers or stores), P6 (only latched sends awaited under the table lock; capacities>=1), "
             "P7 (timer bound, C11; the mpp-timeout option is what reaches params.mpp_timeout), P8 (hook wrapper). One known finding: D7 (todo!() on wait_payment error while Pending).",
        note="Not decided: termination of awaited RPCs, fairness, 'eventually'. Named exceptions are listed with reasons in rules/panics.py.", design="5/C06"),
    "C07": dict(
        technique="drain-loop structure rule + gate ordering/guard classification + select-arm provenance (MIR)",
        text="Decides U1 (same cloned response to every popped listener; loop ends only on None; only push/pop mutate the list), U2 (one answer per lifecycle, one "
             "lifecycle per entry), U3 (all three rejections precede add, have the stated guards/responses; fail flag disables readiness), U4 (fail arm forwards, no pay), Q (request fields verbatim), U5 (no failure is answered to one HTLC directly - by the classification or before the table entry is taken - depending on that HTLC's own amount/expiry/declared total), B (nothing blocks while the table lock is held - the ready / fail signals are latched single-shot sends -, so the drain can always run: C14-L1 cited).",
        note="Not decided: which of two simultaneously ready select arms tokio picks.", design="5/C07"),
    "C10": dict(
        technique="edge-guard rules + per-definition arm classification of the amount + iterator/selector shape of the route-hint gate (MIR)",
        text="Decides H (hash gate), S (signature gate; payee/bolt11/invoice provenance; record path 16->33001), A (amount arm table per reaching definition; over-long "
             "amount field = absent), R (last hop of any hint vs local key; Trampoline only via no-hint or allowed; else Fail), C (unusable metadata => continue), L (records are looked up by type equality over the whole list, no ordering assumed), X (every TrampolineInfo the extractor returns is built there from this request), E (parts whose info - amount included - differs are rejected by a comparison that looks at every field), U (= C18-U: what a well-formed amount field is), P (the provider hands the node exactly that bolt11 and amount: C03-R6 cited); the payee is get_payee_pub_key only (with an explicit `n` field the recovered key is not the key the signature was verified against).",
        note="Not decided: lightning-invoice's parser/signature recovery (trusted).", design="5/C10"),
    "C13": dict(
        technique="MAY-effect summaries over the call graph + await-freedom of pre-lock paths + rewrite provenance (MIR)",
        text="Decides N1 (paths that do not take the lock are Yield-free and call only synchronous effect-free functions; lock only for classified trampoline with "
             "forward_msat), N2 (forwards and unusable metadata reach only continue), R1 (single rewrite = payload clone minus record 16, guarded), R2 (order-preserving "
             "removal), R3 (C18-T1/L1 re-evaluated), L (lookup by type equality, no ordering assumed); try_lock/semaphores count as effects, and the extractor returns only infos it built from this request; W (no permit pool / shared lock between the node's request and the handler), C18-E (the decoders reject only truncated input), and C18-P/C18-U (the decoders that run on sender-chosen bytes before classification cannot panic, so the HTLC is answered).",
        note="Not decided: byte equality by enumeration (reduced to C18's clauses).", design="5/C13"),
    "C14": dict(
        technique="lock-scope analysis (guard live regions vs. Yield/poll sites) + latch rule + ADT field table (MIR)",
        text="Decides L1 (for every payments-table guard: only add-listener/fail-requester awaited, which await only latched sends; no second lock/RPC), L2 (no shared "
             "lock/channel/connection in Rpc/ClnDatastore/PayPaymentProvider; no Semaphore/Barrier field or acquisition anywhere in the crate; per-call connections; other guards never across await), K (per-hash keys; no globals), G (an HTLC joins the entry of its own hash: hash gate before the lookup), T (own task per entry), S (a hash reads back the record under its own state key: C08-W4 cited), D (every hook call runs in its own spawned task that the reader never awaits: C17-R2 cited), A (the payments table is acquired by awaiting lock(), never by try_lock).",
        note="Not decided: fairness of tokio and of the node's RPC socket.", design="5/C14"),
    "C15": dict(
        technique="dominance/ordering of awaited RPCs + switch-table extraction of tolerated error codes + loop-shape rule (MIR)",
        text="Decides V1 (preimage provenance), V2 (Ok(None) only after the stream of one waitsendpay per PENDING-listed part is exhausted; no skip/break/timeout), V3 (tolerated "
             "codes exactly 202/203/204/208/209; nothing else continues or becomes Ok), V4 (PENDING listing returns before the COMPLETE query is issued), V5 (filters), V6 (no tokio::time primitive on the wait path, the ClnRpc implementation of listsendpays/waitsendpay included), V7 (the ClnRpc implementation hands the node's error on with its numeric code: never through anyhow / RpcError::General), V8 (every ClnRpc call returns the reply of an RPC made by that call: no cached listing), V9 (one request per call: no re-send), V10 (every Ok exit is dominated by the success of both listings), and within V2: `no payment` only where the COMPLETE listing had no preimage.",
        note="Not decided: parts created after the snapshot by a pay still running in the node.", design="5/C15"),
    "C16": dict(
        technique="exit classification of pay() by dominating match arms (status-dispatch table) (MIR)",
        text="Decides D (every exit after the pay RPC: Ok only with COMPLETE's preimage or wait_payment's Some; Err only after wait_payment==Ok(None), FAILED without "
             "partial-completion warning, or wait_payment's propagated error; PENDING and RPC-error arms cannot exit without wait_payment), H (hash passed to wait_payment).",
        note="Not decided: that CLN's `failed` without warning means no part pending.", design="5/C16"),
    "C17": dict(
        technique="ADT statelessness table + consume-exactly-once rule on decoders + exactly-once send counting + cancel-safety/lock-scope rules on the driver (MIR)",
        text="Decides D1 (codecs have no state), D2 (line decoder: Ok(None) leaves the buffer, Some consumes split_to(offset+2) with a whole-buffer search for two newlines; "
             "JSON layers call the inner decoder once), R1 (per-request task replies exactly once, id = request id, one of result/error; the hand-off to the writer is an awaited send, never try_send), R2 (the raced reader future awaits "
             "only FramedRead::next; handlers behind spawn), R3 (one FramedRead for handshake and driver loop, never taken apart), T (request ids are carried as arbitrary JSON values), R5 (an unsubscribed notification topic is not an error), R6 (the message decoder classifies by the presence of `id`: with an id only (Custom)Request carrying that id, without only (Custom)Notification - also when the arms are moved into helpers), R4 (the builder's rpcmethods / hooks / subscriptions maps are each moved into their dispatch table exactly once), W (all output through the single guarded FramedWrite, awaited under the guard, not raced; a frame written with feed/start_send is followed by an awaited flush; frame = text+2 newlines; "
             "no other stdout writes), P (panic discipline on codec/driver/logging).",
        note="Not decided: tokio_util Framed* internals; the node's framing.", design="5/C17"),
    "C19": dict(
        technique="def-use provenance from option constants to parameter sinks through checked conversions + registered/read set comparison + dominance of the init reply (MIR)",
        text="Decides W (each sink is cp.option(expected option) via `?`/checked TryInto to the declared width/from_secs/Not only), R (registered superset of read), O (start only when policy "
             "delta > safety delta, after all conversions), C (retry_for saturating at u16::MAX, forwarded; cltv_delta reaches the max-delay formula), D (one policy aggregate), I (params and policy are never modified after construction), J (the framework stores integer option values as the JSON number's as_i64(), boolean and string values as the JSON payload itself - no negation or rewriting -, and takes an option's default only where lightningd sent no value), T (the configured MPP timeout is the value slept on).",
        note="Not decided: CLN's parsing of option strings; handle_init's as_i64().unwrap() (pre-init, outside handler scope).", design="5/C19"),
    "C20": dict(
        technique="who-writes rule through the height guard + dominating comparison + loop-exit reachability on the poll loop (MIR)",
        text="Decides W (single monotone write under one guard region without await), S (sources: getinfo.blockheight and block_added.height reach the cell only via the update fn; provider "
             "returns the cell), C (one cell: created once, the field holding it never re-assigned), F (every get_info of the ClnRpc implementation asks the node: no cached reply), H2 (notification handlers run in spawned tasks, not inside the raced reader future), P (panic discipline over block_watcher.rs and the logging layer the poll task logs through), L (loop exits only via shutdown; poll results continue; constant positive interval of at most the 60 s the property's anchor names; spawned after a successful initial poll), H (subscription wiring).",
        note="Not decided: the wall-clock bound 'within one interval'.", design="5/C20"),
}

NOT_APPLICABLE = {}


def main():
    props = [json.loads(l) for l in open(os.path.join(HERE, "properties.jsonl"))]
    ids = [p["id"] for p in props]
    checks = []
    for pid in ids:
        if pid not in CHECKS:
            continue
        c = CHECKS[pid]
        checks.append({
            "property_id": pid,
            "quick_cmd": "./check %s --tier quick" % pid,
            "thorough_cmd": "./check %s --tier thorough" % pid,
            "evidence_file": "evidence/%s.json" % pid,
            "replay_cmd_template": "./check %s --replay {path}" % pid,
            "engine": "mirfacts+rules",
            "level_claimed": {"category": "other", "text": c["text"], "design_ref": "DESIGN.md section " + c["design"]},
            "level_note": NOTE_COMMON + c["note"],
            "technique": c["technique"],
        })
    na = []
    for pid in ids:
        if pid not in CHECKS:
            na.append({"property_id": pid, "reason": NOT_APPLICABLE.get(pid, "rules for this property are not built yet (static clauses designed in DESIGN.md section 5); not claimed until they exist and are silent on the repaired tree")})
    man = {
        "version": 1,
        "setup_cmd": "./check --setup",
        "hooks": {
            "guard": "trampoline_verif",
            "enable": "none - the checks analyse the unmodified non-test bin target; the cfg name is reserved and unused",
            "baseline_off_cmd": "cd /repo && (cargo nextest run --workspace --no-fail-fast --offline || cargo test --workspace --no-fail-fast --offline)",
            "source_commits": [],
            "add_only": True,
        },
        "engines": [
            {"name": "mirfacts", "path": "engine/mirfacts", "serves_properties": sorted(CHECKS), "kind_free_text": "rustc_private driver (nightly) dumping type-checked MIR (mir_promoted) of every body of the crate as JSON facts; injected via RUSTC_WORKSPACE_WRAPPER under cargo +nightly check --offline"},
            {"name": "rules", "path": "rules", "serves_properties": sorted(CHECKS), "kind_free_text": "python3 (stdlib) rule engine: CFG/dominator path rules, def-use expression trees, interval analysis, effect classes, lock scopes; one module per property"},
            {"name": "mutants", "path": "rules/mutants_*.py", "serves_properties": sorted(CHECKS), "kind_free_text": "catalogue of single-edit source variants analysed (never executed) as positive controls for the rules"},
        ],
        "checks": checks,
        "not_applicable": na,
        "notes": "Static analysis only: every check re-extracts MIR facts from /repo's working tree (cache keyed by a hash of Cargo.toml, Cargo.lock, src/**) and evaluates property-specific rules. exit 0 = all obligations discharged; exit 1 = VIOLATION lines; exit 2 = infrastructure failure (no verdict).",
    }
    with open(os.path.join(HERE, "MANIFEST.json"), "w") as f:
        json.dump(man, f, indent=1)
    print("MANIFEST.json: %d checks, %d not_applicable" % (len(checks), len(na)))


if __name__ == "__main__":
    main()
