// mirfacts: a rustc_private driver that dumps the type-checked MIR (mir_promoted) of every
// body of the workspace member `trampoline` as JSON facts. It contains no property logic.
//
// Invoked as RUSTC_WORKSPACE_WRAPPER (argv[1] = path of the real rustc, dropped) or directly
// with a captured rustc argument vector.
//
// Environment:
//   MIRFACTS_OUT       path of the fact file to write (required for the target crate)
//   MIRFACTS_NONCE     copied into the fact file (freshness proof)
//   MIRFACTS_CRATE     crate name to analyse (default "trampoline")
//   MIRFACTS_STOP      "1": stop compilation after emitting (no metadata written)
//   MIRFACTS_ARGS_OUT  if set, the rustc argument vector is written there (one arg per line)
#![feature(rustc_private)]
extern crate rustc_abi;
extern crate rustc_driver;
extern crate rustc_hir;
extern crate rustc_interface;
extern crate rustc_middle;
extern crate rustc_span;

use rustc_driver::Compilation;
use rustc_hir::def::DefKind;
use rustc_middle::mir::*;
use rustc_middle::ty::print::with_no_trimmed_paths;
use rustc_middle::ty::{self, Ty, TyCtxt, TypeVisitableExt};
use rustc_span::def_id::{DefId, LocalDefId, LOCAL_CRATE};
use rustc_span::Span;
use std::fmt::Write as _;

struct Cb;

fn esc(s: &str) -> String {
    let mut o = String::with_capacity(s.len() + 2);
    o.push('"');
    for c in s.chars() {
        match c {
            '"' => o.push_str("\\\""),
            '\\' => o.push_str("\\\\"),
            '\n' => o.push_str("\\n"),
            '\r' => o.push_str("\\r"),
            '\t' => o.push_str("\\t"),
            c if (c as u32) < 0x20 => {
                let _ = write!(o, "\\u{:04x}", c as u32);
            }
            c => o.push(c),
        }
    }
    o.push('"');
    o
}

fn dps(tcx: TyCtxt<'_>, d: DefId) -> String {
    with_no_trimmed_paths!(tcx.def_path_str(d))
}

fn tys<'tcx>(t: Ty<'tcx>) -> String {
    with_no_trimmed_paths!(format!("{}", t))
}

struct Cx<'a, 'tcx> {
    tcx: TyCtxt<'tcx>,
    body: &'a Body<'tcx>,
    owner: LocalDefId,
    upvars: Vec<String>,
}

impl<'a, 'tcx> Cx<'a, 'tcx> {
    fn span(&self, sp: Span) -> String {
        let sm = self.tcx.sess.source_map();
        let exp = sp.from_expansion();
        let dk = sp.desugaring_kind().map(|d| format!("{:?}", d));
        let call = if exp { sp.source_callsite() } else { sp };
        let lo = sm.lookup_char_pos(call.lo());
        let file = match &lo.file.name {
            rustc_span::FileName::Real(r) => match r.local_path() {
                Some(p) => p.to_string_lossy().to_string(),
                None => format!("{:?}", lo.file.name),
            },
            other => format!("{:?}", other),
        };
        let mut macs: Vec<String> = Vec::new();
        if exp {
            for e in sp.macro_backtrace() {
                if let rustc_span::ExpnKind::Macro(k, name) = e.kind {
                    macs.push(format!("{:?}:{}", k, name));
                }
            }
        }
        let mut s = format!("{{\"f\":{},\"l\":{},\"c\":{}", esc(&file), lo.line, lo.col.0 + 1);
        if exp {
            s.push_str(",\"exp\":true");
        }
        if let Some(d) = dk {
            let _ = write!(s, ",\"dk\":{}", esc(&d));
        }
        if !macs.is_empty() {
            let _ = write!(
                s,
                ",\"mac\":[{}]",
                macs.iter().map(|m| esc(m)).collect::<Vec<_>>().join(",")
            );
        }
        s.push('}');
        s
    }

    fn place(&self, p: &Place<'tcx>) -> String {
        let tcx = self.tcx;
        let mut s = format!("{{\"l\":{},\"p\":[", p.local.as_usize());
        let mut pty = PlaceTy::from_ty(self.body.local_decls[p.local].ty);
        let mut first = true;
        for elem in p.projection.iter() {
            if !first {
                s.push(',');
            }
            first = false;
            match elem {
                ProjectionElem::Deref => s.push_str("{\"k\":\"deref\"}"),
                ProjectionElem::Field(f, fty) => {
                    let mut owner = String::new();
                    let mut vname = String::new();
                    let name = match pty.ty.kind() {
                        ty::Adt(adt, _) => {
                            owner = dps(tcx, adt.did());
                            let v = pty.variant_index.unwrap_or(rustc_abi::FIRST_VARIANT);
                            if adt.is_enum() && pty.variant_index.is_none() {
                                format!("{}", f.as_usize())
                            } else {
                                vname = adt.variant(v).name.to_string();
                                adt.variant(v).fields[f].name.to_string()
                            }
                        }
                        ty::Closure(..) | ty::Coroutine(..) | ty::CoroutineClosure(..) => {
                            // upvar access: only meaningful when the base is this body's own env
                            owner = "<env>".to_string();
                            self.upvars
                                .get(f.as_usize())
                                .cloned()
                                .unwrap_or_else(|| format!("upvar{}", f.as_usize()))
                        }
                        _ => format!("{}", f.as_usize()),
                    };
                    let _ = write!(
                        s,
                        "{{\"k\":\"field\",\"i\":{},\"n\":{},\"o\":{},\"v\":{},\"t\":{}}}",
                        f.as_usize(),
                        esc(&name),
                        esc(&owner),
                        esc(&vname),
                        esc(&tys(fty))
                    );
                }
                ProjectionElem::Downcast(name, _idx) => {
                    let n = name.map(|n| n.to_string()).unwrap_or_default();
                    let _ = write!(s, "{{\"k\":\"downcast\",\"v\":{}}}", esc(&n));
                }
                ProjectionElem::Index(l) => {
                    let _ = write!(s, "{{\"k\":\"index\",\"l\":{}}}", l.as_usize());
                }
                ProjectionElem::ConstantIndex { offset, from_end, .. } => {
                    let _ = write!(
                        s,
                        "{{\"k\":\"cindex\",\"off\":{},\"from_end\":{}}}",
                        offset, from_end
                    );
                }
                ProjectionElem::Subslice { from, to, from_end } => {
                    let _ = write!(
                        s,
                        "{{\"k\":\"subslice\",\"from\":{},\"to\":{},\"from_end\":{}}}",
                        from, to, from_end
                    );
                }
                other => {
                    let _ = write!(s, "{{\"k\":\"other\",\"d\":{}}}", esc(&format!("{:?}", other)));
                }
            }
            pty = pty.projection_ty(tcx, elem);
        }
        s.push_str("]}");
        s
    }

    fn konst(&self, c: &ConstOperand<'tcx>) -> String {
        let tcx = self.tcx;
        let ty = c.const_.ty();
        let mut s = format!("{{\"k\":\"const\",\"ty\":{}", esc(&tys(ty)));
        match ty.kind() {
            ty::FnDef(d, args) => {
                let _ = write!(s, ",\"fn\":{}", self.fnref(*d, args));
            }
            _ => {}
        }
        match c.const_ {
            Const::Unevaluated(u, _) => {
                let _ = write!(s, ",\"def\":{}", esc(&dps(tcx, u.def)));
                if let Some(p) = u.promoted {
                    let _ = write!(s, ",\"promoted\":{}", p.as_usize());
                }
            }
            _ => {}
        }
        let is_intlike = matches!(ty.kind(), ty::Int(_) | ty::Uint(_) | ty::Bool | ty::Char);
        if is_intlike {
            if let Const::Val(..) | Const::Ty(..) = c.const_ {
                let env = ty::TypingEnv::post_analysis(tcx, self.owner.to_def_id());
                if let Some(si) = c.const_.try_eval_scalar_int(tcx, env) {
                    let bits = si.to_bits_unchecked();
                    let _ = write!(s, ",\"int\":\"{}\"", bits);
                }
            }
        }
        let disp = with_no_trimmed_paths!(format!("{}", c.const_));
        let disp = if disp.len() > 400 { disp[..400].to_string() } else { disp };
        let _ = write!(s, ",\"v\":{}}}", esc(&disp));
        s
    }

    fn fnref(&self, d: DefId, args: ty::GenericArgsRef<'tcx>) -> String {
        let tcx = self.tcx;
        let def = dps(tcx, d);
        let full = with_no_trimmed_paths!(tcx.def_path_str_with_args(d, args));
        let mut s = format!("{{\"def\":{},\"full\":{}", esc(&def), esc(&full));
        let kind = tcx.def_kind(d);
        if matches!(kind, DefKind::AssocFn) {
            if let Some(tr) = tcx.trait_of_assoc(d) {
                let _ = write!(s, ",\"trait\":{}", esc(&dps(tcx, tr)));
                if let Some(t) = args.types().next() {
                    let _ = write!(s, ",\"self_ty\":{}", esc(&tys(t)));
                }
            } else if let Some(im) = tcx.impl_of_assoc(d) {
                // impl method: inherent or trait impl
                let st = tcx.type_of(im).instantiate(tcx, args).skip_norm_wip();
                let _ = write!(s, ",\"self_ty\":{}", esc(&tys(st)));
                if let Some(tr) = tcx.impl_opt_trait_ref(im) {
                    let _ = write!(s, ",\"impl_trait\":{}", esc(&dps(tcx, tr.skip_binder().def_id)));
                }
            }
            let _ = write!(s, ",\"name\":{}", esc(tcx.item_name(d).as_str()));
        }
        // generic type arguments, as strings
        let targs: Vec<String> = args.types().map(|t| esc(&tys(t))).collect();
        let _ = write!(s, ",\"targs\":[{}]", targs.join(","));
        // try to resolve trait method calls to the concrete impl
        if matches!(kind, DefKind::AssocFn) && tcx.trait_of_assoc(d).is_some() {
            let env = ty::TypingEnv::post_analysis(tcx, self.owner.to_def_id());
            let args2 = tcx.erase_and_anonymize_regions(args);
            if !args2.has_non_region_infer() {
                if let Ok(Some(inst)) = ty::Instance::try_resolve(tcx, env, d, args2) {
                    let rd = inst.def_id();
                    if rd != d {
                        let _ = write!(s, ",\"resolved\":{}", esc(&dps(tcx, rd)));
                    }
                }
            }
        }
        s.push('}');
        s
    }

    fn operand(&self, o: &Operand<'tcx>) -> String {
        match o {
            Operand::Copy(p) => format!("{{\"k\":\"copy\",\"pl\":{}}}", self.place(p)),
            Operand::Move(p) => format!("{{\"k\":\"move\",\"pl\":{}}}", self.place(p)),
            Operand::Constant(c) => self.konst(c),
            other => format!("{{\"k\":\"other\",\"d\":{}}}", esc(&format!("{:?}", other))),
        }
    }

    fn rvalue(&self, rv: &Rvalue<'tcx>) -> String {
        let tcx = self.tcx;
        match rv {
            Rvalue::Use(o, _) => format!("{{\"k\":\"use\",\"op\":{}}}", self.operand(o)),
            Rvalue::CopyForDeref(p) => format!(
                "{{\"k\":\"use\",\"op\":{{\"k\":\"copy\",\"pl\":{}}}}}",
                self.place(p)
            ),
            Rvalue::Ref(_, bk, p) => {
                let m = matches!(bk, BorrowKind::Mut { .. });
                format!("{{\"k\":\"ref\",\"mut\":{},\"pl\":{}}}", m, self.place(p))
            }
            Rvalue::RawPtr(k, p) => format!(
                "{{\"k\":\"rawptr\",\"mut\":{},\"pl\":{}}}",
                matches!(k, RawPtrKind::Mut),
                self.place(p)
            ),
            Rvalue::Discriminant(p) => {
                let t = p.ty(self.body, tcx).ty;
                let mut variants = String::new();
                if let ty::Adt(adt, _) = t.kind() {
                    if adt.is_enum() {
                        let mut v: Vec<String> = Vec::new();
                        for (idx, discr) in adt.discriminants(tcx) {
                            v.push(format!(
                                "[\"{}\",{}]",
                                discr.val,
                                esc(adt.variant(idx).name.as_str())
                            ));
                        }
                        variants = v.join(",");
                    }
                }
                format!(
                    "{{\"k\":\"discr\",\"pl\":{},\"ty\":{},\"variants\":[{}]}}",
                    self.place(p),
                    esc(&tys(t)),
                    variants
                )
            }
            Rvalue::Aggregate(kind, ops) => {
                let mut s = String::from("{\"k\":\"agg\"");
                match &**kind {
                    AggregateKind::Adt(d, v, _, _, active) => {
                        let adt = tcx.adt_def(*d);
                        let var = adt.variant(*v);
                        let _ = write!(
                            s,
                            ",\"ak\":\"adt\",\"adt\":{},\"variant\":{}",
                            esc(&dps(tcx, *d)),
                            esc(var.name.as_str())
                        );
                        let names: Vec<String> = if let Some(a) = active {
                            vec![esc(var.fields[*a].name.as_str())]
                        } else {
                            var.fields.iter().map(|f| esc(f.name.as_str())).collect()
                        };
                        let _ = write!(s, ",\"fields\":[{}]", names.join(","));
                    }
                    AggregateKind::Tuple => s.push_str(",\"ak\":\"tuple\""),
                    AggregateKind::Array(t) => {
                        let _ = write!(s, ",\"ak\":\"array\",\"ety\":{}", esc(&tys(*t)));
                    }
                    AggregateKind::Closure(d, _) => {
                        let _ = write!(s, ",\"ak\":\"closure\",\"def\":{}", esc(&dps(tcx, *d)));
                    }
                    AggregateKind::Coroutine(d, _) => {
                        let _ = write!(s, ",\"ak\":\"coroutine\",\"def\":{}", esc(&dps(tcx, *d)));
                    }
                    AggregateKind::CoroutineClosure(d, _) => {
                        let _ = write!(s, ",\"ak\":\"coroutine_closure\",\"def\":{}", esc(&dps(tcx, *d)));
                    }
                    AggregateKind::RawPtr(..) => s.push_str(",\"ak\":\"rawptr\""),
                }
                let o: Vec<String> = ops.iter().map(|o| self.operand(o)).collect();
                let _ = write!(s, ",\"ops\":[{}]}}", o.join(","));
                s
            }
            Rvalue::BinaryOp(op, b) => format!(
                "{{\"k\":\"bin\",\"op\":\"{:?}\",\"a\":{},\"b\":{}}}",
                op,
                self.operand(&b.0),
                self.operand(&b.1)
            ),
            Rvalue::UnaryOp(op, o) => {
                format!("{{\"k\":\"un\",\"op\":\"{:?}\",\"a\":{}}}", op, self.operand(o))
            }
            Rvalue::Cast(k, o, t) => {
                let from = o.ty(self.body, tcx);
                format!(
                    "{{\"k\":\"cast\",\"ck\":{},\"op\":{},\"from\":{},\"to\":{}}}",
                    esc(&format!("{:?}", k)),
                    self.operand(o),
                    esc(&tys(from)),
                    esc(&tys(*t))
                )
            }
            Rvalue::Repeat(o, n) => format!(
                "{{\"k\":\"repeat\",\"op\":{},\"n\":{}}}",
                self.operand(o),
                esc(&format!("{}", n))
            ),
            other => format!("{{\"k\":\"other\",\"d\":{}}}", esc(&format!("{:?}", other))),
        }
    }

    fn bbid(b: BasicBlock) -> usize {
        b.as_usize()
    }

    fn unwind(u: &UnwindAction) -> String {
        match u {
            UnwindAction::Cleanup(b) => format!("{}", b.as_usize()),
            _ => "null".to_string(),
        }
    }

    fn terminator(&self, t: &Terminator<'tcx>) -> String {
        let sp = self.span(t.source_info.span);
        match &t.kind {
            TerminatorKind::Goto { target } => {
                format!("{{\"k\":\"goto\",\"t\":{},\"sp\":{}}}", Self::bbid(*target), sp)
            }
            TerminatorKind::SwitchInt { discr, targets } => {
                let mut arms: Vec<String> = Vec::new();
                for (v, b) in targets.iter() {
                    arms.push(format!("[\"{}\",{}]", v, Self::bbid(b)));
                }
                format!(
                    "{{\"k\":\"switch\",\"op\":{},\"ty\":{},\"arms\":[{}],\"otherwise\":{},\"sp\":{}}}",
                    self.operand(discr),
                    esc(&tys(discr.ty(self.body, self.tcx))),
                    arms.join(","),
                    Self::bbid(targets.otherwise()),
                    sp
                )
            }
            TerminatorKind::Return => format!("{{\"k\":\"return\",\"sp\":{}}}", sp),
            TerminatorKind::Unreachable => format!("{{\"k\":\"unreachable\",\"sp\":{}}}", sp),
            TerminatorKind::UnwindResume => format!("{{\"k\":\"resume\",\"sp\":{}}}", sp),
            TerminatorKind::UnwindTerminate(_) => format!("{{\"k\":\"terminate\",\"sp\":{}}}", sp),
            TerminatorKind::Drop { place, target, unwind, .. } => format!(
                "{{\"k\":\"drop\",\"pl\":{},\"t\":{},\"u\":{},\"sp\":{}}}",
                self.place(place),
                Self::bbid(*target),
                Self::unwind(unwind),
                sp
            ),
            TerminatorKind::Call { func, args, destination, target, unwind, fn_span, .. } => {
                let f = match func {
                    Operand::Constant(c) => match c.const_.ty().kind() {
                        ty::FnDef(d, a) => self.fnref(*d, a),
                        _ => format!("{{\"indirect\":{}}}", self.operand(func)),
                    },
                    _ => format!("{{\"indirect\":{}}}", self.operand(func)),
                };
                let a: Vec<String> = args.iter().map(|a| self.operand(&a.node)).collect();
                let rt = destination.ty(self.body, self.tcx).ty;
                format!(
                    "{{\"k\":\"call\",\"fn\":{},\"args\":[{}],\"dest\":{},\"rty\":{},\"t\":{},\"u\":{},\"sp\":{},\"fsp\":{}}}",
                    f,
                    a.join(","),
                    self.place(destination),
                    esc(&tys(rt)),
                    target.map(|b| format!("{}", Self::bbid(b))).unwrap_or("null".into()),
                    Self::unwind(unwind),
                    sp,
                    self.span(*fn_span)
                )
            }
            TerminatorKind::TailCall { .. } => format!("{{\"k\":\"tailcall\",\"sp\":{}}}", sp),
            TerminatorKind::Assert { cond, expected, msg, target, unwind } => {
                let (mk, mops): (String, Vec<String>) = match &**msg {
                    AssertKind::Overflow(op, a, b) => (
                        format!("Overflow:{:?}", op),
                        vec![self.operand(a), self.operand(b)],
                    ),
                    AssertKind::BoundsCheck { len, index } => (
                        "BoundsCheck".to_string(),
                        vec![self.operand(len), self.operand(index)],
                    ),
                    AssertKind::OverflowNeg(a) => ("OverflowNeg".into(), vec![self.operand(a)]),
                    AssertKind::DivisionByZero(a) => ("DivisionByZero".into(), vec![self.operand(a)]),
                    AssertKind::RemainderByZero(a) => ("RemainderByZero".into(), vec![self.operand(a)]),
                    other => (format!("{:?}", other), vec![]),
                };
                format!(
                    "{{\"k\":\"assert\",\"cond\":{},\"expected\":{},\"msg\":{},\"mops\":[{}],\"t\":{},\"u\":{},\"sp\":{}}}",
                    self.operand(cond),
                    expected,
                    esc(&mk),
                    mops.join(","),
                    Self::bbid(*target),
                    Self::unwind(unwind),
                    sp
                )
            }
            TerminatorKind::Yield { value, resume, resume_arg, drop } => format!(
                "{{\"k\":\"yield\",\"val\":{},\"t\":{},\"resume_arg\":{},\"drop\":{},\"sp\":{}}}",
                self.operand(value),
                Self::bbid(*resume),
                self.place(resume_arg),
                drop.map(|b| format!("{}", Self::bbid(b))).unwrap_or("null".into()),
                sp
            ),
            TerminatorKind::CoroutineDrop => format!("{{\"k\":\"coroutine_drop\",\"sp\":{}}}", sp),
            TerminatorKind::FalseEdge { real_target, imaginary_target } => format!(
                "{{\"k\":\"false_edge\",\"t\":{},\"imag\":{},\"sp\":{}}}",
                Self::bbid(*real_target),
                Self::bbid(*imaginary_target),
                sp
            ),
            TerminatorKind::FalseUnwind { real_target, .. } => format!(
                "{{\"k\":\"false_unwind\",\"t\":{},\"sp\":{}}}",
                Self::bbid(*real_target),
                sp
            ),
            TerminatorKind::InlineAsm { .. } => format!("{{\"k\":\"asm\",\"sp\":{}}}", sp),
        }
    }

    fn body_json(&self, header: &str) -> String {
        let body = self.body;
        let mut s = String::new();
        s.push('{');
        s.push_str(header);
        let _ = write!(s, ",\"arg_count\":{}", body.arg_count);
        let _ = write!(s, ",\"span\":{}", self.span(body.span));
        // locals
        let mut names: Vec<Option<String>> = vec![None; body.local_decls.len()];
        for vdi in &body.var_debug_info {
            if let VarDebugInfoContents::Place(p) = &vdi.value {
                if p.projection.is_empty() {
                    names[p.local.as_usize()] = Some(vdi.name.to_string());
                }
            }
        }
        s.push_str(",\"locals\":[");
        for (i, (_l, d)) in body.local_decls.iter_enumerated().enumerate() {
            if i > 0 {
                s.push(',');
            }
            let _ = write!(s, "{{\"ty\":{}", esc(&tys(d.ty)));
            if let Some(n) = &names[i] {
                let _ = write!(s, ",\"n\":{}", esc(n));
            }
            if d.is_user_variable() {
                s.push_str(",\"user\":true");
            }
            s.push('}');
        }
        s.push(']');
        // debug info with projections (captured variables)
        s.push_str(",\"dbg\":[");
        let mut first = true;
        for vdi in &body.var_debug_info {
            if let VarDebugInfoContents::Place(p) = &vdi.value {
                if !p.projection.is_empty() {
                    if !first {
                        s.push(',');
                    }
                    first = false;
                    let _ = write!(s, "{{\"n\":{},\"pl\":{}}}", esc(vdi.name.as_str()), self.place(p));
                }
            }
        }
        s.push(']');
        s.push_str(",\"blocks\":[");
        for (i, (_bb, data)) in body.basic_blocks.iter_enumerated().enumerate() {
            if i > 0 {
                s.push(',');
            }
            s.push_str("{\"s\":[");
            let mut firsts = true;
            for st in &data.statements {
                let js = match &st.kind {
                    StatementKind::Assign(b) => {
                        let (pl, rv) = &**b;
                        Some(format!(
                            "{{\"k\":\"assign\",\"lhs\":{},\"rv\":{},\"sp\":{}}}",
                            self.place(pl),
                            self.rvalue(rv),
                            self.span(st.source_info.span)
                        ))
                    }
                    StatementKind::StorageLive(l) => Some(format!("{{\"k\":\"live\",\"l\":{}}}", l.as_usize())),
                    StatementKind::StorageDead(l) => Some(format!("{{\"k\":\"dead\",\"l\":{}}}", l.as_usize())),
                    StatementKind::SetDiscriminant { place, variant_index } => Some(format!(
                        "{{\"k\":\"setdiscr\",\"pl\":{},\"v\":{}}}",
                        self.place(place),
                        variant_index.as_usize()
                    )),
                    _ => None,
                };
                if let Some(js) = js {
                    if !firsts {
                        s.push(',');
                    }
                    firsts = false;
                    s.push_str(&js);
                }
            }
            s.push_str("],\"t\":");
            s.push_str(&self.terminator(data.terminator()));
            if data.is_cleanup {
                s.push_str(",\"cleanup\":true");
            }
            s.push('}');
        }
        s.push_str("]}");
        s
    }
}

fn emit(tcx: TyCtxt<'_>) -> String {
    let mut out = String::new();
    let nonce = std::env::var("MIRFACTS_NONCE").unwrap_or_default();
    let ovf = tcx.sess.overflow_checks();
    let _ = write!(
        out,
        "{{\"nonce\":{},\"crate\":{},\"overflow_checks\":{},\"rustc\":{}",
        esc(&nonce),
        esc(tcx.crate_name(LOCAL_CRATE).as_str()),
        ovf,
        esc(&format!("{:?}", option_env!("CFG_VERSION")))
    );

    // ADT table + impl table + statics
    let mut adts: Vec<String> = Vec::new();
    let mut impls: Vec<String> = Vec::new();
    let mut statics: Vec<String> = Vec::new();
    let mut fns: Vec<String> = Vec::new();
    for ld in tcx.hir_crate_items(()).definitions() {
        let d = ld.to_def_id();
        match tcx.def_kind(d) {
            DefKind::Struct | DefKind::Enum | DefKind::Union => {
                let adt = tcx.adt_def(d);
                let mut vs: Vec<String> = Vec::new();
                for v in adt.variants() {
                    let fs: Vec<String> = v
                        .fields
                        .iter()
                        .map(|f| {
                            format!(
                                "{{\"n\":{},\"ty\":{}}}",
                                esc(f.name.as_str()),
                                esc(&tys(tcx.type_of(f.did).instantiate_identity().skip_norm_wip()))
                            )
                        })
                        .collect();
                    vs.push(format!("{{\"n\":{},\"fields\":[{}]}}", esc(v.name.as_str()), fs.join(",")));
                }
                adts.push(format!(
                    "{{\"def\":{},\"kind\":\"{}\",\"variants\":[{}]}}",
                    esc(&dps(tcx, d)),
                    if adt.is_enum() { "enum" } else if adt.is_union() { "union" } else { "struct" },
                    vs.join(",")
                ));
            }
            DefKind::Impl { .. } => {
                let st = tcx.type_of(d).instantiate_identity().skip_norm_wip();
                let tr = tcx.impl_opt_trait_ref(d).map(|t| dps(tcx, t.skip_binder().def_id));
                let ms: Vec<String> = tcx
                    .associated_item_def_ids(d)
                    .iter()
                    .map(|m| esc(&dps(tcx, *m)))
                    .collect();
                impls.push(format!(
                    "{{\"def\":{},\"self_ty\":{},\"trait\":{},\"items\":[{}]}}",
                    esc(&dps(tcx, d)),
                    esc(&tys(st)),
                    tr.map(|t| esc(&t)).unwrap_or("null".into()),
                    ms.join(",")
                ));
            }
            DefKind::Static { mutability, .. } => {
                let t = tcx.type_of(d).instantiate_identity().skip_norm_wip();
                statics.push(format!(
                    "{{\"def\":{},\"ty\":{},\"mut\":{}}}",
                    esc(&dps(tcx, d)),
                    esc(&tys(t)),
                    mutability.is_mut()
                ));
            }
            DefKind::Fn | DefKind::AssocFn => {
                let sig = tcx.fn_sig(d).instantiate_identity().skip_norm_wip();
                let asyncness = tcx.asyncness(d).is_async();
                fns.push(format!(
                    "{{\"def\":{},\"sig\":{},\"async\":{}}}",
                    esc(&dps(tcx, d)),
                    esc(&with_no_trimmed_paths!(format!("{}", sig))),
                    asyncness
                ));
            }
            _ => {}
        }
    }
    let _ = write!(out, ",\"adts\":[{}]", adts.join(","));
    let _ = write!(out, ",\"impls\":[{}]", impls.join(","));
    let _ = write!(out, ",\"statics\":[{}]", statics.join(","));
    let _ = write!(out, ",\"fns\":[{}]", fns.join(","));

    // bodies
    out.push_str(",\"bodies\":[");
    let mut firstb = true;
    for did in tcx.hir_body_owners() {
        let d = did.to_def_id();
        let kind = tcx.def_kind(d);
        // Skip bodies that are not ordinary code (anon consts inside types etc. are fine to keep)
        let (steal_body, steal_prom) = tcx.mir_promoted(did);
        let body = steal_body.borrow();
        let promoted = steal_prom.borrow();
        let upvars: Vec<String> = if tcx.is_closure_like(d) {
            tcx.closure_captures(did).iter().map(|c| c.var_ident.to_string()).collect()
        } else {
            Vec::new()
        };
        let parent = tcx.opt_parent(d).map(|p| dps(tcx, p)).unwrap_or_default();
        let is_coroutine = tcx.is_coroutine(d);
        let cx = Cx { tcx, body: &body, owner: did, upvars: upvars.clone() };
        let header = format!(
            "\"def\":{},\"kind\":\"{:?}\",\"parent\":{},\"coroutine\":{},\"upvars\":[{}],\"ret_ty\":{}",
            esc(&dps(tcx, d)),
            kind,
            esc(&parent),
            is_coroutine,
            upvars.iter().map(|u| esc(u)).collect::<Vec<_>>().join(","),
            esc(&tys(body.return_ty()))
        );
        if !firstb {
            out.push(',');
        }
        firstb = false;
        out.push_str(&cx.body_json(&header));
        for (pi, pb) in promoted.iter_enumerated() {
            let pcx = Cx { tcx, body: pb, owner: did, upvars: upvars.clone() };
            let header = format!(
                "\"def\":{},\"kind\":\"Promoted\",\"parent\":{},\"coroutine\":false,\"upvars\":[],\"promoted_index\":{},\"ret_ty\":{}",
                esc(&format!("{}::{{promoted#{}}}", dps(tcx, d), pi.as_usize())),
                esc(&dps(tcx, d)),
                pi.as_usize(),
                esc(&tys(pb.return_ty()))
            );
            out.push(',');
            out.push_str(&pcx.body_json(&header));
        }
    }
    out.push_str("]}");
    out
}

impl rustc_driver::Callbacks for Cb {
    fn after_expansion<'tcx>(
        &mut self,
        _c: &rustc_interface::interface::Compiler,
        tcx: TyCtxt<'tcx>,
    ) -> Compilation {
        let want = std::env::var("MIRFACTS_CRATE").unwrap_or_else(|_| "trampoline".to_string());
        let krate = tcx.crate_name(LOCAL_CRATE);
        if krate.as_str() != want {
            return Compilation::Continue;
        }
        // only the non-test bin/lib target: skip if compiled with --test
        if tcx.sess.is_test_crate() {
            return Compilation::Continue;
        }
        let outp = match std::env::var("MIRFACTS_OUT") {
            Ok(p) => p,
            Err(_) => return Compilation::Continue,
        };
        // fail on type errors before touching MIR
        if tcx.dcx().has_errors().is_some() {
            return Compilation::Continue;
        }
        let s = emit(tcx);
        // type errors surface while MIR is built: never write facts for a crate that does not compile
        if tcx.dcx().has_errors().is_some() {
            return Compilation::Continue;
        }
        let tmp = format!("{}.tmp.{}", outp, std::process::id());
        std::fs::write(&tmp, s).expect("write facts");
        std::fs::rename(&tmp, &outp).expect("rename facts");
        if std::env::var("MIRFACTS_STOP").ok().as_deref() == Some("1") {
            Compilation::Stop
        } else {
            Compilation::Continue
        }
    }
}

fn main() {
    let mut args: Vec<String> = std::env::args().collect();
    // When used as RUSTC_WORKSPACE_WRAPPER, argv[1] is the path to rustc.
    if args.len() > 1 && (args[1].ends_with("rustc") || args[1].contains("/rustc")) {
        args.remove(1);
    }
    if let Ok(p) = std::env::var("MIRFACTS_ARGS_OUT") {
        let is_target = {
            let want = std::env::var("MIRFACTS_CRATE").unwrap_or_else(|_| "trampoline".to_string());
            let mut it = args.iter();
            let mut found = false;
            while let Some(a) = it.next() {
                if a == "--crate-name" {
                    if let Some(n) = it.next() {
                        found = n == &want;
                    }
                }
            }
            found && !args.iter().any(|a| a == "--test")
        };
        if is_target {
            let _ = std::fs::write(&p, args.join("\n"));
        }
    }
    if let Ok(f) = std::env::var("MIRFACTS_OVERFLOW") {
        // force overflow checks on/off regardless of the cargo profile
        args.push(format!("-Coverflow-checks={}", f));
    }
    rustc_driver::run_compiler(&args, &mut Cb);
}
