"""C01 - an incoming HTLC is settled only with a preimage of its own payment hash (DESIGN 5/C01)."""
import rules_lc as R
import rules_hh as H
import rules_ext as E
import rules_store as S
import rules_provider as P

EXPLANATION = (
    "Decides the structural necessary conditions of C01: (G) every TrampolineInfo construction is edge-guarded by an equality test between "
    "htlc.payment_hash and payment_hash() of the very invoice stored in it, covering the whole hash; (K) the table key, the wait/pay hash, the "
    "table lookups and every datastore key are payment_hash() of that one TrampolineInfo's invoice, and the lifecycle receives the classified value; "
    "(P) every Resolve key has its provenance in pay's Ok payload, wait_payment's Ok(Some) payload or the stored Succeeded preimage; inside the "
    "provider, returned preimages come from COMPLETE's payment_preimage, a COMPLETE-listed part or a successful waitsendpay; mark_succeeded "
    "stores the preimage it settled with. SHA-256 itself and the node returning the right preimage are outside a static argument."
)
ASSUMPTIONS = ["the node's pay/listsendpays/waitsendpay return preimages of the requested payment hash", "PartialEq on byte slices / Sha256 compares all bytes"]


def run(F, X, rep):
    C = R.Ctx.get(F, X)
    E.g_hash_gate(C, rep, "C01-G")
    if R.need_lc(C, rep, "C01-K") and H.need_hh(C, rep, "C01-K"):
        E.k_key_is_invoice_hash(C, rep, "C01-K")
        S.w5_no_deletion_and_keys(C, rep, "C01-K")
    E.p_resolve_key_provenance(C, rep, "C01-P")
    P.v_wait_payment(C, rep, "C01-P15")
    P.d_dispatch(C, rep, "C01-P16")
    S.w3_succeeded_holds_preimage(C, rep, "C01-P")
