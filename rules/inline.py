"""Normal form of the program: effectful private helpers are spliced into their callers.

A rule about "the lifecycle", "the handler", "a datastore method" or "main" is a rule about what that function
*does*, whether the statements sit in its own body or in a helper it calls (or awaits) in the same source file.
Extract-function / inline-function / split-into-phases refactorings change only that placement.  To make every
path rule (dominance, must-pass-through, exactly-once, lock regions, ...) independent of the placement, each body
is rewritten - once, when the facts are loaded - into a normal form in which

  * a direct call to a local, same-file function that is not kept (see `kept`) and that (transitively) performs an
    effect the rules care about is replaced by the callee's blocks (parameters become assignments, `return`
    becomes an assignment of the destination and a goto to the call's return block);
  * `helper(..).await` of such an `async fn` (and the await of a function's own nested `async move` block, as
    produced by #[instrument]) is replaced by the callee coroutine's blocks at the poll site: the coroutine's
    captured variables are bound from the aggregate that built the future, its `return x` becomes
    `poll_result = Poll::Ready(x)`, and the host's `match poll_result` keeps only its Ready arm.

Block and local indices of the host are preserved (callee blocks and locals are appended), so every site that
existed before the splice keeps its coordinates.  Spliced blocks carry "ctx" (the chain of callee defs) so that
per-function enumerations (panic sites, writers) can skip the copies: the callee still exists as a body of its own.

This is a transformation of the analysed representation only (nothing is executed)."""
import copy
import re

import mir
from mir import Body, Call, canon

MAXDEPTH = 5
MAXBLOCKS = 6000


# ----------------------------------------------------------------------------- remapping
def _place(pl, lo):
    q = {"l": pl["l"] + lo, "p": []}
    for p in pl["p"]:
        if p.get("k") == "index" and "l" in p:
            p = dict(p)
            p["l"] = p["l"] + lo
        q["p"].append(p)
    return q


def _operand(o, lo):
    if o["k"] in ("copy", "move"):
        return {"k": o["k"], "pl": _place(o["pl"], lo)}
    return o


def _rvalue(rv, lo):
    r = dict(rv)
    k = rv["k"]
    if k in ("use", "cast", "repeat"):
        r["op"] = _operand(rv["op"], lo)
    elif k in ("ref", "rawptr", "discr", "len", "copy_for_deref"):
        if "pl" in rv:
            r["pl"] = _place(rv["pl"], lo)
    elif k == "agg":
        r["ops"] = [_operand(o, lo) for o in rv["ops"]]
    elif k == "bin":
        r["a"] = _operand(rv["a"], lo)
        r["b"] = _operand(rv["b"], lo)
    elif k == "un":
        r["a"] = _operand(rv["a"], lo)
    else:
        for key in ("op", "a", "b"):
            if key in rv and isinstance(rv[key], dict) and "k" in rv[key]:
                r[key] = _operand(rv[key], lo)
        if "pl" in rv:
            r["pl"] = _place(rv["pl"], lo)
        if "ops" in rv:
            r["ops"] = [_operand(o, lo) for o in rv["ops"]]
    return r


def _stmt(s, lo):
    k = s["k"]
    if k == "assign":
        r = {"k": "assign", "lhs": _place(s["lhs"], lo), "rv": _rvalue(s["rv"], lo), "sp": s["sp"]}
        for fl in ("consumed", "inl"):
            if fl in s:
                r[fl] = s[fl]
        return r
    if k in ("live", "dead"):
        return {"k": k, "l": s["l"] + lo}
    r = dict(s)
    if "pl" in r:
        r["pl"] = _place(r["pl"], lo)
    return r


def _blk(x, bo):
    return x + bo if isinstance(x, int) else x


def _term(t, lo, bo):
    r = dict(t)
    k = t["k"]
    for key in ("t", "u", "otherwise", "imag", "drop"):
        if key in r:
            r[key] = _blk(r[key], bo)
    if k == "switch":
        r["arms"] = [[v, tg + bo] for v, tg in t["arms"]]
        r["op"] = _operand(t["op"], lo)
    elif k == "call":
        r["args"] = [_operand(a, lo) for a in t["args"]]
        r["dest"] = _place(t["dest"], lo)
        if "indirect" in t["fn"] and isinstance(t["fn"].get("indirect"), dict) and "k" in t["fn"]["indirect"]:
            fn = dict(t["fn"])
            fn["indirect"] = _operand(fn["indirect"], lo)
            r["fn"] = fn
    elif k == "drop":
        r["pl"] = _place(t["pl"], lo)
    elif k == "assert":
        r["cond"] = _operand(t["cond"], lo)
        r["mops"] = [_operand(o, lo) for o in t.get("mops", [])]
    elif k == "yield":
        r["val"] = _operand(t["val"], lo)
        r["resume_arg"] = _place(t["resume_arg"], lo)
    return r


# ----------------------------------------------------------------------------- policy
def _local_traits(F):
    out = set()
    for i in F.impls:
        tr = i.get("trait")
        if tr:
            c = canon(tr)
            if not re.match(r"^(std|core|alloc|serde|cln_plugin::_|tracing|futures|tokio|anyhow|bytes)\b", c):
                out.add(c)
    return out


EXTRA_EFFECT_NAMES = {
    "tokio::time::timeout", "tokio::time::interval", "tokio::time::Interval::tick", "tokio::sync::oneshot::Receiver::recv",
    "tokio::sync::oneshot::channel", "tokio::sync::mpsc::channel", "tokio::sync::mpsc::Sender::try_send",
    "tokio::sync::mpsc::Sender::send_timeout", "tokio::sync::mpsc::Sender::blocking_send", "tokio::sync::broadcast::Sender::send",
    "tokio::sync::broadcast::Receiver::recv", "tokio::sync::oneshot::Sender::send", "tokio::task::JoinHandle::abort",
    "std::future::poll_fn", "tokio::macros::support::poll_fn", "std::process::exit",
        "futures::StreamExt::next", "futures::SinkExt::send", "tokio_stream::StreamExt::next",
    "tokio::time::Instant::now",
}


def _direct_effect(F, c, ltraits):
    import lib
    if c.noise:
        return False
    if lib.call_effects(c):
        return True
    if c.name in EXTRA_EFFECT_NAMES:
        return True
    tr = c.fn.get("trait")
    if tr and canon(tr) in ltraits and ("Future" in (c.t.get("rty") or "")):
        return True                          # async method of one of the crate's service traits (rpc, store, provider, ..)
    n = c.name
    if n.startswith("cln_plugin::Builder::") or n.startswith("cln_plugin::ConfiguredPlugin::") or n.startswith("cln_plugin::Plugin::"):
        return True
    if n in ("std::ops::Fn::call", "std::ops::FnMut::call_mut", "std::ops::FnOnce::call_once") or c.indirect:
        # a callback of unknown code (a registered handler, a boxed/generic Fn); calling a closure written in this crate
        # is whatever that closure does (its body is part of the same fn group and is scanned with it)
        return "{closure@" not in (c.full or "")
    return False


# ----------------------------------------------------------------------------- Option/Result combinators
# name -> (enum, A-variant action, B-variant action); A = Some/Ok (payload x), B = None/Err (payload e for Err)
#   ("wrap", Variant, src) dest = Variant(src) | ("val", src) dest = src | ("none",) dest = None | ("bool", v)
#   src: "x" payload of the taken variant | ("call", i) closure argument i applied to the payload (or to nothing) | ("arg", i)
COMBINATORS = {
    "std::option::Option::map": ("opt", ("wrap", "Some", ("call", 1)), ("none",)),
    "std::option::Option::and_then": ("opt", ("val", ("call", 1)), ("none",)),
    "std::option::Option::unwrap_or_else": ("opt", ("val", "x"), ("val", ("call0", 1))),
    "std::option::Option::ok_or_else": ("opt", ("wrap", "Ok", "x"), ("wrap", "Err", ("call0", 1))),
    "std::option::Option::or_else": ("opt", ("wrap", "Some", "x"), ("val", ("call0", 1))),
    "std::option::Option::map_or": ("opt", ("val", ("call", 2)), ("val", ("arg", 1))),
    "std::option::Option::map_or_else": ("opt", ("val", ("call", 2)), ("val", ("call0", 1))),
    "std::option::Option::is_some_and": ("opt", ("val", ("call", 1)), ("bool", False)),
    "std::option::Option::is_none_or": ("opt", ("val", ("call", 1)), ("bool", True)),
    "std::option::Option::unwrap_or": ("opt", ("val", "x"), ("val", ("arg", 1))),
    "std::result::Result::unwrap_or": ("res", ("val", "x"), ("val", ("arg", 1))),
    "std::option::Option::ok_or": ("opt", ("wrap", "Ok", "x"), ("wrap", "Err", ("arg", 1))),
    "std::result::Result::map": ("res", ("wrap", "Ok", ("call", 1)), ("wrap", "Err", "x")),
    "std::result::Result::map_err": ("res", ("wrap", "Ok", "x"), ("wrap", "Err", ("call", 1))),
    "std::result::Result::and_then": ("res", ("val", ("call", 1)), ("wrap", "Err", "x")),
    "std::result::Result::or_else": ("res", ("wrap", "Ok", "x"), ("val", ("call", 1))),
    "std::result::Result::unwrap_or_else": ("res", ("val", "x"), ("val", ("call", 1))),
    "std::result::Result::map_or_else": ("res", ("val", ("call", 2)), ("val", ("call", 1))),
    "std::result::Result::map_or": ("res", ("val", ("call", 2)), ("val", ("arg", 1))),
    "std::result::Result::is_ok_and": ("res", ("val", ("call", 1)), ("bool", False)),
    "std::result::Result::is_err_and": ("res", ("bool", False), ("val", ("call", 1))),
    "std::result::Result::ok": ("res", ("wrap", "Some", "x"), ("none",)),
    "std::result::Result::err": ("res", ("none",), ("wrap", "Some", "x")),
    "std::result::Result::inspect_err": ("res", ("wrap", "Ok", "x"), ("tap", "Err", ("call", 1))),
    "std::result::Result::inspect": ("res", ("tap", "Ok", ("call", 1)), ("wrap", "Err", "x")),
    "std::option::Option::inspect": ("opt", ("tap", "Some", ("call", 1)), ("none",)),
}
ENUMS = {"opt": ("std::option::Option", [["0", "None"], ["1", "Some"]], "Some", "None"),
         "res": ("std::result::Result", [["0", "Ok"], ["1", "Err"]], "Ok", "Err")}


def _action_closure_args(act):
    out = []
    for x in act:
        if isinstance(x, tuple) and x and x[0] in ("call", "call0"):
            out.append(x[1])
    return out


class Normalizer:
    def __init__(self, F):
        self.F = F
        self.ltraits = _local_traits(F)
        self._eff = {}
        self._done = {}
        self._busy = set()
        self.kept_roles = self._roles()
        self.log = []
        self.spliced = set()
        self.closure_expansions = []

    # -- transitive "performs an effect the rules care about"
    def effectful(self, root, _stack=None):
        if root in self._eff:
            return self._eff[root]
        _stack = _stack or set()
        if root in _stack:
            return False
        _stack.add(root)
        res = False
        for b in self.F.group(root):
            for c in b.calls:
                if _direct_effect(self.F, c, self.ltraits):
                    res = True
                    break
                cal = c.resolved or c.name
                if cal != root and cal in self.F.by_cdef and self.F.by_cdef[cal].kind in ("Fn", "AssocFn"):
                    if self.effectful(cal, _stack):
                        res = True
                        break
            if res:
                break
        _stack.discard(root)
        self._eff[root] = res
        return res

    def _roles(self):
        """functions whose call is itself an event for the rules (never spliced)"""
        F = self.F
        keep = set()
        vt = table_value_type(F)
        for f in F.fns.values():
            d = canon(f["def"])
            if vt and (d.startswith(vt + "::")):
                keep.add(d)
        # functions removing from the payments table (the single removal point)
        for b in F.code_bodies():
            for c in b.calls:
                if c.name == "std::collections::HashMap::remove" and vt and vt in c.full:
                    keep.add(F.root_of(b))
        return keep

    def _extractor_phase(self, root, _d=0):
        """is `root` (a pure fallible helper) called from the extractor, directly or through other such helpers?"""
        if _d > 3:
            return False
        for c in self.F.callers.get(root, []):
            cr = self.F.root_of(c.body)
            cbb = self.F.by_cdef.get(cr)
            rb = self.F.by_cdef.get(root)
            if cbb is None or rb is None or cbb.span.get("f") != rb.span.get("f"):
                continue
            if re.match(r"^std::result::Result<std::option::Option<messages::TrampolineInfo>", cbb.ret_ty or ""):
                return True
            if cr != root and self._extractor_phase(cr, _d + 1):
                return True
        return False

    def kept(self, host_root, callee):
        F = self.F
        cb = F.by_cdef.get(callee)
        if cb is None or cb.kind not in ("Fn", "AssocFn"):
            return True
        if callee.startswith("<"):
            return True                      # trait impl method: the trait call is the event
        if mir.derive_generated(cb.span):
            return True
        guardish = bool(re.match(r"^(bool|std::result::Result<\(\), .*>|std::option::Option<\(\)>|std::option::Option<messages::HtlcAcceptedResponse>)$", cb.ret_ty or ""))
        if callee in self.kept_roles and not (guardish and not self.effectful(callee)):
            return True                      # (a pure predicate on the table entry is no event: it is spliced like any guard helper)
        hb = F.by_cdef.get(host_root)
        if hb is None or hb.span.get("f") != cb.span.get("f"):
            return True                      # cross-file call: a module's API, not an extracted helper
        if not self.effectful(callee):
            # pure helpers are handled at expression level - except guard helpers, whose result carries no data
            # (`fn ensure(..) -> Result<()>`, `fn ok(..) -> bool`): they exist for their control flow only
            if re.match(r"^(bool|std::result::Result<\(\), .*>|std::option::Option<\(\)>)$", cb.ret_ty or ""):
                return False
            # verdict helpers: `fn check(..) -> Option<HtlcAcceptedResponse>` (a rejection or nothing)
            if re.match(r"^std::option::Option<messages::HtlcAcceptedResponse>$", cb.ret_ty or ""):
                return False
            # verdict constructors: a helper that returns the classification result type, called from the classification
            # function itself (`HtlcCheckResult::passthrough(req)` = `Response(default_response(req))`)
            try:
                import names as _nm
                chk = _nm.of(F).check
            except Exception:   # noqa
                chk = {}
            if (cb.ret_ty or "") in chk and (hb.ret_ty or "") == (cb.ret_ty or ""):
                return False
            # phases of the extractor: `fn parse_invoice(..) -> Result<Bolt11Invoice>` called with `?` from the function that
            # classifies the metadata (-> Result<Option<TrampolineInfo>>) or from another such phase: the gates they contain
            # (hash, signature, amount table) guard what the extractor builds, exactly as when written inline
            anyres = r"^std::result::Result<.*, anyhow::Error>$"
            opt_params = any((cb.local_ty(i) or "").startswith("std::option::Option<") for i in range(1, cb.arg_count + 1))
            # (a helper that only combines already-extracted optional values - `reconcile(invoice_amount, tlv_amount)` - is
            # followed at expression level, parameters bound to the arguments)
            if re.match(anyres, cb.ret_ty or "") and not opt_params and not re.match(r"^std::result::Result<std::option::Option<messages::TrampolineInfo>", cb.ret_ty or ""):
                hrt = hb.ret_ty or ""
                if re.match(r"^std::result::Result<std::option::Option<messages::TrampolineInfo>", hrt) or (re.match(anyres, hrt) and not self.effectful(host_root) and self._extractor_phase(host_root)):
                    return False
            return True
        return False

    # -- normal form of one body (memoised)
    def norm(self, body, callee_form=False):
        """standalone form: helpers spliced in; callee form (used when this body is itself spliced into a host):
        additionally the function's own awaited `async move` block (the #[instrument] wrapper) is spliced in"""
        key = (body.def_, callee_form)
        if key in self._done:
            return self._done[key]
        if key in self._busy:
            return body
        self._busy.add(key)
        try:
            nb = self._norm(body, callee_form)
        finally:
            self._busy.discard(key)
        self._done[key] = nb
        return nb

    def _one_instrument_branch(self, j):
        """#[instrument] expands to `if span.is_disabled() { fut.await } else { fut.instrument(span).await }`:
        both branches run the same future; keep one"""
        import lib
        tmp = Body(self.F, j)
        n = 0
        for bi in sorted(tmp.reachable):
            t = tmp.blocks[bi]["t"]
            if t["k"] != "switch" or "Attr:instrument" not in (t["sp"].get("mac") or []):
                continue
            c = lib.decode_switch(tmp, bi)
            if c is not None and c.kind == "call" and c.call.name == "tracing::Span::is_disabled":
                j["blocks"][bi]["t"] = {"k": "goto", "t": t["otherwise"], "sp": t["sp"], "was": "instrument-switch"}
                n += 1
        return n

    def _norm(self, body, callee_form):
        F = self.F
        host_root = F.root_of(body)
        j = None
        cur = body
        if callee_form and body.coroutine:
            j = copy.deepcopy(body.j)
            for blk in j["blocks"]:
                blk.setdefault("ctx", [])
            if self._one_instrument_branch(j):
                cur = Body(F, j)
            else:
                j = None
        for _round in range(12):
            sites = self._sites(cur, host_root, callee_form)
            if not sites:
                break
            if j is None:
                j = copy.deepcopy(body.j)
                for blk in j["blocks"]:
                    blk.setdefault("ctx", [])
                cur = Body(F, j)
                sites = self._sites(cur, host_root, callee_form)     # statements of the copy, not of the original
            changed = False
            for site in sites:
                if len(j["blocks"]) > MAXBLOCKS:
                    break
                if site[0] == "sync":
                    changed |= self._splice_sync(j, site[1], site[2])
                elif site[0] == "comb":
                    changed |= self._expand_combinator(j, site[1], site[2], site[3])
                elif site[0] == "then_some":
                    changed |= self._expand_then_some(j, site[1])
                else:
                    changed |= self._splice_poll(j, site[1], site[2], site[3], site[4])
            if not changed:
                break
            cur = Body(F, j)
        if j is None:
            return body
        try:
            self._thread_jumps(j)
        except Exception as ex:   # noqa - threading is an optional refinement
            self.log.append((j["def"], "thread-error", repr(ex)[:80]))
        nb = Body(F, j)
        nb.normalized = True
        return nb

    # ------------------------------------------------------------------ jump threading
    def _thread_jumps(self, j):
        """A value built as `Ok(..)` in one block and as `Err(..)` in another (the return sites of a spliced helper, the
        arms of an expanded combinator) and then matched (`match r`, `r?`) after the paths have joined: each building
        site gets its own copy of the (straight-line) way to the match, ending in the arm its variant selects.  The
        paths of the two variants no longer share blocks, so reachability questions ("which error codes continue the
        loop?") get the same answer as for the hand-inlined code."""
        import lib
        for _round in range(40):
            cur = Body(self.F, j)
            done = False
            for W in sorted(cur.reachable):
                t = cur.blocks[W]["t"]
                if t["k"] != "switch" or cur.blocks[W].get("threaded"):
                    continue
                c = lib.decode_switch(cur, W)
                if c is None or c.kind not in ("enum", "bool") or c.place is None:
                    continue
                if c.kind == "bool":
                    plan = self._thread_plan_bool(cur, W, c.place, c)
                    if plan:
                        for (P, chain, arm_target, pre) in plan:
                            self._apply_thread(j, P, chain, W, arm_target, pre)
                        done = True
                        break
                    continue
                if [p for p in c.place["p"] if p["k"] != "deref"]:
                    continue
                L = c.place["l"]
                if False:
                    pass
                else:
                    # only the discriminant read (and storage markers) before the switch
                    if any(s["k"] == "assign" and not (s["rv"]["k"] == "discr") and s.get("inl") != "subject" for s in cur.blocks[W]["s"]):
                        continue
                    plan = self._thread_plan(cur, W, L, c)
                if not plan:
                    continue
                for (P, chain, arm_target, pre) in plan:
                    self._apply_thread(j, P, chain, W, arm_target, pre)
                done = True
                break
            if not done:
                break

    def _thread_plan_bool(self, cur, W, L, c):
        """a bool that is `true` here and `false` there (the returns of a spliced predicate helper) and then branched on"""
        import lib
        srcs = lib.bool_sources_of_place(cur, L)
        if not srcs or len(srcs) < 2 or all(v is None for v, _b in srcs) or len({b for _v, b in srcs}) != len(srcs):
            return None
        ft = lib.bool_edge_targets(cur, W)
        if ft is None or ft[0] == ft[1]:
            return None
        plan = []
        for v, P in srcs:
            if v is None or P == W or P not in cur.reachable or cur.blocks[P].get("threaded_from") == W:
                continue
            chain = []
            x = P
            ok = False
            for _ in range(16):
                succ = cur.succ[x]
                if len(succ) != 1:
                    break
                x = succ[0]
                if x in chain or x == P:
                    break
                chain.append(x)
                if x == W:
                    ok = True
                    break
                if cur.blocks[x]["t"]["k"] == "yield":
                    break
            if not ok:
                continue
            opv = (not v) if c.negated else v
            plan.append((P, chain, ft[1] if opv else ft[0], (None, "true" if v else "false")))
        return plan

    def _thread_plan(self, cur, W, L, c):
        """[(building block P, chain of blocks P->..->W (exclusive P, inclusive W), target arm, extra statements)]"""
        import lib
        t = cur.blocks[W]["t"]
        # what L holds: directly built variants, or Try::branch of a built value
        defsL = [d for d in cur.defs.get(L, []) if not (d[2] and not all(p["k"] == "deref" for p in d[2]))]
        viaTry = None
        if len(defsL) == 1 and defsL[0][3] == "call" and canon(defsL[0][4]["fn"].get("def") or "") == "std::ops::Try::branch":
            a0 = defsL[0][4]["args"][0] if defsL[0][4]["args"] else None
            if a0 is None or a0["k"] not in ("copy", "move") or [p for p in a0["pl"]["p"] if p["k"] != "deref"]:
                return None
            viaTry = (defsL[0][0], a0["pl"]["l"])          # (block of the Try::branch call, its operand local)
            if cur.blocks[viaTry[0]]["t"].get("t") != W:
                return None
        src_local = viaTry[1] if viaTry else L
        srcs = lib.variant_sources(cur, src_local)
        if not srcs or len(srcs) < 2 or all(v is None for v, _b in srcs):
            return None
        if len({b for _v, b in srcs}) != len(srcs):
            return None
        plan = []
        for v, P in srcs:
            if v is None:
                continue                     # made by a call / projection: this way keeps going to the shared switch
            if P == W or P not in cur.reachable:
                return None
            # straight-line way from P to W
            chain = []
            x = P
            ok = False
            for _ in range(16):
                succ = cur.succ[x]
                if len(succ) != 1:
                    break
                x = succ[0]
                if x in chain or x == P:
                    break
                chain.append(x)
                if x == W:
                    ok = True
                    break
                if cur.blocks[x]["t"]["k"] == "yield":
                    break
            if not ok:
                continue
            if viaTry and viaTry[0] not in chain:
                continue
            # the built value must be what the switch looks at: follow the moves along the chain
            holders = None
            for d in cur.defs.get(src_local, []):
                pass
            vv = {"Ok": "Continue", "Some": "Continue", "Err": "Break", "None": "Break"}.get(v, v) if viaTry else v
            arm = None
            names = c.variants
            for val, tg in t["arms"]:
                if names.get(val) == vv:
                    arm = tg
            if arm is None:
                covered = {names.get(val) for val, _tg in t["arms"]}
                if vv in names.values() and vv not in covered:
                    arm = t["otherwise"]
            if arm is None:
                continue
            if cur.blocks[P].get("threaded_from") == W:
                continue
            plan.append((P, chain, arm, (viaTry, v)))
        return plan

    def _apply_thread(self, j, P, chain, W, arm_target, pre):
        viaTry, v = pre
        blocks = j["blocks"]
        m = {}
        for x in chain:
            nb = copy.deepcopy(blocks[x])
            nb["threaded"] = True
            blocks.append(nb)
            m[x] = len(blocks) - 1
        for x in chain:
            nb = blocks[m[x]]
            t = nb["t"]
            if x == W:
                nb["t"] = {"k": "goto", "t": arm_target, "sp": t["sp"], "was": "threaded-switch"}
                continue
            if viaTry and x == viaTry[0]:
                # Try::branch of a value known to be V: Continue(payload) / Break(residual)
                src = t["args"][0]
                if v in ("Ok", "Some"):
                    adt = "std::result::Result" if v == "Ok" else "std::option::Option"
                    pay = {"k": "move", "pl": {"l": src["pl"]["l"], "p": [{"k": "downcast", "v": v}, {"k": "field", "i": 0, "n": "0", "o": adt, "v": v, "t": "?"}]}}
                    rv = {"k": "agg", "ak": "adt", "adt": "std::ops::ControlFlow", "variant": "Continue", "fields": ["0"], "ops": [pay], "def": None, "ety": None}
                else:
                    rv = {"k": "agg", "ak": "adt", "adt": "std::ops::ControlFlow", "variant": "Break", "fields": ["0"], "ops": [src], "def": None, "ety": None}
                nb["s"].append({"k": "assign", "lhs": t["dest"], "rv": rv, "sp": t["sp"], "inl": "try-known"})
                nb["t"] = {"k": "goto", "t": m[t["t"]], "sp": t["sp"], "was": "threaded-try"}
                continue
            # single successor: redirect to the copy of the next block
            for key in ("t",):
                if isinstance(t.get(key), int) and t[key] in m:
                    t[key] = m[t[key]]
        # P now continues into its private copy
        blocks[P]["threaded_from"] = W
        tp = blocks[P]["t"]
        first = chain[0]
        if tp["k"] in ("goto", "drop", "call", "assert", "false_edge", "false_unwind") and tp.get("t") == first:
            tp["t"] = m[first]
        self.log.append((j["def"], "thread", "bb%d->bb%d as %s" % (P, W, v)))

    def _sites(self, cur, host_root, callee_form=False):
        """call sites of `cur` to splice in this round"""
        import lib
        F = self.F
        out = []
        X = None
        ctx_all = None
        for c in cur.calls:
            if c.bb not in cur.reachable:
                continue
            blk = cur.blocks[c.bb]
            ctx = blk.get("ctx", [])
            if len(ctx) >= MAXDEPTH or blk.get("noinline"):
                continue
            cal = c.resolved or c.name
            if c.name.endswith("<impl bool>::then_some") and len(c.args) == 2 and not c.noise:
                out.append(("then_some", c.bb))
                continue
            if c.name in COMBINATORS and not c.noise:
                spec = COMBINATORS[c.name]
                need = sorted(set(_action_closure_args(spec[1]) + _action_closure_args(spec[2])))
                if X is None:
                    X = mir.ExprBuilder(F)
                clos = {}
                okc = len(c.args) > (max(need) if need else 0)
                for i in need if okc else ():
                    e = mir.strip(X.operand(cur, c.args[i]))
                    if e[0] == "agg" and e[1].startswith("closure:") and e[4][0] == cur.cdef:
                        d = e[1][len("closure:"):]
                        cb = F.by_cdef.get(d)
                        st = None
                        for s_ in cur.blocks[e[4][1]]["s"]:
                            if s_["k"] == "assign" and s_["rv"]["k"] == "agg" and canon(s_["rv"].get("def") or "") == d:
                                st = s_
                        if cb is None or cb.coroutine or st is None or d in ctx:
                            okc = False
                        else:
                            clos[i] = (self.norm(cb, True), st)
                    elif e[0] == "fnitem":
                        # a function item (`.map(Amount::from_msat)`): the arm calls it
                        ro = lib.root_operand(cur, c.args[i])
                        if ro.get("k") == "const" and "fn" in ro:
                            clos[i] = ("fnitem", ro)
                        else:
                            # reached through a captured variable / parameter of a spliced helper
                            clos[i] = ("fnitem", {"k": "const", "ty": "fn", "fn": {"def": e[1], "full": e[1], "name": e[1].split("::")[-1], "targs": []}, "v": e[1]})
                    else:
                        okc = False
                if okc:
                    out.append(("comb", c.bb, spec, clos))
                continue
            if cal in F.by_cdef and not c.name.endswith("Future::poll"):
                if cal in ctx or cal == host_root or self.kept(host_root, cal):
                    continue
                f = F.fns.get(cal)
                if f is not None and f.get("async"):
                    if lib.await_of_call(cur, c) is None:
                        continue             # future created but not awaited here (spawned, stored, ..)
                cb = F.by_cdef[cal]
                out.append(("sync", c.bb, self.norm(cb, True) if not (f and f.get("async")) else cb))
            elif c.name.endswith("Future::poll") and c.args:
                if X is None:
                    X = mir.ExprBuilder(F)
                e = mir.strip(X.operand(cur, c.args[0]))
                if e[0] != "agg" or not e[1].startswith("closure:"):
                    continue
                d = e[1][len("closure:"):]
                cb = F.by_cdef.get(d)
                if cb is None or not cb.coroutine:
                    continue
                site = e[4]
                if site[0] != cur.cdef:
                    continue
                croot = F.root_of(cb)
                own_nested = croot == host_root or croot in ctx
                if own_nested:
                    # a function's own nested async block: only when this body is (part of) a spliced callee
                    if not (callee_form or ctx):
                        continue
                elif self.kept(host_root, croot):
                    continue
                if d in ctx or d == cur.cdef:
                    continue
                # the aggregate statement that built the future
                st = None
                for s in cur.blocks[site[1]]["s"]:
                    if s["k"] == "assign" and s["rv"]["k"] == "agg" and canon(s["rv"].get("def") or "") == d:
                        st = s
                if st is None:
                    continue
                out.append(("poll", c.bb, self.norm(cb, True), st, croot))
        return out

    def _append(self, j, cb, extra_ctx, host_bb):
        self.spliced.add(cb.def_)
        lo = len(j["locals"])
        bo = len(j["blocks"])
        for l in cb.locals:
            j["locals"].append(dict(l))
        ctx = list(j["blocks"][host_bb].get("ctx", [])) + extra_ctx
        for blk in cb.blocks:
            nb = {"s": [_stmt(s, lo) for s in blk["s"]], "t": _term(blk["t"], lo, bo), "ctx": ctx + list(blk.get("ctx", []))}
            if blk.get("cleanup"):
                nb["cleanup"] = blk["cleanup"]
            j["blocks"].append(nb)
        return lo, bo

    def _splice_sync(self, j, bb, cb):
        blk = j["blocks"][bb]
        t = blk["t"]
        if t["k"] != "call":
            return False
        if len(t["args"]) != cb.arg_count:
            blk["noinline"] = True
            return False
        lo, bo = self._append(j, cb, [cb.cdef], bb)
        sp = t["sp"]
        for i, a in enumerate(t["args"]):
            blk["s"].append({"k": "assign", "lhs": {"l": lo + 1 + i, "p": []}, "rv": {"k": "use", "op": a}, "sp": sp, "inl": "arg"})
        dest, target = t["dest"], t["t"]
        blk["t"] = {"k": "goto", "t": bo, "sp": sp, "inl": cb.cdef}
        for k in range(bo, len(j["blocks"])):
            nb = j["blocks"][k]
            if nb["t"]["k"] == "return" and not nb.get("cleanup"):
                nb["s"].append({"k": "assign", "lhs": dest, "rv": {"k": "use", "op": {"k": "move", "pl": {"l": lo, "p": []}}}, "sp": nb["t"]["sp"], "inl": "ret"})
                nb["t"] = {"k": "goto", "t": target, "sp": nb["t"]["sp"]} if target is not None else {"k": "unreachable", "sp": nb["t"]["sp"]}
        self.log.append((j["def"], "sync", cb.cdef))
        return True

    def _new_local(self, j, ty):
        j["locals"].append({"ty": ty})
        return len(j["locals"]) - 1

    def _new_block(self, j, ctx):
        j["blocks"].append({"s": [], "t": {"k": "unreachable", "sp": {}}, "ctx": list(ctx)})
        return len(j["blocks"]) - 1

    def _call_closure(self, j, from_bb, cb, st, payload, ret_local, cont_bb, sp):
        """splice closure/fn body `cb` after block from_bb: bind its environment and parameter, store its result in
        ret_local and continue at cont_bb"""
        lo, bo = self._append(j, cb, [cb.cdef], from_bb)
        blk = j["blocks"][from_bb]
        first_param = 1
        if st is not None:
            blk["s"].append({"k": "assign", "lhs": {"l": lo + 1, "p": []}, "rv": st["rv"], "sp": sp, "inl": "env"})
            first_param = 2
        if payload is not None and cb.arg_count >= first_param:
            blk["s"].append({"k": "assign", "lhs": {"l": lo + first_param, "p": []}, "rv": {"k": "use", "op": payload}, "sp": sp, "inl": "arg"})
        blk["t"] = {"k": "goto", "t": bo, "sp": sp, "inl": cb.cdef}
        for k in range(bo, len(j["blocks"])):
            nb = j["blocks"][k]
            if nb["t"]["k"] == "return" and not nb.get("cleanup"):
                nb["s"].append({"k": "assign", "lhs": {"l": ret_local, "p": []}, "rv": {"k": "use", "op": {"k": "move", "pl": {"l": lo, "p": []}}}, "sp": nb["t"]["sp"], "inl": "ret"})
                nb["t"] = {"k": "goto", "t": cont_bb, "sp": nb["t"]["sp"]}
        if st is not None:
            st["consumed"] = True

    def _expand_combinator(self, j, bb, spec, clos):
        """`dest = o.map(f)` etc. rewritten as the match it stands for, with the closure bodies spliced into the arms"""
        blk = j["blocks"][bb]
        t = blk["t"]
        if t["k"] != "call" or t["t"] is None:
            return False
        enum, actA, actB = spec
        adt, variants, vA, vB = ENUMS[enum]
        sp = t["sp"]
        ctx = blk.get("ctx", [])
        dest, target = t["dest"], t["t"]
        args = t["args"]
        O = self._new_local(j, "?combinator-subject")
        D = self._new_local(j, "isize")
        blk["s"].append({"k": "assign", "lhs": {"l": O, "p": []}, "rv": {"k": "use", "op": args[0]}, "sp": sp, "inl": "subject"})
        blk["s"].append({"k": "assign", "lhs": {"l": D, "p": []}, "rv": {"k": "discr", "pl": {"l": O, "p": []}, "ty": adt, "variants": variants}, "sp": sp, "inl": "discr"})
        bA = self._new_block(j, ctx)
        bB = self._new_block(j, ctx)
        codeA = [v for v, n in variants if n == vA][0]
        codeB = [v for v, n in variants if n == vB][0]
        blk["t"] = {"k": "switch", "op": {"k": "move", "pl": {"l": D, "p": []}}, "ty": "isize", "arms": [[codeA, bA], [codeB, bB]], "otherwise": bB, "sp": sp, "inl": "combinator"}
        self.log.append((j["def"], "combinator", t["fn"].get("def")))

        def payload(v):
            if enum == "opt" and v == "None":
                return None
            return {"k": "move", "pl": {"l": O, "p": [{"k": "downcast", "v": v}, {"k": "field", "i": 0, "n": "0", "o": adt, "v": v, "t": "?"}]}}

        def emit(b0, act, v):
            pay = payload(v)

            def source(src, cur_bb):
                """returns (operand, block to continue building in)"""
                if src == "x":
                    return pay, cur_bb
                if src[0] == "arg":
                    return args[src[1]], cur_bb
                cbody, st = clos[src[1]]
                R = self._new_local(j, "?closure-result")
                cont = self._new_block(j, ctx)
                if cbody == "fnitem":
                    p = pay if src[0] == "call" else None
                    j["blocks"][cur_bb]["t"] = {"k": "call", "fn": st["fn"], "args": [p] if p is not None else [], "dest": {"l": R, "p": []}, "rty": "?", "t": cont, "u": None,
                                                "sp": sp, "fsp": sp, "inl": "combinator-call"}
                else:
                    self._call_closure(j, cur_bb, cbody, st, pay if src[0] == "call" else None, R, cont, sp)
                return {"k": "move", "pl": {"l": R, "p": []}}, cont
            cur_bb = b0
            if act[0] == "none":
                rv = {"k": "agg", "ak": "adt", "adt": "std::option::Option", "variant": "None", "fields": [], "ops": [], "def": None, "ety": None}
            elif act[0] == "bool":
                rv = {"k": "use", "op": {"k": "const", "ty": "bool", "int": "1" if act[1] else "0", "v": "true" if act[1] else "false"}}
            elif act[0] == "val":
                op, cur_bb = source(act[1], cur_bb)
                rv = {"k": "use", "op": op}
            elif act[0] == "tap":
                # `.inspect_err(f)`: f looks at the payload, the value passes through unchanged
                _ign, cur_bb = source(act[2], cur_bb)
                wadt = "std::option::Option" if act[1] in ("Some", "None") else "std::result::Result"
                rv = {"k": "agg", "ak": "adt", "adt": wadt, "variant": act[1], "fields": ["0"], "ops": [pay], "def": None, "ety": None}
            else:
                op, cur_bb = source(act[2], cur_bb)
                wadt = "std::option::Option" if act[1] in ("Some", "None") else "std::result::Result"
                rv = {"k": "agg", "ak": "adt", "adt": wadt, "variant": act[1], "fields": ["0"], "ops": [op], "def": None, "ety": None}
            fin = j["blocks"][cur_bb]
            fin["s"].append({"k": "assign", "lhs": dest, "rv": rv, "sp": sp, "inl": "combinator-result"})
            fin["t"] = {"k": "goto", "t": target, "sp": sp}
        emit(bA, actA, vA)
        emit(bB, actB, vB)
        return True

    def _expand_then_some(self, j, bb):
        """`cond.then_some(v)` is `if cond { Some(v) } else { None }`"""
        blk = j["blocks"][bb]
        t = blk["t"]
        if t["k"] != "call" or t["t"] is None or len(t["args"]) != 2:
            return False
        sp = t["sp"]
        ctx = blk.get("ctx", [])
        dest, target = t["dest"], t["t"]
        C = self._new_local(j, "bool")
        blk["s"].append({"k": "assign", "lhs": {"l": C, "p": []}, "rv": {"k": "use", "op": t["args"][0]}, "sp": sp, "inl": "subject"})
        bT = self._new_block(j, ctx)
        bF = self._new_block(j, ctx)
        blk["t"] = {"k": "switch", "op": {"k": "move", "pl": {"l": C, "p": []}}, "ty": "bool", "arms": [["0", bF]], "otherwise": bT, "sp": sp, "inl": "combinator"}
        j["blocks"][bT]["s"].append({"k": "assign", "lhs": dest, "rv": {"k": "agg", "ak": "adt", "adt": "std::option::Option", "variant": "Some", "fields": ["0"], "ops": [t["args"][1]], "def": None, "ety": None},
                                      "sp": sp, "inl": "combinator-result"})
        j["blocks"][bT]["t"] = {"k": "goto", "t": target, "sp": sp}
        j["blocks"][bF]["s"].append({"k": "assign", "lhs": dest, "rv": {"k": "agg", "ak": "adt", "adt": "std::option::Option", "variant": "None", "fields": [], "ops": [], "def": None, "ety": None},
                                      "sp": sp, "inl": "combinator-result"})
        j["blocks"][bF]["t"] = {"k": "goto", "t": target, "sp": sp}
        self.log.append((j["def"], "combinator", "bool::then_some"))
        return True

    def _splice_poll(self, j, bb, cb, st, croot):
        blk = j["blocks"][bb]
        t = blk["t"]
        if t["k"] != "call":
            return False
        lo, bo = self._append(j, cb, [cb.cdef] + ([croot] if croot != cb.cdef else []), bb)
        sp = t["sp"]
        # bind the coroutine's environment (its local _1) to the aggregate that built the future
        blk["s"].append({"k": "assign", "lhs": {"l": lo + 1, "p": []}, "rv": st["rv"], "sp": sp, "inl": "env"})
        dest, target = t["dest"], t["t"]
        blk["t"] = {"k": "goto", "t": bo, "sp": sp, "inl": cb.cdef}
        for k in range(bo, len(j["blocks"])):
            nb = j["blocks"][k]
            if nb["t"]["k"] == "return" and not nb.get("cleanup") and not nb.get("inl_ret"):
                nb["s"].append({"k": "assign", "lhs": dest,
                                "rv": {"k": "agg", "ak": "adt", "adt": "std::task::Poll", "variant": "Ready", "fields": ["0"],
                                       "ops": [{"k": "move", "pl": {"l": lo, "p": []}}], "def": None, "ety": None},
                                "sp": nb["t"]["sp"], "inl": "ready"})
                nb["t"] = {"k": "goto", "t": target, "sp": nb["t"]["sp"]} if target is not None else {"k": "unreachable", "sp": nb["t"]["sp"]}
        # the host's `match poll(..)`: only the Ready arm remains
        if target is not None:
            self._ready_only(j, target, dest)
        self.log.append((j["def"], "await", cb.cdef))
        return True

    def _ready_only(self, j, target, dest):
        import lib
        tb = j["blocks"][target]
        t = tb["t"]
        if t["k"] != "switch":
            return
        tmp = Body(self.F, j)
        c = lib.decode_switch(tmp, target)
        if c is None or c.kind != "enum":
            return
        ready = lib.enum_arm_target(tmp, target, "Ready")
        if ready is None:
            return
        # the switch must be on the poll result
        ok = False
        op = t["op"]
        if op["k"] in ("copy", "move"):
            dl = op["pl"]["l"]
            for s_ in tb["s"]:
                if s_["k"] == "assign" and s_["lhs"]["l"] == dl and s_["rv"]["k"] == "discr" and s_["rv"]["pl"]["l"] == dest["l"]:
                    ok = True
        if ok:
            tb["t"] = {"k": "goto", "t": ready, "sp": t["sp"], "was": "poll-switch"}


def table_value_type(F):
    """V of the payments table HashMap<Sha256, V> (a struct field of that shape whose V is a local type)"""
    for a in F.adts.values():
        for v in a.get("variants", []):
            for f in v.get("fields", []):
                m = re.search(r"HashMap<[^,<>]*[Ss]ha256[^,<>]*, ([A-Za-z0-9_:]+)>", f.get("ty", ""))
                if m and canon(m.group(1)) in F.adts:
                    return canon(m.group(1))
    return None


def normalize(F):
    N = Normalizer(F)
    repl = {}
    for b in list(F.bodies):
        if b.kind not in ("Fn", "AssocFn", "Closure", "SyntheticCoroutineBody"):
            continue
        try:
            nb = N.norm(b)
        except Exception as ex:   # noqa - a body that cannot be normalised is analysed as written
            N.log.append((b.def_, "normalise-error", repr(ex)[:120]))
            nb = b
        if nb is not b:
            repl[b.def_] = nb
    F.originals = {}
    if repl:
        for i, b in enumerate(F.bodies):
            if b.def_ in repl:
                F.originals[b.def_] = b
                F.bodies[i] = repl[b.def_]
                F.by_def[b.def_] = repl[b.def_]
                if F.by_cdef.get(b.cdef) is b:
                    F.by_cdef[b.cdef] = repl[b.def_]
        F._closure_sites = None
        F._callers = None
    F.inline_log = N.log
    F.normalizer = N
    F.absorbed = _absorbed(F, N)
    F._callers = None
    return F


def _absorbed(F, N):
    """bodies whose every use has been spliced into a host: they are analysed as part of their hosts only"""
    cand = {d for d in N.spliced if d in F.by_def and (F.by_def[d].kind in ("Fn", "AssocFn") or F.by_def[d].coroutine)}
    clos = {d for d in N.spliced if d in F.by_def and d not in cand}
    roots = {F.root_of(F.by_def[d]) for d in cand if d in F.by_def}

    def refs(root, dead):
        out = []
        for b in F.bodies:
            if b.kind not in ("Fn", "AssocFn", "Closure", "SyntheticCoroutineBody") or b.def_ in dead:
                continue
            if F.root_of(b) == root:
                continue
            for blk in b.blocks:
                if blk.get("cleanup"):
                    continue
                t = blk["t"]
                if t["k"] == "call":
                    fn = t["fn"]
                    if canon(fn.get("def") or "") == root or canon(fn.get("resolved") or "") == root:
                        out.append(b)
                    for a in t["args"]:
                        if a.get("k") == "const" and "fn" in a and canon(a["fn"]["def"]) == root:
                            out.append(b)
                for s in blk["s"]:
                    if s["k"] == "assign":
                        rv = s["rv"]
                        ops = rv.get("ops", []) + [rv[k] for k in ("op", "a", "b") if isinstance(rv.get(k), dict)]
                        for a in ops:
                            if a.get("k") == "const" and "fn" in a and canon(a["fn"]["def"]) == root:
                                out.append(b)
        return out
    dead_roots = set(roots)
    while True:
        dead = {d for d in cand if d in F.by_def and F.root_of(F.by_def[d]) in dead_roots}
        drop = {r for r in dead_roots if refs(r, dead)}
        if not drop:
            break
        dead_roots -= drop
    dead = {d for d in cand if d in F.by_def and F.root_of(F.by_def[d]) in dead_roots}
    # closures spliced into the arms of expanded combinators: absorbed when every construction site was consumed
    for _ in range(3):
        for d in sorted(clos - dead):
            sites = []
            for b in F.bodies:
                if b.def_ in dead or b.kind not in ("Fn", "AssocFn", "Closure", "SyntheticCoroutineBody"):
                    continue
                for blk in b.blocks:
                    for st in blk["s"]:
                        if st["k"] == "assign" and st["rv"]["k"] == "agg" and st["rv"].get("def") == d and st.get("inl") != "env":
                            sites.append(st)
            if sites and all(st.get("consumed") for st in sites):
                dead.add(d)
    return dead
