H = "src/htlc_manager.rs"
P = "src/payment_provider.rs"
MUTANTS = [
    {"name": "drop-height", "control": True, "expect": ["C04-E"],
     "edits": [(H, "        cltv_expiry\n            .saturating_sub(current_height)\n            .saturating_sub(params.cltv_delta as u32)", "        cltv_expiry\n            .saturating_sub(params.cltv_delta as u32)")]},
    {"name": "drop-policy-min", "control": True, "expect": ["C04-E"],
     "edits": [(H, "    let max_cltv_delta = std::cmp::min(\n        cltv_expiry\n            .saturating_sub(current_height)\n            .saturating_sub(params.cltv_delta as u32)\n            .try_into()\n            .unwrap_or(u16::MAX),\n        trampoline.routing_policy.cltv_expiry_delta,\n    );", "    let max_cltv_delta: u16 = cltv_expiry\n            .saturating_sub(current_height)\n            .saturating_sub(params.cltv_delta as u32)\n            .try_into()\n            .unwrap_or(u16::MAX);")]},
    {"name": "as-u16-cast", "control": True, "expect": ["C04-E"],
     "edits": [(H, "            .saturating_sub(params.cltv_delta as u32)\n            .try_into()\n            .unwrap_or(u16::MAX),", "            .saturating_sub(params.cltv_delta as u32) as u16,")]},
    {"name": "max-instead-of-min-expiry", "expect": ["C04-M"],
     "edits": [(H, "self.cltv_expiry = std::cmp::min(req.htlc.cltv_expiry, self.cltv_expiry);", "self.cltv_expiry = if self.cltv_expiry == u32::MAX { req.htlc.cltv_expiry } else { std::cmp::max(req.htlc.cltv_expiry, self.cltv_expiry) };")]},
    {"name": "height-before-select", "expect": ["C04-T"],
     "edits": [(H, "    if time_left.is_zero() {", "    let current_height = params.block_provider.current_height().await;\n    if time_left.is_zero() {"), (H, "    let current_height = params.block_provider.current_height().await;\n    let max_cltv_delta", "    let max_cltv_delta")]},
    {"name": "expiry-gate-after-add", "expect": ["C04-G"],
     "edits": [(H, "            // Do add the htlc to the payment state always, also if it has\n            // failed. It could be a payment was already in-flight, so\n            // eventually this htlc settles.\n            payment_state.add_htlc(req, sender).await;", "            payment_state.add_htlc(req, sender).await;\n            if req.htlc.cltv_expiry_relative + 1 < self.params.routing_policy.cltv_expiry_delta as i64 {\n                payment_state.fail(self.trampoline_fee_or_expiry_insufficient()).await;\n            }")]},
    {"name": "expiry-gate-uses-safety-delta", "expect": ["C04-G"],
     "edits": [(H, "if req.htlc.cltv_expiry_relative < self.params.routing_policy.cltv_expiry_delta as i64 {", "if req.htlc.cltv_expiry_relative < self.params.cltv_delta as i64 {")]},
    {"name": "delta-added-instead-of-subtracted", "expect": ["C04-E"],
     "edits": [(H, "            .saturating_sub(params.cltv_delta as u32)\n            .try_into()", "            .saturating_add(params.cltv_delta as u32)\n            .try_into()")]},
    {"name": "maxdelay-not-forwarded", "expect": ["C04-F"],
     "edits": [(P, "                riskfactor: Some(20.0),\n                maxfeepercent: None,\n                retry_for: Some(self.retry_for),\n                maxdelay: Some(req.max_cltv_delta),", "                riskfactor: Some(20.0),\n                maxfeepercent: None,\n                retry_for: Some(self.retry_for),\n                maxdelay: Some(req.max_cltv_delta.max(144)),")]},
    {"name": "expiry-initial-zero", "expect": ["C04-M"],
     "edits": [(H, "            cltv_expiry: u32::MAX,", "            cltv_expiry: u32::MAX - 1,")]},
]
from mutants_common import EQUIV_LC as EQUIV
