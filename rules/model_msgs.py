"""Model of messages.rs: failure encoding table, evaluation of HtlcAcceptedResponse expressions."""
import re
from mir import Call, canon, loc, strip, walk, alts, show, mkphi
import lib

RESP_ADT = "messages::HtlcAcceptedResponse"
REASON_ADT = "messages::HtlcFailReason"
POLICY_ADT = "messages::TrampolineRoutingPolicy"


def find_encode(F):
    """the fn that matches on HtlcFailReason and returns Vec<u8>"""
    out = []
    for b in F.code_bodies():
        if b.ret_ty != "std::vec::Vec<u8>":
            continue
        t = b.term(0)
        for bb in sorted(b.reachable):
            c = lib.decode_switch(b, bb)
            if c is not None and c.kind == "enum" and getattr(c, "enum_ty", "") == REASON_ADT:
                out.append((b, bb, c))
                break
    return out


def arm_tokens(F, X, b, start):
    """abstract byte-vector built along the straight-line chain from `start` to Return:
    tokens ('bytes',[ints]) | ('be'|'le'|'ne', fieldname, ty) | ('unknown', text)"""
    toks = []
    cur = start
    seen = set()
    while cur is not None and cur not in seen:
        seen.add(cur)
        blk = b.blocks[cur]
        for s in blk["s"]:
            if s["k"] == "assign" and s["rv"]["k"] == "agg" and s["rv"]["ak"] == "array" and s["rv"].get("ety") == "u8":
                vals = []
                for o in s["rv"]["ops"]:
                    ro = lib.root_operand(b, o)
                    vals.append(int(ro["int"]) if ro["k"] == "const" and "int" in ro else None)
                toks.append(("bytes", vals))
        t = blk["t"]
        if t["k"] == "call":
            c = Call(b, cur, t)
            if c.name in ("std::vec::Vec::extend_from_slice", "std::vec::Vec::extend", "std::iter::Extend::extend"):
                e = strip(X.operand(b, c.args[1]))
                tok = ("unknown", show(e)[:80])
                for x in walk(e):
                    if x[0] == "call":
                        m = re.match(r"core::num::<impl (\w+)>::to_(be|le|ne)_bytes$", x[1])
                        if m and x[2]:
                            a = x[2][0]
                            if a[0] == "cast":
                                tok = ("unknown", "cast before encoding: " + show(a)[:60])
                                break
                            fld = a[1] if a[0] == "field" else show(a)[:40]
                            tok = (m.group(2), fld, m.group(1))
                            break
                toks.append(tok)
            elif c.name == "std::vec::Vec::push" and "Vec::<u8>" in c.full:
                ro = lib.root_operand(b, c.args[1])
                toks.append(("bytes", [int(ro["int"])]) if ro["k"] == "const" and "int" in ro else ("unknown", "push"))
            elif c.name in ("std::vec::Vec::insert", "std::vec::Vec::truncate", "std::vec::Vec::pop", "std::vec::Vec::clear",
                            "std::vec::Vec::remove", "std::vec::Vec::reverse", "core::slice::<impl [T]>::reverse", "std::vec::Vec::resize"):
                toks.append(("unknown", c.name))
        s = b.succ[cur]
        if len(s) != 1:
            if len(s) > 1:
                toks.append(("unknown", "branch inside arm"))
            break
        cur = s[0]
    # merge adjacent byte tokens
    out = []
    for t in toks:
        if t[0] == "bytes" and out and out[-1][0] == "bytes":
            out[-1] = ("bytes", out[-1][1] + t[1])
        else:
            out.append(t)
    return out


def find_encode_fn(F):
    """the function (&HtlcFailReason) -> Vec<u8>: by signature (the match on the reason may sit in helpers it calls)"""
    out = []
    for b in F.code_bodies():
        if b.kind not in ("Fn", "AssocFn") or b.ret_ty != "std::vec::Vec<u8>" or b.arg_count != 1:
            continue
        if canon(b.local_ty(1).lstrip("&").replace("mut ", "").strip()) != REASON_ADT:
            continue
        out.append(b)
    return out


class _Unknown(Exception):
    pass


def encode_tokens_for_variant(F, X, b, variant, self_locals=(1,), buf_locals=None, depth=0, toks=None):
    """Partial evaluation of the encoder for one variant of the reason: walk the CFG taking, at every match on `self`,
    the arm of `variant`; record in order what is appended to the output vector - `vec![..]` literals, push,
    extend_from_slice(x.to_be_bytes()), BufMut::put_u8/u16/u32/u64 - looking into local helpers that get `self` or the
    buffer.  tokens: ('bytes', [ints]) | ('be'|'le', field, ty) | ('unknown', text)"""
    toks = toks if toks is not None else []
    if depth > 4:
        toks.append(("unknown", "helper nesting"))
        return toks
    self_set = set(self_locals)
    # locals that alias self (copies / reborrows)
    for _ in range(4):
        for l, ds in b.defs.items():
            for d in ds:
                if d[3] == "rv" and not d[2] and d[4]["k"] in ("use", "ref"):
                    src = d[4]["op"]["pl"] if d[4]["k"] == "use" and d[4]["op"]["k"] in ("copy", "move") else (d[4]["pl"] if d[4]["k"] == "ref" else None)
                    if src is not None and src["l"] in self_set and not [p for p in src["p"] if p["k"] != "deref"]:
                        self_set.add(l)

    def rooted_in_self(pl):
        return pl["l"] in self_set

    def val(op):
        """int | ('field', name, ty) | None for an operand, under the knowledge that self is `variant`"""
        e = strip(X.operand(b, op))
        return val_expr(e)

    def val_expr(e):
        if e[0] == "const" and e[2] is not None:
            return e[2]
        if e[0] == "cast":
            # only a lossless widening is looked through; a narrowing cast changes the bytes that are written
            if e[1].startswith("IntToInt") and e[2] in lib.INT_RANGES and e[3] in lib.INT_RANGES and \
                    lib.INT_RANGES[e[3]][0] <= lib.INT_RANGES[e[2]][0] and lib.INT_RANGES[e[2]][1] <= lib.INT_RANGES[e[3]][1]:
                inner = val_expr(e[4])
                return inner if isinstance(inner, int) else None      # a widened *field* is no longer the field's own width
            if not e[1].startswith("IntToInt") and not e[1].startswith("FloatTo") and not e[1].startswith("IntToFloat"):
                return val_expr(e[4])                                 # pointer coercions (`&[u8; 2]` as `&[u8]`) keep the bytes
            return None
        if e[0] == "bin" and e[1] in ("BitOr", "Add", "BitAnd", "Shl", "Shr", "Mul"):
            a, c = val_expr(e[2]), val_expr(e[3])
            if isinstance(a, int) and isinstance(c, int):
                return {"BitOr": a | c, "Add": a + c, "BitAnd": a & c, "Shl": a << c, "Shr": a >> c, "Mul": a * c}[e[1]]
            return None
        if e[0] == "field" and e[1] == "0" and e[4][0] == "bin" and e[4][1].endswith("WithOverflow"):
            return val_expr(("bin", e[4][1][:-len("WithOverflow")], e[4][2], e[4][3], e[4][4]))
        if e[0] == "field" and e[2] == POLICY_ADT:
            return ("field", e[1])
        if e[0] == "call":
            name = e[4].resolved or e[1]
            hb = F.by_cdef.get(name)
            if hb is not None and hb.kind in ("Fn", "AssocFn") and e[2] and any(x[0] == "param" and x[2] in self_locals for x in walk(e[2][0])):
                # a value computed from self by a local helper (`self.code()`): its result on the arm of this variant
                for ve, vf, cf, wh in def_alternatives(F, X, hb, {"k": "move", "pl": {"l": 0, "p": []}}):
                    for fe, truth in vf:
                        if truth == (variant,) and any(x[0] == "param" and x[1] == hb.cdef for x in walk(fe)):
                            r = val_expr(strip(ve))
                            if r is not None:
                                return r
                return None
            m = re.match(r"core::num::<impl (\w+)>::to_(be|le|ne)_bytes$", e[1])
            if m and e[2]:
                inner = val_expr(e[2][0])
                if isinstance(inner, tuple) and inner[0] == "field":
                    return (m.group(2), inner[1], m.group(1))
                if isinstance(inner, int):
                    n = {"u8": 1, "u16": 2, "u32": 4, "u64": 8}.get(m.group(1))
                    if n:
                        bs = list(inner.to_bytes(n, "big" if m.group(2) == "be" else "little"))
                        return ("bytes", bs)
        if e[0] == "phi":
            vs = {repr(val_expr(a)) for a in e[1]}
            if len(vs) == 1:
                return val_expr(e[1][0])
        return None

    def emit_int(v, nbytes, what):
        if isinstance(v, int):
            toks.append(("bytes", list((v % (1 << (8 * nbytes))).to_bytes(nbytes, "big"))))
        elif isinstance(v, tuple) and v[0] == "field":
            toks.append(("be", v[1], {1: "u8", 2: "u16", 4: "u32", 8: "u64"}[nbytes]))
        else:
            toks.append(("unknown", what))

    cur = 0
    seen = set()
    while cur is not None:
        if cur in seen:
            toks.append(("unknown", "loop in the encoder"))
            break
        seen.add(cur)
        blk = b.blocks[cur]
        for st in blk["s"]:
            if st["k"] == "assign" and st["rv"]["k"] == "agg" and st["rv"].get("ak") == "array" and st["rv"].get("ety") == "u8":
                vals = []
                for o in st["rv"]["ops"]:
                    v = val(o)
                    vals.append(v if isinstance(v, int) else None)
                toks.append(("bytes", vals))
        t = blk["t"]
        k = t["k"]
        if k == "return":
            break
        if k == "switch":
            c = lib.decode_switch(b, cur)
            nxt = None
            if c is not None and c.kind == "enum" and c.place is not None and rooted_in_self(c.place) and getattr(c, "enum_ty", "") == REASON_ADT:
                for v, tg in t["arms"]:
                    if c.variants.get(v) == variant:
                        nxt = tg
                if nxt is None:
                    nxt = t["otherwise"]
            elif c is not None and c.kind == "enum" and c.place is not None:
                # a match on a value derived from self through a helper is not followed
                nxt = None
            if nxt is None:
                toks.append(("unknown", "branch inside the encoder that does not depend on the variant"))
                break
            cur = nxt
            continue
        if k == "call":
            c = Call(b, cur, t)
            name = c.resolved or c.name
            if c.name in ("std::vec::Vec::extend_from_slice", "std::vec::Vec::extend", "std::iter::Extend::extend", "bytes::BufMut::put_slice", "bytes::BufMut::put") and len(c.args) > 1:
                v = val_expr(strip(X.operand(b, c.args[1])))
                if isinstance(v, tuple) and v[0] in ("be", "le", "ne"):
                    toks.append(v)
                elif isinstance(v, tuple) and v[0] == "bytes":
                    toks.append(v)
                else:
                    e = strip(X.operand(b, c.args[1]))
                    tok = ("unknown", show(e)[:80])
                    for x in walk(e):
                        if x[0] == "call":
                            m = re.match(r"core::num::<impl (\w+)>::to_(be|le|ne)_bytes$", x[1])
                            if m and x[2]:
                                a = x[2][0]
                                if a[0] == "cast":
                                    tok = ("unknown", "cast before encoding: " + show(a)[:60])
                                    break
                                fld = a[1] if a[0] == "field" else show(a)[:40]
                                tok = (m.group(2), fld, m.group(1))
                                break
                    toks.append(tok)
            elif c.name in ("std::slice::<impl [T]>::to_vec", "core::slice::<impl [T]>::to_vec", "std::vec::Vec::from", "std::convert::From::from", "std::convert::Into::into",
                            "std::borrow::ToOwned::to_owned") and c.args and (t.get("rty") or "").startswith("std::vec::Vec<u8>"):
                # the vector starts out as these bytes: `x.to_be_bytes().to_vec()`, `Vec::from([..])`
                v = val_expr(strip(X.operand(b, c.args[0])))
                if isinstance(v, tuple) and v[0] in ("be", "le", "ne", "bytes"):
                    toks.append(v)
                elif v is None:
                    e0 = strip(X.operand(b, c.args[0]))
                    if not (e0[0] == "agg" and e0[1] == "array"):
                        toks.append(("unknown", "initial bytes " + show(e0)[:60]))
            elif c.name == "std::vec::Vec::push" and "Vec::<u8>" in c.full and len(c.args) > 1:
                emit_int(val(c.args[1]), 1, "push")
            elif c.fn.get("trait") and canon(c.fn["trait"]) == "bytes::BufMut" and re.match(r"put_u(8|16|32|64)(_le)?$", c.mname or "") and len(c.args) > 1:
                n = int(re.match(r"put_u(\d+)", c.mname).group(1)) // 8
                if c.mname.endswith("_le"):
                    v = val(c.args[1])
                    toks.append(("le", v[1], "u%d" % (8 * n)) if isinstance(v, tuple) and v[0] == "field" else ("unknown", c.mname))
                else:
                    emit_int(val(c.args[1]), n, c.mname)
            elif c.name in ("std::vec::Vec::insert", "std::vec::Vec::truncate", "std::vec::Vec::pop", "std::vec::Vec::clear",
                            "std::vec::Vec::remove", "std::vec::Vec::reverse", "core::slice::<impl [T]>::reverse", "std::vec::Vec::resize"):
                toks.append(("unknown", c.name))
            else:
                hb = F.by_cdef.get(name)
                if hb is not None and hb.kind in ("Fn", "AssocFn") and hb.ret_ty in ("()",) and c.args:
                    # a local helper that writes part of the encoding: given self (or the policy) and the buffer
                    sl = []
                    pol = False
                    for i_, a in enumerate(c.args):
                        if a["k"] in ("copy", "move"):
                            ro = lib.root_operand(b, a)
                            if ro["k"] in ("copy", "move") and ro["pl"]["l"] in self_set and not [p for p in ro["pl"]["p"] if p["k"] != "deref"]:
                                sl.append(i_ + 1)
                    if sl:
                        encode_tokens_for_variant(F, X, hb, variant, tuple(sl), None, depth + 1, toks)
                    else:
                        # e.g. policy.put_wire(out): tokens of a helper on the policy payload
                        sub = _policy_writer_tokens(F, X, hb)
                        if sub is not None:
                            toks.extend(sub)
            cur = t["t"]
            continue
        succ = b.succ[cur]
        if len(succ) != 1:
            if len(succ) > 1:
                toks.append(("unknown", "branch inside the encoder"))
            break
        cur = succ[0]
    return toks


def _policy_writer_tokens(F, X, hb):
    """tokens written by a helper (&TrampolineRoutingPolicy, &mut buf): straight-line put_uNN(self.field)"""
    if hb.arg_count < 1 or POLICY_ADT not in hb.local_ty(1):
        return None
    out = []
    cur = 0
    seen = set()
    while cur is not None and cur not in seen:
        seen.add(cur)
        t = hb.blocks[cur]["t"]
        if t["k"] == "call":
            c = Call(hb, cur, t)
            if c.fn.get("trait") and canon(c.fn["trait"]) == "bytes::BufMut" and re.match(r"put_u(8|16|32|64)(_le)?$", c.mname or "") and len(c.args) > 1:
                e = strip(X.operand(hb, c.args[1]))
                n = re.match(r"put_u(\d+)", c.mname).group(1)
                if e[0] == "field" and e[2] == POLICY_ADT:
                    out.append(("le" if c.mname.endswith("_le") else "be", e[1], "u" + n))
                else:
                    out.append(("unknown", show(e)[:60]))
            elif c.name in ("std::vec::Vec::extend_from_slice", "bytes::BufMut::put_slice") and len(c.args) > 1:
                e = strip(X.operand(hb, c.args[1]))
                tok = ("unknown", show(e)[:60])
                for x in walk(e):
                    if x[0] == "call":
                        m = re.match(r"core::num::<impl (\w+)>::to_(be|le|ne)_bytes$", x[1])
                        if m and x[2] and x[2][0][0] == "field":
                            tok = (m.group(2), x[2][0][1], m.group(1))
                out.append(tok)
            cur = t["t"]
            continue
        if t["k"] == "return":
            break
        succ = hb.succ[cur]
        if len(succ) != 1:
            return None
        cur = succ[0]
    return out


def _merge_tokens(toks):
    out = []
    for t in toks:
        if t[0] == "bytes" and out and out[-1][0] == "bytes":
            out[-1] = ("bytes", out[-1][1] + t[1])
        else:
            out.append(t)
    return out


def encode_table(F, X):
    """variant name -> tokens ; also returns the encode body.  The encoder is found by its signature; each variant is
    evaluated by walking the encoder (and the helpers it hands `self` to) along that variant's arms."""
    fe = find_encode(F)
    fns = find_encode_fn(F)
    if len(fns) > 1:
        # `impl From<&HtlcFailReason> for Vec<u8>` delegating to `encode` (or the reverse): the one the others call
        names = {f.cdef for f in fns}
        leaf = [f for f in fns if not any((c.resolved or c.name) in names - {f.cdef} for c in f.calls)]
        if len(leaf) == 1:
            fns = leaf
    if len(fns) == 1:
        b = fns[0]
        table = {}
        for v in reason_variants(F):
            table[v] = _merge_tokens(encode_tokens_for_variant(F, X, b, v))
        return b, table
    if len(fe) != 1:
        return None, None
    b, bb, cond = fe[0]
    t = b.term(bb)
    table = {}
    for v, tg in t["arms"]:
        name = cond.variants.get(v, v)
        tg = lib.skip_false_edges(b, tg)
        table[name] = arm_tokens(F, X, b, tg)
    return b, table


def reason_variants(F):
    adt = F.adts.get(REASON_ADT)
    if not adt:
        return {}
    return {v["n"]: [f["ty"] for f in v["fields"]] for v in adt["variants"]}


# ---------------------------------------------------------------------------- inlining
def project_field(e, inner):
    """field projection `e` (a ("field", name, owner, variant, _) node) applied to the already transformed `inner`:
    resolved against aggregates; the payload of another variant does not exist (dropped from alternatives)"""
    def one(a):
        if a[0] == "agg" and a[1] not in ("partial",):
            if a[2] and e[3] and a[2] != e[3]:
                return ("unknown", "variant-mismatch")
            for f, fe in a[3]:
                if f == e[1]:
                    return fe
        if a[0] == "call" and a[1] == "std::ops::FromResidual::from_residual" and e[3] in ("Ok", "Some"):
            return ("unknown", "variant-mismatch")     # the residual of `?` is an Err/None by construction
        return ("field", e[1], e[2], e[3], a)
    if inner[0] == "phi":
        return mkphi(tuple(one(a) for a in inner[1]))
    return one(inner)


def subst_params(e, callee_cdef, args, _d=0):
    if not isinstance(e, tuple) or not e or _d > 100:
        return e
    h = e[0]
    if h == "param" and e[1] == callee_cdef:
        i = e[2] - 1
        return args[i] if 0 <= i < len(args) else e
    if h == "call":
        return ("call", e[1], tuple(subst_params(a, callee_cdef, args, _d + 1) for a in e[2]), e[3], e[4])
    if h == "field":
        inner = subst_params(e[4], callee_cdef, args, _d + 1)
        return project_field(e, inner)
    if h == "phi":
        return mkphi(tuple(subst_params(a, callee_cdef, args, _d + 1) for a in e[1]))
    if h == "agg":
        return ("agg", e[1], e[2], tuple((f, subst_params(x, callee_cdef, args, _d + 1)) for f, x in e[3]), e[4])
    if h == "bin":
        return ("bin", e[1], subst_params(e[2], callee_cdef, args, _d + 1), subst_params(e[3], callee_cdef, args, _d + 1), e[4])
    if h == "un":
        return ("un", e[1], subst_params(e[2], callee_cdef, args, _d + 1))
    if h == "cast":
        return ("cast", e[1], e[2], e[3], subst_params(e[4], callee_cdef, args, _d + 1))
    if h in ("discr", "index", "await", "try"):
        return (h, subst_params(e[1], callee_cdef, args, _d + 1))
    return e


def inline_call(F, X, e):
    """return value expression of a call to a local non-async fn, with parameters substituted; None if not inlinable"""
    if e[0] != "call":
        return None
    name = e[4].resolved or e[1]
    b = F.by_cdef.get(name)
    if b is None or b.kind not in ("Fn", "AssocFn"):
        return None
    fi = F.fns.get(name)
    if fi and fi.get("async"):
        return None
    r = strip(X.local(b, 0))
    return strip(subst_params(r, b.cdef, e[2]))


def eval_response(F, X, e, table=None, depth=0):
    """evaluate an expression of type HtlcAcceptedResponse to a list of
    ('Fail', variant|None, tokens|None, payload_expr) | ('Resolve', key_expr) | ('Continue', payload_expr) | ('Opaque', expr)"""
    if table is None:
        _b, table = encode_table(F, X)
    out = []
    for a in alts(strip(e)):
        if a[0] == "agg" and a[1] == RESP_ADT:
            d = dict(a[3])
            if a[2] == "Fail":
                fm = d.get("failure_message")
                for m in alts(fm):
                    got = False
                    if m[0] == "call" and table is not None:
                        # encode(reason)
                        for r in alts(m[2][0]) if m[2] else ():
                            if r[0] == "agg" and r[1] == REASON_ADT:
                                pl = r[3][0][1] if r[3] else None
                                out.append(("Fail", r[2], table.get(r[2]), pl))
                                got = True
                    if not got:
                        out.append(("Fail", None, None, m))
            elif a[2] == "Resolve":
                out.append(("Resolve", d.get("payment_key")))
            elif a[2] == "Continue":
                out.append(("Continue", d.get("payload")))
            else:
                out.append(("Opaque", a))
        elif a[0] == "call" and depth < 4 and unwrap_alternatives(F, X, a) is not None:
            for alt in unwrap_alternatives(F, X, a):
                out += eval_response(F, X, alt, table, depth + 1)
        elif a[0] == "call" and depth < 4:
            r = inline_call(F, X, a)
            if r is not None:
                out += eval_response(F, X, r, table, depth + 1)
            else:
                out.append(("Opaque", a))
        else:
            out.append(("Opaque", a))
    return out


_UNWRAP_OR = {"std::option::Option::unwrap_or": "Some", "std::result::Result::unwrap_or": "Ok",
              "std::option::Option::unwrap_or_else": "Some", "std::result::Result::unwrap_or_else": "Ok",
              "std::option::Option::unwrap_or_default": "Some", "std::result::Result::unwrap_or_default": "Ok"}


def closure_return(F, X, c):
    """return-value expression of a closure value `c` (('agg','closure:D',..)); None if unknown"""
    for a in alts(strip(c)):
        if a[0] == "agg" and a[1].startswith("closure:"):
            cb = F.by_cdef.get(a[1][len("closure:"):])
            if cb is not None:
                return strip(X.local(cb, 0))
        if a[0] == "fnitem":
            cb = F.by_cdef.get(a[1])
            if cb is not None and cb.kind in ("Fn", "AssocFn"):
                return strip(X.local(cb, 0))
    return None


def unwrap_alternatives(F, X, a):
    """`o.unwrap_or(d)` / `o.unwrap_or_else(f)` / `o.unwrap_or_default()` written as the match they stand for:
    [payload of o, fallback value]; None for any other expression"""
    if a[0] != "call" or a[1] not in _UNWRAP_OR or not a[2]:
        return None
    v = _UNWRAP_OR[a[1]]
    first = ("field", "0", "", v, a[2][0])
    if a[1].endswith("unwrap_or"):
        return [first, a[2][1]] if len(a[2]) > 1 else None
    if a[1].endswith("unwrap_or_else"):
        r = closure_return(F, X, a[2][1]) if len(a[2]) > 1 else None
        return [first, r] if r is not None else None
    return [first, ("call", "std::default::Default::default", (), a[3], a[4])]


# ---------------------------------------------------------------------------- caller-side parameter expansion
def map_expr(e, fn, _d=0):
    """bottom-up map over expression trees"""
    if not isinstance(e, tuple) or not e or _d > 100:
        return e
    h = e[0]
    if h == "call":
        e2 = ("call", e[1], tuple(map_expr(a, fn, _d + 1) for a in e[2]), e[3], e[4])
    elif h == "field":
        inner = map_expr(e[4], fn, _d + 1)
        e2 = project_field(e, inner)
    elif h == "phi":
        e2 = mkphi(tuple(map_expr(a, fn, _d + 1) for a in e[1]))
    elif h == "agg":
        e2 = ("agg", e[1], e[2], tuple((f, map_expr(x, fn, _d + 1)) for f, x in e[3]), e[4])
    elif h == "bin":
        e2 = ("bin", e[1], map_expr(e[2], fn, _d + 1), map_expr(e[3], fn, _d + 1), e[4])
    elif h == "un":
        e2 = ("un", e[1], map_expr(e[2], fn, _d + 1))
    elif h == "cast":
        e2 = ("cast", e[1], e[2], e[3], map_expr(e[4], fn, _d + 1))
    elif h in ("discr", "index", "await", "try"):
        e2 = (h, map_expr(e[1], fn, _d + 1))
        if h == "try":
            e2 = simplify_try(e2)
    else:
        e2 = e
    return fn(e2)


def simplify_try(e):
    """`x?` where every way of making x is Ok(p)/Some(p), Err(..)/None or the residual of another `?`: the value is p"""
    x = e[1]
    xal = x[1] if x[0] == "phi" else (x,)

    def residual(y):
        return y[0] == "call" and y[1] == "std::ops::FromResidual::from_residual"
    if all((y[0] == "agg" and y[2] in ("Ok", "Some", "Err", "None")) or residual(y) for y in xal) and not all(residual(y) for y in xal):
        outs = [y[3][0][1] for y in xal if not residual(y) and y[2] in ("Ok", "Some") and y[3]]
        if outs:
            return mkphi(tuple(outs))
    # residuals and built Err/None leave through the `?`: they never reach the value
    rest = [y for y in xal if not residual(y) and not (y[0] == "agg" and y[2] in ("Err", "None"))]
    if rest and len(rest) < len(xal):
        outs = []
        for y in rest:
            if y[0] == "agg" and y[2] in ("Ok", "Some") and y[3]:
                outs.append(y[3][0][1])
            else:
                outs.append(("try", y))
        return mkphi(tuple(outs))
    return e


def expand_params(F, X, e, depth=3):
    """replace ('param', fn, i) nodes of local fns by the phi of the arguments at their call sites"""
    if depth <= 0:
        return e

    def f(x):
        if x[0] == "param":
            name = x[1]
            # closure/coroutine params are not call parameters
            if "{closure" in name:
                return x
            sites = [c for c in F.callers.get(name, []) if not c.noise]
            if not sites:
                return x
            outs = []
            for c in sites:
                i = x[2] - 1
                if i < len(c.args):
                    outs.append(expand_params(F, X, strip(X.operand(c.body, c.args[i])), depth - 1))
            if not outs:
                return x
            return mkphi(tuple(outs))
        return x
    return map_expr(e, f)


def leaves(e):
    """leaf nodes (param/upvar/const/constdef/unknown/resume) of an expression"""
    out = []
    for x in walk(e):
        if x[0] in ("param", "upvar", "const", "constdef", "unknown", "resume", "cycle", "fnitem", "envupvar"):
            out.append(x)
    return out


def field_path(e):
    """for a chain of field projections return ([names outer..inner reversed to root order], base)"""
    names = []
    while e[0] == "field":
        names.append((e[2], e[1]))
        e = e[4]
    names.reverse()
    return names, e


# ---------------------------------------------------------------------------- inlining of local pure helpers
def inline_pure(F, X, e, depth=3, keep=()):
    """replace calls to local, synchronous functions (not closures) by their return-value expression with the
    arguments substituted, so that a value computed by an extracted helper is seen like the inline computation.
    Functions whose canonical name is in `keep` stay as call nodes (rule anchors)."""
    if depth <= 0:
        return e

    def f(x):
        if x[0] == "call":
            name = x[4].resolved or x[1]
            if callable(keep):
                if keep(name) or keep(x[1]):
                    return x
            elif name in keep or x[1] in keep:
                return x
            b = F.by_cdef.get(name)
            if b is None or b.kind not in ("Fn", "AssocFn") or derive_like(b):
                return x
            fi = F.fns.get(name)
            if fi and fi.get("async"):
                return x
            r = inline_call(F, X, x)
            if r is None:
                return x
            return inline_pure(F, X, r, depth - 1, keep)
        return x
    return map_expr(e, f)


def alternatives_with_facts(F, X, e, depth=3, keep=(), with_cmp=False):
    """[(alternative, [(fact expr, variants)])]: the alternatives of value `e`, each with the Option/Result variant facts
    that hold at the place where that alternative is produced (`match x { Some(_) => A, None => B }` gives A with
    (x, Some) and B with (x, None)); calls of local pure helpers are looked through, their parameters bound to the
    arguments, so that `let v = match ..` inline and `v: helper(..)` give the same answer.  `x?` / `(x as Ok).0` of a
    helper's result keeps the helper's Ok(..) alternatives only (the Err ones leave the function).
    with_cmp: triples (alternative, variant facts, [(a, op, b)]) including the comparisons that hold there."""
    out = []

    def sub(fe, cb, args):
        return strip(subst_params(fe, cb.cdef, args))

    for a in alts(strip(e)):
        done = False
        if a[0] in ("try",) or (a[0] == "field" and a[1] == "0" and a[3] in ("Ok", "Some", "Continue")):
            inner = a[1] if a[0] == "try" else a[4]
            want = ("Ok", "Some") if a[0] == "try" else ((a[3],) if a[3] != "Continue" else ("Ok", "Some"))
            res = alternatives_with_facts(F, X, inner, depth, keep, True)
            if any(x[0][0] == "agg" and x[0][2] in ("Ok", "Some", "Err", "None") for x in res):
                for ia, vf, cf in res:
                    if ia[0] == "agg" and ia[2] in want and ia[3]:
                        out.append((ia[3][0][1], vf, cf))
                    elif ia[0] == "agg" and ia[2] in ("Err", "None", "Ok", "Some"):
                        continue
                    else:
                        out.append(((a[0], ia) if a[0] == "try" else ("field", a[1], a[2], a[3], ia), vf, cf))
                done = True
        if not done and a[0] == "call" and depth > 0:
            name = a[4].resolved or a[1]
            cb = F.by_cdef.get(name)
            fi = F.fns.get(name)
            kept = keep(name) if callable(keep) else (name in keep)
            if cb is not None and cb.kind in ("Fn", "AssocFn") and not derive_like(cb) and not (fi and fi.get("async")) and not kept:
                r = strip(X.local(cb, 0))
                for ra, vf, cf in alternatives_with_facts(F, X, r, depth - 1, keep, True):
                    out.append((sub(ra, cb, a[2]), [(sub(fe, cb, a[2]), t) for fe, t in vf], [(sub(x, cb, a[2]), op, sub(y, cb, a[2])) for x, op, y in cf]))
                done = True
        if not done:
            site = a[4] if a[0] == "agg" else (a[3] if a[0] in ("call",) else (a[4] if a[0] == "bin" else None))
            vf, cf = [], []
            if isinstance(site, tuple) and len(site) >= 2 and isinstance(site[1], int) and site[1] >= 0 and site[0] in F.by_cdef:
                sb = F.by_cdef[site[0]]
                if site[1] < len(sb.blocks):
                    vf = [(fe, t) for fe, t, _c in lib.variant_facts(sb, X, site[1])]
                    cf = [(x, op, y) for x, op, y, _bb in lib.order_facts(sb, X, site[1])]
            out.append((a, vf, cf))
    if with_cmp:
        return out
    return [(a, vf) for a, vf, cf in out]


PAYLOAD_VARIANTS = {"Ok": ("Ok",), "Some": ("Some",), "Continue": ("Ok", "Some"), "Ready": ("Ready",), "Err": ("Err",)}


def def_alternatives(F, X, body, op, depth=4, want=None, keep=(), _seen=None, _file=None, pathwise=False):
    """definition-site view of a value: [(expr, variant facts, comparison facts, where)] - one entry per *assignment* that
    can produce the value of operand `op` (not per distinct expression: two arms assigning the same expression stay two
    entries, each with the facts of its arm).  Follows moves/copies, the payload projections `(x as Ok).0`, `x?`, and
    calls of local pure helpers (into their `return` assignments, parameters bound to the arguments); the facts of the
    enclosing sites are accumulated.  `want`: only aggregates of these variants contribute their payload."""
    _seen = _seen or set()
    _file = _file or body.span.get("f")
    out = []

    def facts(b, bb):
        return ([(fe, t) for fe, t, _c in lib.variant_facts(b, X, bb)], [(x, o, y) for x, o, y, _bb in lib.order_facts(b, X, bb)])

    def facts_list(b, bb):
        """dominance facts, or (pathwise) one fact set per acyclic path to bb"""
        if not pathwise:
            return [facts(b, bb)]
        paths = lib.local_path_conditions(b, bb)
        if not paths:
            return [facts(b, bb)]
        outp = []
        for conds in paths:
            outp.append(([(fe, t) for fe, t, _c in lib.variant_facts(b, X, bb, conds=conds)], [(x, o, y) for x, o, y, _bb in lib.order_facts(b, X, bb, conds=conds)]))
        return outp

    def opaque(e, b, bb):
        vf, cf = facts(b, bb) if bb is not None else ([], [])
        return [(strip(e), vf, cf, (b.cdef, bb))]

    if op["k"] == "const":
        return [(strip(X.operand(body, op)), [], [], None)]
    pl = op["pl"]
    l = pl["l"]
    projs = [p for p in pl["p"] if p["k"] != "deref"]
    key = (body.def_, l, json_key(projs), want)
    if key in _seen or depth < 0:
        return opaque(X.operand(body, op), body, None)
    _seen = _seen | {key}
    if projs:
        if len(projs) == 2 and projs[0]["k"] == "downcast" and projs[1]["k"] == "field" and projs[1]["n"] == "0":
            # the payload of a one-field variant: `(x as Ok).0`, `(outcome as Fail).0`
            wv = PAYLOAD_VARIANTS.get(projs[0]["v"], (projs[0]["v"],))
            inner = def_alternatives(F, X, body, {"k": "move", "pl": {"l": l, "p": []}}, depth, wv, keep, _seen, _file, pathwise)
            if want is None:
                return inner
            # a payload of a payload: `((out as _1).0 as Some).0` - apply the outer projection to what the inner one gave
            res = []
            for e, vf, cf, wh in inner:
                if e[0] == "agg" and e[2] in ("Ok", "Some", "Err", "None") and e[2] not in want:
                    continue
                if e[0] == "agg" and e[2] in want and e[3]:
                    res.append((e[3][0][1], vf, cf, wh))
                else:
                    res.append((("field", "0", "", want[0], e), vf, cf, wh))
            return res
        return opaque(X.operand(body, op), body, None)
    if 1 <= l <= body.arg_count:
        return opaque(X.operand(body, op), body, None)
    def _def_one(bi, kind, payload, sp, vf0, cf0):
        if kind == "rv":
            rv = payload
            if rv["k"] == "use" and rv["op"]["k"] in ("copy", "move"):
                for e, vf, cf, wh in def_alternatives(F, X, body, rv["op"], depth, want, keep, _seen, _file, pathwise):
                    out.append((e, vf0 + vf, cf0 + cf, wh or (body.cdef, bi)))
                return
            if rv["k"] == "agg" and rv.get("ak") == "adt" and want is not None and rv.get("variant") and \
                    (rv.get("variant") in ("Ok", "Some", "Err", "None", "Ready", "Pending") or rv["variant"] != canon(rv.get("adt") or "").split("::")[-1]):
                if rv["variant"] in want and rv["ops"]:
                    for e, vf, cf, wh in def_alternatives(F, X, body, rv["ops"][0], depth, None, keep, _seen, _file, pathwise):
                        out.append((e, vf0 + vf, cf0 + cf, (body.cdef, bi)))
                return
            e = strip(X.rvalue(body, rv, (body.cdef, bi, loc(sp)), 0))
            out.append((e if want is None else ("field", "0", "", want[0], e), vf0, cf0, (body.cdef, bi)))
        elif kind == "call":
            c = Call(body, bi, payload)
            name = c.resolved or c.name
            if c.name == "std::ops::FromResidual::from_residual" and want is not None and set(want) & {"Ok", "Some"}:
                return                     # the residual of `?`: an Err/None, it carries no payload of the wanted kind
            if c.name == "std::ops::Try::branch" and c.args and want is not None:
                for e, vf, cf, wh in def_alternatives(F, X, body, c.args[0], depth, ("Ok", "Some"), keep, _seen, _file, pathwise):
                    out.append((e, vf0 + vf, cf0 + cf, wh))
                return
            cb = F.by_cdef.get(name)
            fi = F.fns.get(name)
            kept = keep(name) if callable(keep) else (name in keep)
            if cb is not None and cb.kind in ("Fn", "AssocFn") and not derive_like(cb) and not (fi and fi.get("async")) and not kept and depth > 0 \
                    and cb.span.get("f") == _file and not name.startswith("<"):
                args = tuple(strip(X.operand(body, a)) for a in c.args)
                for e, vf, cf, wh in def_alternatives(F, X, cb, {"k": "move", "pl": {"l": 0, "p": []}}, depth - 1, want, keep, _seen, _file, pathwise):
                    s1 = lambda x: strip(subst_params(x, cb.cdef, args))   # noqa
                    out.append((s1(e), vf0 + [(s1(fe), t) for fe, t in vf], cf0 + [(s1(x), o, s1(y)) for x, o, y in cf], wh))
                return
            e = strip(X.call(body, bi, payload, 0))
            out.append((e if want is None else ("field", "0", "", want[0], e), vf0, cf0, (body.cdef, bi)))
        else:
            out.append((("resume",), vf0, cf0, (body.cdef, bi)))
    for (bi, si, proj, kind, payload, sp) in body.defs.get(l, []):
        if proj and not all(p["k"] == "deref" for p in proj):
            continue
        # the definitions reached through this assignment are computed once; each path's facts are then prefixed
        start = len(out)
        _def_one(bi, kind, payload, sp, [], [])
        new = out[start:]
        del out[start:]
        fl = facts_list(body, bi)
        if len(fl) > 1:
            seenf, uniq = set(), []
            for vf0, cf0 in fl:
                k = (tuple((show(fe), t) for fe, t in vf0), tuple((show(x), o, show(y)) for x, o, y in cf0))
                if k not in seenf:
                    seenf.add(k)
                    uniq.append((vf0, cf0))
            fl = uniq
        if len(fl) * len(new) + len(out) > 4096:
            fl = [facts(body, bi)]           # too many path combinations: fall back to the dominance facts
        for vf0, cf0 in fl:
            for e, vf, cf, wh in new:
                out.append((e, vf0 + vf, cf0 + cf, wh))
    return out


def json_key(x):
    import json
    return json.dumps(x, sort_keys=True)


def is_getter(F, X, name):
    """local fn whose result is a field (path) of its first parameter: `fn x(&self) -> &T { &self.x }`"""
    b = F.by_cdef.get(name)
    if b is None or b.kind not in ("Fn", "AssocFn") or derive_like(b) or b.arg_count != 1 or len([c for c in b.calls if not c.noise]) > 1:
        return False
    r = strip(X.local(b, 0))
    while r[0] == "field":
        r = r[4]
    return r[0] == "param" and r[1] == b.cdef


def inline_getters(F, X, e):
    """accessor calls replaced by the field they return"""
    return inline_pure(F, X, e, depth=2, keep=lambda n: not is_getter(F, X, n))


def derive_like(b):
    from mir import derive_generated
    return derive_generated(b.span)
