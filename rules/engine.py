"""Extraction (driver build, dependency metadata, fact files), reports, evidence, known findings."""
import fcntl
import glob
import hashlib
import json
import os
import shutil
import subprocess
import sys
import time
import uuid

VERIF = os.path.dirname(os.path.dirname(os.path.abspath(__file__)))
REPO = os.environ.get("VERIF_REPO", "/repo")
CACHE = os.path.join(VERIF, ".cache")
DRV_DIR = os.path.join(CACHE, "drv")
DRV = os.path.join(DRV_DIR, "release", "mirfacts")
TARGET = os.path.join(CACHE, "target")
FACTS_DIR = os.path.join(CACHE, "facts")
RUSTFLAGS = "-Zmir-opt-level=0 -Awarnings"


class InfraError(Exception):
    pass


def _sysroot():
    return subprocess.check_output(["rustc", "+nightly", "--print", "sysroot"], text=True).strip()


def _env():
    e = dict(os.environ)
    e["CARGO_NET_OFFLINE"] = "true"
    e["LD_LIBRARY_PATH"] = _sysroot() + "/lib" + (":" + e["LD_LIBRARY_PATH"] if e.get("LD_LIBRARY_PATH") else "")
    e.pop("RUSTC_WRAPPER", None)
    return e


def build_driver(log=sys.stderr):
    src = os.path.join(VERIF, "engine", "mirfacts")
    newest = max(os.path.getmtime(p) for p in glob.glob(src + "/src/*.rs") + [src + "/Cargo.toml"])
    if os.path.exists(DRV) and os.path.getmtime(DRV) >= newest:
        return
    os.makedirs(DRV_DIR, exist_ok=True)
    e = _env()
    e["CARGO_TARGET_DIR"] = DRV_DIR
    r = subprocess.run(["cargo", "+nightly", "build", "--release", "--offline"], cwd=src, env=e,
                       stdout=subprocess.PIPE, stderr=subprocess.STDOUT, text=True)
    if r.returncode != 0 or not os.path.exists(DRV):
        raise InfraError("building engine/mirfacts failed:\n" + r.stdout[-4000:])


def source_hash(repo=REPO):
    h = hashlib.sha256()
    files = [os.path.join(repo, "Cargo.toml"), os.path.join(repo, "Cargo.lock")]
    for root, _d, fs in os.walk(os.path.join(repo, "src")):
        for f in fs:
            files.append(os.path.join(root, f))
    for p in sorted(files):
        if os.path.exists(p):
            h.update(os.path.relpath(p, repo).encode())
            h.update(b"\0")
            with open(p, "rb") as fh:
                h.update(fh.read())
            h.update(b"\0")
    # the driver is part of the key: a new emitter invalidates cached facts
    with open(os.path.join(VERIF, "engine", "mirfacts", "src", "main.rs"), "rb") as fh:
        h.update(fh.read())
    return h.hexdigest()


class _Lock:
    def __init__(self, path):
        self.path = path

    def __enter__(self):
        os.makedirs(os.path.dirname(self.path), exist_ok=True)
        self.f = open(self.path, "w")
        fcntl.flock(self.f, fcntl.LOCK_EX)
        return self

    def __exit__(self, *a):
        fcntl.flock(self.f, fcntl.LOCK_UN)
        self.f.close()


def _rm_member_fingerprints():
    for p in glob.glob(os.path.join(TARGET, "debug", ".fingerprint", "trampoline-*")):
        shutil.rmtree(p, ignore_errors=True)


def _cargo_extract(out, nonce, repo=REPO):
    """run `cargo +nightly check` on repo with the driver as workspace wrapper (overflow checks: dev
    profile => on).  Captures the rustc argument vector for direct driver runs."""
    _rm_member_fingerprints()
    e = _env()
    e.update({
        "MIRFACTS_OUT": out, "MIRFACTS_NONCE": nonce, "MIRFACTS_ARGS_OUT": os.path.join(CACHE, "args.txt"),
        "RUSTFLAGS": RUSTFLAGS, "RUSTC_WORKSPACE_WRAPPER": DRV, "CARGO_TARGET_DIR": TARGET,
    })
    r = subprocess.run(["cargo", "+nightly", "check", "--offline", "--bin", "trampoline"], cwd=repo, env=e,
                       stdout=subprocess.PIPE, stderr=subprocess.STDOUT, text=True)
    if r.returncode != 0:
        raise InfraError("cargo check of %s failed (repository does not compile?):\n%s" % (repo, r.stdout[-6000:]))


def _direct_extract(out, nonce, overflow, cwd=REPO):
    """run the driver directly with the captured argument vector (no cargo), forcing the overflow mode."""
    argsf = os.path.join(CACHE, "args.txt")
    if not os.path.exists(argsf):
        raise InfraError("no captured rustc arguments")
    args = open(argsf).read().split("\n")
    # drop argv[0], incremental, redirect outputs to a scratch dir
    scratch = os.path.join(CACHE, "scratch-%s" % uuid.uuid4().hex[:8])
    os.makedirs(scratch, exist_ok=True)
    new = []
    i = 1
    while i < len(args):
        a = args[i]
        if a == "-C" and i + 1 < len(args) and args[i + 1].startswith("incremental="):
            i += 2
            continue
        if a == "--out-dir":
            new += ["--out-dir", scratch]
            i += 2
            continue
        if a.startswith("--error-format") or a.startswith("--json"):
            i += 1
            continue
        new.append(a)
        i += 1
    e = _env()
    e.update({"MIRFACTS_OUT": out, "MIRFACTS_NONCE": nonce, "MIRFACTS_STOP": "1",
              "MIRFACTS_OVERFLOW": "on" if overflow else "off"})
    e.pop("MIRFACTS_ARGS_OUT", None)
    try:
        r = subprocess.run([DRV] + new + ["-Zmir-opt-level=0", "-Awarnings"], cwd=cwd, env=e,
                           stdout=subprocess.PIPE, stderr=subprocess.STDOUT, text=True)
    finally:
        shutil.rmtree(scratch, ignore_errors=True)
    return r


def setup():
    os.makedirs(CACHE, exist_ok=True)
    with _Lock(os.path.join(CACHE, "lock")):
        build_driver()
        # compile dependency metadata (and one extraction as smoke test)
        out = os.path.join(CACHE, "setup-facts.json")
        nonce = uuid.uuid4().hex
        _cargo_extract(out, nonce)
        if not os.path.exists(out) or json.load(open(out)).get("nonce") != nonce:
            raise InfraError("setup: fact file was not written by this run")
        os.remove(out)


def facts_path(overflow=True, repo=REPO):
    """returns the path of a fact file for the current working tree of repo (extracting if needed)."""
    os.makedirs(FACTS_DIR, exist_ok=True)
    with _Lock(os.path.join(CACHE, "lock")):
        build_driver()
        h = source_hash(repo)
        tag = "on" if overflow else "off"
        out = os.path.join(FACTS_DIR, "%s-%s.json" % (h[:24], tag))
        if os.path.exists(out):
            return out, h
        nonce = uuid.uuid4().hex
        tmp = out + ".new"
        if os.path.exists(tmp):
            os.remove(tmp)
        need_cargo = overflow or not os.path.exists(os.path.join(CACHE, "args.txt")) or not os.path.isdir(os.path.join(TARGET, "debug", "deps"))
        if overflow:
            _cargo_extract(tmp, nonce, repo)
        else:
            if need_cargo:
                on_out = os.path.join(FACTS_DIR, "%s-on.json" % h[:24])
                n2 = uuid.uuid4().hex
                _cargo_extract(on_out + ".new", n2, repo)
                os.rename(on_out + ".new", on_out)
            r = _direct_extract(tmp, nonce, False, repo)
            if r.returncode != 0 and not os.path.exists(tmp):
                raise InfraError("direct driver run failed:\n" + r.stdout[-4000:])
        if not os.path.exists(tmp):
            raise InfraError("fact file missing after extraction (stale cargo cache?)")
        with open(tmp) as fh:
            head = fh.read(200)
        if nonce not in head:
            raise InfraError("fact file not written by this invocation (nonce mismatch)")
        os.rename(tmp, out)
        # prune old fact files
        fs = sorted(glob.glob(os.path.join(FACTS_DIR, "*.json")), key=os.path.getmtime)
        for p in fs[:-12]:
            try:
                os.remove(p)
            except OSError:
                pass
        return out, h


def extract_variant(srcdir, overflow=True):
    """extract facts for a scratch copy of the repository (positive controls / mutants). Uses the
    argument vector captured from the main extraction.  Returns (path or None, output)."""
    out = os.path.join(srcdir, "facts-%s.json" % ("on" if overflow else "off"))
    nonce = uuid.uuid4().hex
    r = _direct_extract(out, nonce, overflow, cwd=srcdir)
    if not os.path.exists(out):
        return None, r.stdout
    return out, r.stdout


# ============================================================================ reporting
class Report:
    """collects obligations of one property run"""

    def __init__(self, prop, tier, config):
        self.prop = prop
        self.tier = tier
        self.config = config
        self.obs = []          # dicts
        self.rules = {}        # rule -> {"desc":..., "sites":n}
        self.notes = []
        self._keycount = {}

    def rule(self, rid, desc):
        r = self.rules.setdefault(rid, {"desc": desc, "obligations": 0, "violations": 0})
        if not r["desc"]:
            r["desc"] = desc

    def ob(self, rid, ok, fn, what, where="", how="", detail="", nontrivial=True):
        """record one obligation. key = rule|fn|what|ordinal"""
        self.rules.setdefault(rid, {"desc": "", "obligations": 0, "violations": 0})
        base = "%s|%s|%s" % (rid, fn, what)
        n = self._keycount.get(base, 0)
        self._keycount[base] = n + 1
        key = "%s|%d" % (base, n)
        o = {"rule": rid, "ok": bool(ok), "fn": fn, "what": what, "where": where, "how": how,
             "detail": detail, "key": key, "nontrivial": nontrivial, "config": self.config}
        self.obs.append(o)
        self.rules[rid]["obligations"] += 1
        if not ok:
            self.rules[rid]["violations"] += 1
        return ok

    def anchor(self, rid, what, found, floor=1, fn="-"):
        """fail closed when an anchor the rule depends on cannot be resolved"""
        ok = found >= floor
        return self.ob(rid, ok, fn, "anchor:" + what, how="found %d (floor %d)" % (found, floor),
                       detail="" if ok else "anchor-missing: %s (found %d, need >= %d)" % (what, found, floor),
                       nontrivial=False)

    def violations(self):
        return [o for o in self.obs if not o["ok"]]


def load_known():
    p = os.path.join(VERIF, "known_findings.json")
    if not os.path.exists(p):
        return []
    return json.load(open(p))


def write_evidence(prop, tier, seed, reports, wall, explanation, assumptions, extra=None):
    obs = [o for r in reports for o in r.obs]
    known = {k["key"]: k for k in load_known() if k.get("status") == "known" and k.get("property") == prop}
    viol = [o for o in obs if not o["ok"] and o["key"] not in known]
    samples = []
    seen_rules = set()
    for o in obs:
        if o["rule"] not in seen_rules and o["nontrivial"]:
            seen_rules.add(o["rule"])
            samples.append({k: o[k] for k in ("rule", "fn", "what", "where", "how", "ok", "config")})
    for o in viol[:10]:
        samples.append({k: o[k] for k in ("rule", "fn", "what", "where", "detail", "ok", "config")})
    rules = {}
    for r in reports:
        for rid, d in r.rules.items():
            x = rules.setdefault(rid, {"desc": d["desc"], "obligations": 0, "violations": 0})
            x["obligations"] += d["obligations"]
            x["violations"] += d["violations"]
            if d["desc"]:
                x["desc"] = d["desc"]
    distinct = len({(o["rule"], o["fn"], o["what"]) for o in obs if o["nontrivial"]})
    cov = {
        "explanation": explanation,
        "obligations": len(obs),
        "discharged": len([o for o in obs if o["ok"]]),
        "evaluations": len(obs),
        "distinct_nontrivial": distinct,
        "rule": "one obligation per (rule instance, site) found by anchor resolution over the MIR facts of every "
                "non-test body of the crate; non-trivial = discharged by a path, provenance, interval or table "
                "argument (anchor-existence obligations are counted as trivial)",
        "samples": samples[:40],
        "rules": rules,
        "configs": [r.config for r in reports],
        "exhaustive": True,
        "checker_cmd": "./check %s --tier %s" % (prop, tier),
        "trusted_base": ["rustc nightly MIR construction", "engine/mirfacts emitter", "primitive tables in rules/"],
    }
    if extra:
        cov.update(extra)
    ev = {
        "property_id": prop, "tier": tier, "seed": seed, "level": "other", "coverage": cov,
        "assumptions": assumptions, "wall_s": round(wall, 3), "violations": len(viol),
    }
    os.makedirs(os.path.join(VERIF, "evidence"), exist_ok=True)
    p = os.path.join(VERIF, "evidence", "%s.json" % prop)
    with open(p + ".tmp", "w") as f:
        json.dump(ev, f, indent=1, default=str)
    os.rename(p + ".tmp", p)
    return viol, known
