"""Fact model over the JSON emitted by engine/mirfacts: bodies, CFG, dominators,
reachability, expression (def-use) trees.  No property logic here."""
import json
import os
import re
from collections import defaultdict, deque

NOISE_MACROS = {"trace", "debug", "info", "warn", "error", "event", "span", "instrument",
                "debug_span", "trace_span", "info_span", "enabled", "valueset", "fieldset",
                "level_enabled", "callsite", "callsite2", "metadata", "identify_callsite", "level_to_log"}


def canon(name):
    """strip generic-argument segments:  a::B::<T>::c -> a::B::c ;  keeps <X as Y>::m forms."""
    if name is None:
        return None
    out = []
    i = 0
    n = len(name)
    while i < n:
        if name.startswith("::<", i) and not name.startswith("::<impl ", i):
            depth = 0
            j = i + 2
            while j < n:
                if name[j] == "<":
                    depth += 1
                elif name[j] == ">":
                    depth -= 1
                    if depth == 0:
                        break
                j += 1
            i = j + 1
            continue
        out.append(name[i])
        i += 1
    return "".join(out)


def span_macros(sp):
    return [m.split(":", 1)[-1] for m in sp.get("mac", [])]


def is_noise_span(sp):
    """span produced by a tracing macro expansion (logging only)"""
    for m in span_macros(sp):
        if m in NOISE_MACROS:
            return True
    return False


def derive_generated(sp):
    """span inside a #[derive(..)] expansion"""
    return any(m.startswith("Derive:") for m in sp.get("mac", []))


def loc(sp):
    f = sp.get("f", "?")
    if f.startswith("/repo/"):
        f = f[len("/repo/"):]
    return "%s:%s" % (f, sp.get("l", "?"))


class Call:
    __slots__ = ("body", "bb", "t", "fn", "name", "args", "dest", "target", "sp", "trait", "mname",
                 "self_ty", "resolved", "full", "indirect")

    def __init__(self, body, bb, t):
        self.body = body
        self.bb = bb
        self.t = t
        fn = t["fn"]
        self.fn = fn
        self.indirect = "indirect" in fn
        self.name = canon(fn.get("def")) if not self.indirect else "<indirect>"
        self.full = fn.get("full", "<indirect>")
        self.trait = fn.get("trait") or fn.get("impl_trait")
        self.mname = fn.get("name")
        self.self_ty = fn.get("self_ty")
        self.resolved = canon(fn.get("resolved")) if fn.get("resolved") else None
        self.args = t["args"]
        self.dest = t["dest"]
        self.target = t["t"]
        self.sp = t["sp"]

    @property
    def loc(self):
        return loc(self.sp)

    @property
    def noise(self):
        return is_noise_span(self.sp)

    def is_trait_method(self, trait, name=None):
        tr = self.fn.get("trait")
        if tr is None:
            return False
        if canon(tr) != trait:
            return False
        return name is None or self.mname == name

    def __repr__(self):
        return "<call %s @%s bb%d>" % (self.name, self.loc, self.bb)


class Body:
    def __init__(self, facts, j):
        self.facts = facts
        self.j = j
        self.def_ = j["def"]
        self.cdef = canon(j["def"])
        self.kind = j["kind"]
        self.parent = j["parent"]
        self.cparent = canon(j["parent"])
        self.coroutine = j["coroutine"]
        self.upvars = j["upvars"]
        self.arg_count = j["arg_count"]
        self.locals = j["locals"]
        self.blocks = j["blocks"]
        self.span = j["span"]
        self.ret_ty = j.get("ret_ty")
        self.n = len(self.blocks)
        self._succ = None
        self._pred = None
        self._dom = None
        self._calls = None
        self._defs = None
        self._reach0 = None

    # ---------------------------------------------------------------- CFG
    def term(self, bb):
        return self.blocks[bb]["t"]

    def is_cleanup(self, bb):
        return bool(self.blocks[bb].get("cleanup"))

    def _build_cfg(self):
        succ = []
        for i, b in enumerate(self.blocks):
            t = b["t"]
            k = t["k"]
            if b.get("cleanup"):
                succ.append([])
                continue
            if k == "goto":
                s = [t["t"]]
            elif k == "switch":
                s = []
                for _v, tg in t["arms"]:
                    if tg not in s:
                        s.append(tg)
                if t["otherwise"] not in s:
                    s.append(t["otherwise"])
            elif k in ("drop", "assert", "false_unwind", "false_edge", "yield"):
                s = [t["t"]]
            elif k == "call":
                s = [t["t"]] if t["t"] is not None else []
            else:
                s = []
            succ.append(s)
        pred = [[] for _ in range(self.n)]
        for i, s in enumerate(succ):
            for x in s:
                pred[x].append(i)
        self._succ = succ
        self._pred = pred

    @property
    def succ(self):
        if self._succ is None:
            self._build_cfg()
        return self._succ

    @property
    def pred(self):
        if self._pred is None:
            self._build_cfg()
        return self._pred

    def reach(self, starts, removed_nodes=(), removed_edges=()):
        """set of blocks reachable from any block in starts (inclusive), not entering removed
        nodes and not using removed edges (pairs (from,to))."""
        rn = set(removed_nodes)
        re_ = set(removed_edges)
        seen = set()
        dq = deque()
        for s in starts:
            if s not in rn and s not in seen:
                seen.add(s)
                dq.append(s)
        succ = self.succ
        while dq:
            x = dq.popleft()
            for y in succ[x]:
                if y in seen or y in rn or (x, y) in re_:
                    continue
                seen.add(y)
                dq.append(y)
        return seen

    def reach_after(self, starts, removed_nodes=(), removed_edges=()):
        """blocks reachable by taking at least one edge from any start block"""
        rn = set(removed_nodes)
        re_ = set(removed_edges)
        first = set()
        for s in starts:
            for y in self.succ[s]:
                if y not in rn and (s, y) not in re_:
                    first.add(y)
        return self.reach(first, rn, re_)

    @property
    def reachable(self):
        if self._reach0 is None:
            self._reach0 = self.reach([0])
        return self._reach0

    @property
    def dom(self):
        """dom[b] = set of blocks dominating b (including b); only for reachable blocks"""
        if self._dom is None:
            nodes = sorted(self.reachable)
            # iterative idom (Cooper-Harvey-Kennedy)
            order = []
            seen = set()
            stack = [(0, iter(self.succ[0]))]
            seen.add(0)
            while stack:
                node, it = stack[-1]
                adv = False
                for y in it:
                    if y not in seen:
                        seen.add(y)
                        stack.append((y, iter(self.succ[y])))
                        adv = True
                        break
                if not adv:
                    order.append(node)
                    stack.pop()
            rpo = list(reversed(order))
            idx = {b: i for i, b in enumerate(rpo)}
            idom = {0: 0}
            changed = True
            while changed:
                changed = False
                for b in rpo[1:]:
                    new = None
                    for p in self.pred[b]:
                        if p in idom:
                            if new is None:
                                new = p
                            else:
                                a, c = p, new
                                while a != c:
                                    while idx[a] > idx[c]:
                                        a = idom[a]
                                    while idx[c] > idx[a]:
                                        c = idom[c]
                                new = a
                    if new is not None and idom.get(b) != new:
                        idom[b] = new
                        changed = True
            self._idom = idom
            dom = {}
            for b in rpo:
                if b == 0:
                    dom[b] = {0}
                else:
                    dom[b] = set(dom[idom[b]]) | {b}
            self._dom = dom
        return self._dom

    def dominates(self, a, b):
        return b in self.dom and a in self.dom[b]

    def edge_dominates(self, edge, b):
        """every path entry->b uses edge (x,y)"""
        if b not in self.reachable:
            return True
        return b not in self.reach([0], removed_edges=[edge])

    def node_cut(self, nodes, b):
        """every path entry->b passes one of nodes (b itself excluded)"""
        if b in nodes:
            return True
        return b not in self.reach([0], removed_nodes=nodes)

    # ---------------------------------------------------------------- calls
    @property
    def calls(self):
        if self._calls is None:
            cs = []
            for i, b in enumerate(self.blocks):
                if b.get("cleanup"):
                    continue
                if b["t"]["k"] == "call":
                    cs.append(Call(self, i, b["t"]))
            self._calls = cs
        return self._calls

    def calls_named(self, *names):
        return [c for c in self.calls if c.name in names]

    def calls_match(self, rx):
        r = re.compile(rx)
        return [c for c in self.calls if r.search(c.name or "")]

    def returns(self):
        return [i for i in self.reachable if self.blocks[i]["t"]["k"] == "return"]

    def yields(self):
        return [i for i in self.reachable if self.blocks[i]["t"]["k"] == "yield"]

    # ---------------------------------------------------------------- defs
    @property
    def defs(self):
        """local -> list of (bb, idx|'t', proj(list), kind, payload)"""
        if self._defs is None:
            d = defaultdict(list)
            for bi, b in enumerate(self.blocks):
                if b.get("cleanup"):
                    continue
                for si, s in enumerate(b["s"]):
                    if s["k"] == "assign":
                        lhs = s["lhs"]
                        d[lhs["l"]].append((bi, si, lhs["p"], "rv", s["rv"], s["sp"]))
                t = b["t"]
                if t["k"] == "call":
                    dest = t["dest"]
                    d[dest["l"]].append((bi, "t", dest["p"], "call", t, t["sp"]))
                elif t["k"] == "yield":
                    ra = t["resume_arg"]
                    d[ra["l"]].append((bi, "t", ra["p"], "resume", t, t["sp"]))
            self._defs = d
        return self._defs

    def local_ty(self, l):
        return self.locals[l]["ty"]

    def local_name(self, l):
        return self.locals[l].get("n")

    def locals_of_type(self, rx):
        r = re.compile(rx)
        return [i for i, l in enumerate(self.locals) if r.search(l["ty"])]

    def __repr__(self):
        return "<body %s>" % self.def_


class Facts:
    def __init__(self, path):
        with open(path) as f:
            self.j = json.load(f)
        self.path = path
        self.nonce = self.j.get("nonce")
        self.overflow_checks = self.j.get("overflow_checks")
        self.bodies = []
        self.by_def = {}
        self.by_cdef = {}
        for bj in self.j["bodies"]:
            b = Body(self, bj)
            self.bodies.append(b)
            self.by_def[b.def_] = b
            self.by_cdef.setdefault(b.cdef, b)
        self.adts = {canon(a["def"]): a for a in self.j["adts"]}
        self.impls = self.j["impls"]
        self.fns = {canon(f["def"]): f for f in self.j["fns"]}
        self.statics = self.j["statics"]
        self._closure_sites = None
        self._callers = None
        self._resolve_named_consts()
        self.originals = {}
        self.inline_log = []
        self.absorbed = set()
        if os.environ.get("VERIF_NO_INLINE") != "1":
            import inline
            inline.normalize(self)
        import names
        names.set_current(self)

    STD_CONSTS = {"core::num::<impl u8>::MAX": 0xff, "core::num::<impl u16>::MAX": 0xffff, "core::num::<impl u32>::MAX": 0xffffffff,
                  "core::num::<impl u64>::MAX": 0xffffffffffffffff, "core::num::<impl usize>::MAX": 0xffffffffffffffff,
                  "core::num::<impl u8>::MIN": 0, "core::num::<impl u16>::MIN": 0, "core::num::<impl u32>::MIN": 0,
                  "core::num::<impl u64>::MIN": 0, "core::num::<impl usize>::MIN": 0}

    def _resolve_named_consts(self):
        """a named integer constant (`const NODE: u8 = 0x20;`, `u16::MAX`) used as an operand is the same operand as
        its literal: annotate the operand with the value so that rules reading raw operands see through the name"""
        vals = {}
        for b in self.bodies:
            if not b.kind.startswith(("Const", "AssocConst")):
                continue
            blk = b.blocks[0] if b.blocks else None
            if blk is None or blk["t"]["k"] != "return":
                continue
            asg = [s for s in blk["s"] if s["k"] == "assign" and s["lhs"]["l"] == 0 and not s["lhs"]["p"]]
            if len(asg) == 1 and asg[0]["rv"]["k"] == "use" and asg[0]["rv"]["op"]["k"] == "const" and \
                    ("int" in asg[0]["rv"]["op"] or str(asg[0]["rv"]["op"].get("v", "")).startswith('"')) and "def" not in asg[0]["rv"]["op"]:
                vals[b.def_] = asg[0]["rv"]["op"]

        def walk_json(x):
            if isinstance(x, dict):
                if x.get("k") == "const" and "def" in x and "promoted" not in x and "fn" not in x and "int" not in x:
                    src = vals.get(x["def"])
                    if src is not None:
                        if "int" in src:
                            x["int"] = src["int"]
                        x["named"] = x["v"]
                        x["v"] = src["v"]
                        if "int" not in src:
                            del x["def"]         # a named string constant is the literal
                    elif canon(x["def"]) in self.STD_CONSTS:
                        x["int"] = str(self.STD_CONSTS[canon(x["def"])])
                        x["named"] = x["v"]
                for v in x.values():
                    walk_json(v)
            elif isinstance(x, list):
                for v in x:
                    walk_json(v)
        for b in self.bodies:
            walk_json(b.blocks)

    # ---------------------------------------------------------------- groups
    def code_bodies(self):
        """bodies that are real code (functions, closures, coroutines), not statics/consts/promoteds"""
        ab = getattr(self, "absorbed", ())
        return [b for b in self.bodies if b.kind in ("Fn", "AssocFn", "Closure", "SyntheticCoroutineBody") and b.def_ not in ab]

    def group(self, root_cdef):
        """root fn + all nested closures/coroutines (not promoteds / statics)"""
        out = []
        for b in self.code_bodies():
            if b.cdef == root_cdef or b.cdef.startswith(root_cdef + "::{closure"):
                out.append(b)
        # closures defined in helpers that were spliced into this function run as part of it
        extra = set()
        for b in out:
            for blk in b.blocks:
                for d in blk.get("ctx", ()) or ():
                    extra.add(self.root_of_name(d))
        extra.discard(root_cdef)
        if extra:
            have = {b.def_ for b in out}
            for b in self.code_bodies():
                if b.def_ in have:
                    continue
                for r in extra:
                    if b.cdef.startswith(r + "::{closure"):
                        out.append(b)
                        break
        return out

    def root_of_name(self, d):
        d = canon(d)
        i = d.find("::{closure")
        return d if i < 0 else d[:i]

    def root_of(self, body):
        d = body.cdef
        i = d.find("::{closure")
        j = d.find("::{promoted")
        if i < 0 or (0 <= j < i):
            i = j if j >= 0 else i
        return d if i < 0 else d[:i]

    def code_and_promoted(self):
        """code bodies plus the promoted constants of code bodies (for who-constructs rules)"""
        out = []
        for b in self.bodies:
            if b.kind in ("Fn", "AssocFn", "Closure", "SyntheticCoroutineBody"):
                out.append(b)
            elif b.kind == "Promoted":
                p = self.by_def.get(b.parent)
                if p is not None and p.kind in ("Fn", "AssocFn", "Closure", "SyntheticCoroutineBody"):
                    out.append(b)
        return out

    def aggregates(self, adt, variant=None, skip_derive=True):
        """[(body, bb, stmt)] constructing ADT (optionally a variant), including in promoted constants"""
        out = []
        for b in self.code_and_promoted():
            if skip_derive and derive_generated(b.span):
                continue
            for bi, blk in enumerate(b.blocks):
                if blk.get("cleanup"):
                    continue
                for s in blk["s"]:
                    if s["k"] == "assign" and s["rv"]["k"] == "agg" and s["rv"].get("ak") == "adt" and canon(s["rv"]["adt"]) == adt \
                            and (variant is None or s["rv"]["variant"] == variant):
                        out.append((b, bi, s))
        return out

    def groups(self):
        g = defaultdict(list)
        for b in self.code_bodies():
            g[self.root_of(b)].append(b)
        return g

    def bodies_calling(self, pred):
        """[(body, [calls])] for bodies with at least one non-noise call satisfying pred"""
        out = []
        for b in self.code_bodies():
            cs = [c for c in b.calls if pred(c)]
            if cs:
                out.append((b, cs))
        return out

    def module_of(self, body):
        d = body.cdef
        if d.startswith("<"):
            # <store::ClnDatastore as store::Datastore>::m
            m = re.match(r"<([A-Za-z0-9_:]+)", d)
            d = m.group(1) if m else d
        return d.split("::")[0] if "::" in d else ""

    def file_of(self, body):
        return body.span.get("f", "")

    # closure construction sites: closure def -> (parent body, bb, stmt idx, ops)
    @property
    def closure_sites(self):
        if self._closure_sites is None:
            cs = {}
            for b in self.bodies:
                for bi, blk in enumerate(b.blocks):
                    for si, s in enumerate(blk["s"]):
                        if s["k"] == "assign" and s["rv"]["k"] == "agg" and s["rv"]["ak"] in ("closure", "coroutine", "coroutine_closure") and not s.get("inl"):
                            cs.setdefault(s["rv"]["def"], []).append((b, bi, si, s["rv"]["ops"], s))
            # a closure built inside a helper that has been spliced into its callers is evaluated in the callers'
            # context (deepest splice), where the helper's parameters are bound to the actual arguments
            for d, sites in cs.items():
                depth = [len(pb.blocks[bi].get("ctx", [])) for (pb, bi, si, ops, s) in sites]
                if max(depth) > 0:
                    cs[d] = [x for x, k in zip(sites, depth) if k == max(depth)]
            self._closure_sites = cs
        return self._closure_sites

    @property
    def callers(self):
        """canon callee name -> list of Call"""
        if self._callers is None:
            m = defaultdict(list)
            for b in self.code_bodies():
                for c in b.calls:
                    m[c.name].append(c)
                    if c.resolved:
                        m[c.resolved].append(c)
                    if c.name == "std::convert::Into::into":
                        # x.into() through the blanket impl runs the crate's `impl From<T> for U`
                        mm_ = re.match(r"^<(.+) as std::convert::Into<(.+)>>::into$", c.full)
                        if mm_:
                            cand = "<%s as std::convert::From<%s>>::from" % (mm_.group(2), mm_.group(1))
                            if cand in self.by_cdef and cand != c.resolved:
                                m[cand].append(c)
            self._callers = m
        return self._callers

    def fn_refs(self, cname):
        """every operand in the crate that names fn item `cname` (as callee or as value)"""
        out = []
        for b in self.code_bodies():
            for bi, blk in enumerate(b.blocks):
                if blk.get("cleanup"):
                    continue

                def scan_op(o, where):
                    if isinstance(o, dict) and o.get("k") == "const" and "fn" in o:
                        if canon(o["fn"]["def"]) == cname:
                            out.append((b, bi, where))
                for s in blk["s"]:
                    if s["k"] != "assign":
                        continue
                    rv = s["rv"]
                    for key in ("op", "a", "b"):
                        if key in rv and isinstance(rv[key], dict):
                            scan_op(rv[key], ("stmt", s))
                    for o in rv.get("ops", []):
                        scan_op(o, ("stmt", s))
                t = blk["t"]
                if t["k"] == "call":
                    if not ("indirect" in t["fn"]) and canon(t["fn"]["def"]) == cname:
                        out.append((b, bi, ("callee", t)))
                    for a in t["args"]:
                        scan_op(a, ("arg", t))
        return out


# ============================================================================ expressions
# Expression trees (tuples):
#   ("const", text, int|None, ty)
#   ("constdef", defpath)               unevaluated named constant
#   ("fnitem", canon_name)
#   ("param", body_cdef, index, name)
#   ("upvar", body_cdef, name)           unresolved captured variable
#   ("field", name, owner, variant, inner)
#   ("index", inner)
#   ("agg", adt|'tuple'|'array'|'closure', variant, ((fname, expr),...), site)
#   ("bin", op, a, b, site) ("un", op, a) ("cast", ck, from, to, a)
#   ("discr", inner)
#   ("call", name, (args...), site, callobj)
#   ("resume",)  ("cycle",) ("unknown", why)
#   ("phi", (alts...))                  several reaching definitions (flow-insensitive)
# `site` = (body_cdef, bb, loc)

MAXDEPTH = 60


class ExprBuilder:
    def __init__(self, facts):
        self.facts = facts
        self.memo = {}
        self.stack = set()
        self._cyc_work = {}

    # -- public
    def operand(self, body, o, depth=0):
        k = o["k"]
        if k in ("copy", "move"):
            return self.place(body, o["pl"], depth)
        if k == "const":
            if "fn" in o:
                return ("fnitem", canon(o["fn"]["def"]))
            if "def" in o and "promoted" in o:
                pb = self.facts.by_def.get("%s::{promoted#%d}" % (o["def"], o["promoted"]))
                if pb is None:
                    # promoted of this body
                    pb = self.facts.by_def.get("%s::{promoted#%d}" % (body.def_, o["promoted"]))
                if pb is not None:
                    return self.local(pb, 0, depth + 1)
                return ("unknown", "promoted")
            if "def" in o and "int" in o:
                return ("const", o["v"], int(o["int"]), o["ty"])
            if "def" in o:
                cb = self.facts.by_def.get(o["def"])
                if cb is not None and cb.kind.startswith(("Const", "AssocConst")):
                    return self.local(cb, 0, depth + 1)
                return ("constdef", canon(o["def"]))
            iv = int(o["int"]) if "int" in o else None
            return ("const", o["v"], iv, o["ty"])
        return ("unknown", "operand")

    def place(self, body, pl, depth=0):
        e = self.local(body, pl["l"], depth)
        projs = pl["p"]
        i = 0
        variant = ""
        while i < len(projs):
            p = projs[i]
            k = p["k"]
            if k == "deref":
                pass
            elif k == "downcast":
                variant = p["v"]
            elif k == "field":
                v = p.get("v") or variant
                e = self.project(e, p["n"], p.get("o", ""), v, p.get("t", ""))
                variant = ""
            elif k in ("index", "cindex", "subslice"):
                e = ("index", e)
            else:
                e = ("unknown", "proj")
            i += 1
        return e

    def project(self, e, fname, owner, variant, fty=""):
        """field-sensitive projection"""
        if e[0] == "agg":
            # variant must match for enums
            if e[2] and variant and e[2] != variant:
                return ("unknown", "variant-mismatch")
            for fn, fe in e[3]:
                if fn == fname:
                    return fe
            return ("field", fname, owner, variant, e)
        if e[0] == "phi":
            alts = tuple(self.project(a, fname, owner, variant, fty) for a in e[1])
            alts = tuple(a for a in alts if not (a[0] == "unknown" and a[1] == "variant-mismatch"))
            return mkphi(alts)
        if e[0] == "envupvar":
            # closure environment: resolve captured variable
            return self.upvar(e[1], fname)
        if e[0] == "call" and e[1] == "std::ops::FromResidual::from_residual" and variant in ("Ok", "Some"):
            return ("unknown", "variant-mismatch")       # the residual of `?` is an Err/None by construction
        return ("field", fname, owner, variant, e)

    def upvar(self, body, name):
        sites = self.facts.closure_sites.get(body.def_, [])
        if name not in body.upvars:
            return ("upvar", body.cdef, name)
        idx = body.upvars.index(name)
        alts = []
        for (pb, bi, si, ops, s) in sites:
            if idx < len(ops):
                alts.append(self.operand(pb, ops[idx], 1))
        if not alts:
            return ("upvar", body.cdef, name)
        return mkphi(tuple(alts))

    def local(self, body, l, depth=0):
        key = (body.def_, l)
        if key in self.memo:
            return self.memo[key]
        if key in self.stack or depth > MAXDEPTH:
            return ("cycle",)
        self.stack.add(key)
        try:
            e = self._local(body, l, depth)
        finally:
            self.stack.discard(key)
        if not contains_cycle(e):
            self.memo[key] = e
        else:
            # a value inside a loop refers to itself: the cut is kept once the work spent on it is large (in big spliced
            # bodies re-deriving every cyclic value at every use is exponential); ("cycle",) is an unknown leaf to the rules
            self._cyc_work[key] = self._cyc_work.get(key, 0) + 1
            if self._cyc_work[key] > 3:
                self.memo[key] = e
        return e

    def _local(self, body, l, depth):
        if 1 <= l <= body.arg_count:
            if l == 1 and body.kind == "Closure":
                return ("envupvar", body)
            # also may be re-assigned (rare); treat as param
            return ("param", body.cdef, l, body.local_name(l) or "")
        alts = []
        partial = []
        for (bi, si, proj, kind, payload, sp) in body.defs.get(l, []):
            if proj and not all(p["k"] == "deref" for p in proj):
                partial.append((bi, si, proj, kind, payload, sp))
                continue
            if kind == "rv":
                alts.append(self.rvalue(body, payload, (body.cdef, bi, loc(sp)), depth + 1))
            elif kind == "call":
                alts.append(self.call(body, bi, payload, depth + 1))
            elif kind == "resume":
                alts.append(("resume",))
        if partial and not alts:
            # built field by field (e.g. (_x.0 = a; _x.1 = b))
            fields = {}
            for (bi, si, proj, kind, payload, sp) in partial:
                fp = [p for p in proj if p["k"] == "field"]
                if len(fp) == 1 and kind == "rv":
                    fields.setdefault(fp[0]["n"], []).append(self.rvalue(body, payload, (body.cdef, bi, loc(sp)), depth + 1))
            if fields:
                return ("agg", "partial", "", tuple((k, mkphi(tuple(v))) for k, v in fields.items()), (body.cdef, -1, ""))
        if not alts:
            return ("unknown", "nodef:%s:_%d" % (body.cdef, l))
        if len(alts) == 2 and not partial:
            r = self._as_combinator(body, l, depth)
            if r is not None:
                return r
        return mkphi(tuple(alts))

    def _as_combinator(self, body, l, depth):
        """a local assigned on the two arms of `match s { V(x) => x, _ => d }` is `s.unwrap_or(d)`; assigned
        `Some(f(x))` / `None` it is `s.map(f)`: one canonical expression for the match form and the combinator form
        (the combinator calls themselves are expanded to the match form when the facts are loaded)"""
        import lib
        ds = [d for d in body.defs.get(l, []) if not (d[2] and not all(p["k"] == "deref" for p in d[2]))]
        if len(ds) != 2:
            return None

        def payload_of(op):
            """(subject local, variant) if operand is `(S as V).0`"""
            if op.get("k") not in ("copy", "move"):
                return None
            ro = lib.root_operand(body, op)
            if ro.get("k") not in ("copy", "move"):
                return None
            pr = [p for p in ro["pl"]["p"] if p["k"] != "deref"]
            if len(pr) == 2 and pr[0]["k"] == "downcast" and pr[1]["k"] == "field" and pr[1]["n"] == "0" and pr[0]["v"] in ("Some", "Ok"):
                return ro["pl"]["l"], pr[0]["v"]
            return None

        def arm_facts(bb):
            out = {}
            for c, truth in lib.dominating_conditions(body, bb):
                if c.kind == "enum" and c.place is not None and not [p for p in c.place["p"] if p["k"] != "deref"] and isinstance(truth, tuple) and len(truth) == 1:
                    out[(c.place["l"], c.bb)] = truth[0]
            return out
        for i in (0, 1):
            a, b = ds[i], ds[1 - i]
            if a[3] != "rv":
                continue
            rv = a[4]
            fa, fb = arm_facts(a[0]), arm_facts(b[0])
            # unwrap_or
            if rv["k"] == "use":
                pv = payload_of(rv["op"])
                if pv is not None:
                    S, V = pv
                    other = {"Some": "None", "Ok": "Err"}[V]
                    for (sl, sbb), tv in fa.items():
                        if sl == S and tv == V and fb.get((sl, sbb)) == other:
                            if b[3] == "rv":
                                d = self.rvalue(body, b[4], (body.cdef, b[0], loc(b[5])), depth + 1)
                            elif b[3] == "call":
                                d = self.call(body, b[0], b[4], depth + 1)
                            else:
                                return None
                            name = "std::option::Option::unwrap_or" if V == "Some" else "std::result::Result::unwrap_or"
                            se = self.local(body, S, depth + 1)
                            if se[0] == "agg" and se[2] == other:
                                return d                      # the subject is known to be the other variant
                            if se[0] == "agg" and se[2] == V and se[3]:
                                return se[3][0][1]
                            return ("call", name, (se, d), (body.cdef, sbb, loc(body.term(sbb)["sp"])), SyntheticCall(name, body, sbb))
            # map(f): Some(f(x)) | None
            if rv["k"] == "agg" and rv.get("ak") == "adt" and rv.get("variant") == "Some" and canon(rv.get("adt") or "") == "std::option::Option" and rv["ops"] \
                    and b[3] == "rv" and b[4]["k"] == "agg" and b[4].get("variant") == "None":
                d0 = lib.def_rvalue(body, rv["ops"][0])
                if d0 is not None and d0[0] == "call" and len(d0[1].args) == 1 and not d0[1].indirect:
                    pv = payload_of(d0[1].args[0])
                    if pv is not None and pv[1] == "Some":
                        S = pv[0]
                        for (sl, sbb), tv in fa.items():
                            if sl == S and tv == "Some" and fb.get((sl, sbb)) == "None":
                                name = "std::option::Option::map"
                                return ("call", name, (self.local(body, S, depth + 1), ("fnitem", d0[1].name)), (body.cdef, sbb, loc(body.term(sbb)["sp"])), SyntheticCall(name, body, sbb))
        return None

    def rvalue(self, body, rv, site, depth):
        k = rv["k"]
        if k == "use":
            return self.operand(body, rv["op"], depth)
        if k in ("ref", "rawptr"):
            return self.place(body, rv["pl"], depth)
        if k == "discr":
            return ("discr", self.place(body, rv["pl"], depth))
        if k == "agg":
            ak = rv["ak"]
            if ak == "adt":
                fs = tuple((f, self.operand(body, o, depth)) for f, o in zip(rv["fields"], rv["ops"]))
                return ("agg", canon(rv["adt"]), rv["variant"], fs, site)
            if ak in ("tuple", "array"):
                fs = tuple((str(i), self.operand(body, o, depth)) for i, o in enumerate(rv["ops"]))
                return ("agg", ak, "", fs, site)
            cb = self.facts.by_def.get(rv.get("def"))
            names = cb.upvars if cb is not None else []
            fs = tuple((names[i] if i < len(names) else str(i), self.operand(body, o, depth)) for i, o in enumerate(rv["ops"]))
            return ("agg", "closure:" + canon(rv.get("def", "?")), "", fs, site)
        if k == "bin":
            return ("bin", rv["op"], self.operand(body, rv["a"], depth), self.operand(body, rv["b"], depth), site)
        if k == "un":
            return ("un", rv["op"], self.operand(body, rv["a"], depth))
        if k == "cast":
            return ("cast", rv["ck"], rv["from"], rv["to"], self.operand(body, rv["op"], depth))
        if k == "repeat":
            return ("agg", "repeat", "", (("0", self.operand(body, rv["op"], depth)),), site)
        return ("unknown", "rvalue:" + k)

    def call(self, body, bi, t, depth):
        c = Call(body, bi, t)
        args = tuple(self.operand(body, a, depth) for a in c.args)
        name = c.name
        # a trait-method call that resolves to an impl in this crate is named by that impl: it must not be
        # mistaken for the (transparent) std trait method of the same name (Into::into, From::from, Clone::clone ..)
        if c.resolved and c.resolved in self.facts.by_cdef and name in TRANSPARENT_CALLS and not lib_derived(self.facts.by_cdef[c.resolved]):
            name = c.resolved
        elif name == "std::convert::Into::into":
            # x.into() through the blanket impl: if the crate has `impl From<T> for U`, that is what runs
            m = re.match(r"^<(.+) as std::convert::Into<(.+)>>::into$", c.full)
            if m:
                cand = "<%s as std::convert::From<%s>>::from" % (m.group(2), m.group(1))
                if cand in self.facts.by_cdef and not lib_derived(self.facts.by_cdef[cand]):
                    name = cand
                    c.resolved = cand
        acc = self._accessor(c.resolved or name)
        if acc is not None and len(args) == 1 and depth < MAXDEPTH - 5:
            # `x.payment_hash()` where `fn payment_hash(&self) -> &Hash { self.invoice.payment_hash() }`: the call is
            # the expression it returns (straight-line one-parameter accessors only)
            return _subst_param1(acc[1], acc[0].cdef, args[0])
        return ("call", name, args, (body.cdef, bi, c.loc), c)

    def _accessor(self, name):
        """(body, return expression) if `name` is a local straight-line accessor: one parameter, no branch, at most one
        call and that call not to a local function; None otherwise"""
        memo = self.__dict__.setdefault("_acc", {})
        if name in memo:
            return memo[name]
        memo[name] = None
        b = self.facts.by_cdef.get(name)
        if b is None or b.kind not in ("Fn", "AssocFn") or b.arg_count != 1 or lib_derived(b) or "src/cln_plugin/" in b.span.get("f", "") or name.startswith("<"):
            return None
        fi = self.facts.fns.get(name)
        if fi and fi.get("async"):
            return None
        if any(b.blocks[i]["t"]["k"] in ("switch", "yield") for i in b.reachable):
            return None
        calls = [c for c in b.calls if c.bb in b.reachable and not c.noise and c.name not in TRANSPARENT_CALLS]
        if len(calls) > 1 or any((c.resolved or c.name) in self.facts.by_cdef for c in calls):
            return None
        r = strip(self.local(b, 0, 1))
        if not any(x[0] == "param" and x[1] == b.cdef for x in walk(r)):
            return None
        memo[name] = (b, r)
        return memo[name]


def _subst_param1(e, cdef, arg, _d=0):
    if not isinstance(e, tuple) or not e or _d > 80:
        return e
    h = e[0]
    if h == "param" and e[1] == cdef and e[2] == 1:
        return arg
    if h == "call":
        return ("call", e[1], tuple(_subst_param1(a, cdef, arg, _d + 1) for a in e[2]), e[3], e[4])
    if h == "field":
        return ("field", e[1], e[2], e[3], _subst_param1(e[4], cdef, arg, _d + 1))
    if h == "phi":
        return mkphi(tuple(_subst_param1(a, cdef, arg, _d + 1) for a in e[1]))
    if h == "agg":
        return ("agg", e[1], e[2], tuple((f, _subst_param1(x, cdef, arg, _d + 1)) for f, x in e[3]), e[4])
    if h == "bin":
        return ("bin", e[1], _subst_param1(e[2], cdef, arg, _d + 1), _subst_param1(e[3], cdef, arg, _d + 1), e[4])
    if h == "un":
        return ("un", e[1], _subst_param1(e[2], cdef, arg, _d + 1))
    if h == "cast":
        return ("cast", e[1], e[2], e[3], _subst_param1(e[4], cdef, arg, _d + 1))
    if h in ("discr", "index", "await", "try"):
        return (h, _subst_param1(e[1], cdef, arg, _d + 1))
    return e


class SyntheticCall:
    """stands for the Call object of an expression node that was reconstructed from a match"""
    resolved = None
    indirect = False
    noise = False
    trait = None
    mname = None
    self_ty = None
    args = ()

    def __init__(self, name, body, bb):
        self.name = name
        self.full = name
        self.body = body
        self.bb = bb
        self.t = {"rty": "?", "sp": body.term(bb)["sp"], "args": []}
        self.fn = {"def": name}
        self.sp = body.term(bb)["sp"]
        self.loc = loc(self.sp)
        self.dest = None
        self.target = None

    def is_trait_method(self, *a):
        return False


def lib_derived(body):
    """body generated by #[derive(..)] (e.g. derived Clone): behaves like the std method"""
    return derive_generated(body.span)


def mkphi(alts):
    alts = tuple(alts)
    if len(alts) > 1:
        keep = tuple(a for a in alts if not (a[0] == "unknown" and a[1] == "variant-mismatch"))
        if keep:
            alts = keep
    flat = []
    for a in alts:
        if a[0] == "phi":
            for x in a[1]:
                if x not in flat:
                    flat.append(x)
        elif a not in flat:
            flat.append(a)
    if len(flat) == 1:
        return flat[0]
    if not flat:
        return ("unknown", "empty-phi")
    return ("phi", tuple(flat))


def contains_cycle(e, _d=0):
    if not isinstance(e, tuple) or _d > 200:
        return False
    if e and e[0] == "cycle":
        return True
    for x in e:
        if isinstance(x, tuple) and contains_cycle(x, _d + 1):
            return True
    return False


# ---------------------------------------------------------------------------- expression utilities
TRANSPARENT_CALLS = {
    "std::clone::Clone::clone", "std::borrow::ToOwned::to_owned", "std::ops::Deref::deref",
    "std::ops::DerefMut::deref_mut", "std::convert::Into::into", "std::convert::From::from",
    "std::convert::AsRef::as_ref", "std::convert::AsMut::as_mut", "std::borrow::Borrow::borrow",
    "std::future::IntoFuture::into_future", "std::pin::Pin::new_unchecked", "std::pin::Pin::new",
    "std::boxed::Box::new", "std::boxed::Box::pin", "std::sync::Arc::new", "std::sync::Arc::clone",
    "std::slice::<impl [T]>::to_vec", "std::vec::Vec::as_slice", "std::string::String::as_str",
    "std::pin::Pin::as_mut", "std::pin::Pin::get_mut", "std::pin::Pin::get_unchecked_mut",
    "std::pin::Pin::map_unchecked_mut", "tracing::Instrument::instrument", "std::iter::IntoIterator::into_iter",
    "std::mem::take", "std::convert::identity",
}


def strip(e, transparent=TRANSPARENT_CALLS, _d=0):
    """remove transparent wrappers (clone/deref/into_future/pin/box/..), fold the await idiom:
    (Future::poll(x,..) as Ready).0  ->  ("await", x)"""
    if _d > 80 or not isinstance(e, tuple) or not e:
        return e
    h = e[0]
    if h == "call":
        name = e[1]
        if name in transparent and e[2]:
            return strip(e[2][0], transparent, _d + 1)
        return ("call", name, tuple(strip(a, transparent, _d + 1) for a in e[2]), e[3], e[4])
    if h == "field":
        inner = strip(e[4], transparent, _d + 1)
        if e[1] == "0" and e[3] == "Ready":
            # await idiom
            alts = inner[1] if inner[0] == "phi" else (inner,)
            outs = []
            for a in alts:
                if a[0] == "call" and a[1].endswith("Future::poll") and a[2]:
                    outs.append(("await", a[2][0]))
                else:
                    outs.append(("field", e[1], e[2], e[3], a))
            return mkphi(tuple(outs))
        if e[1] == "0" and e[3] == "Continue":
            # `?` idiom: (Try::branch(x) as Continue).0  ->  ("try", x)
            als = inner[1] if inner[0] == "phi" else (inner,)
            outs = []
            for a in als:
                if a[0] == "call" and a[1] == "std::ops::Try::branch" and a[2]:
                    # `x?` where x is built as Ok(p)/Some(p) | Err(..)/None: the value is p
                    xs = a[2][0]
                    xal = xs[1] if xs[0] == "phi" else (xs,)
                    def residual(y):
                        return y[0] == "call" and y[1] == "std::ops::FromResidual::from_residual"   # an Err/None by construction
                    if all((y[0] == "agg" and y[2] in ("Ok", "Some", "Err", "None")) or residual(y) for y in xal) and not all(residual(y) for y in xal):
                        for y in xal:
                            if not residual(y) and y[2] in ("Ok", "Some") and y[3]:
                                outs.append(y[3][0][1])
                        if not any((not residual(y)) and y[2] in ("Ok", "Some") for y in xal):
                            outs.append(("unknown", "variant-mismatch"))
                    else:
                        outs.append(("try", xs))
                else:
                    outs.append(("field", e[1], e[2], e[3], a))
            return mkphi(tuple(outs))
        if inner[0] == "agg":
            for fn, fe in inner[3]:
                if fn == e[1] and (not inner[2] or not e[3] or inner[2] == e[3]):
                    return fe
        return ("field", e[1], e[2], e[3], inner)
    if h == "phi":
        return mkphi(tuple(strip(a, transparent, _d + 1) for a in e[1]))
    if h == "agg":
        return ("agg", e[1], e[2], tuple((f, strip(x, transparent, _d + 1)) for f, x in e[3]), e[4])
    if h == "bin":
        return ("bin", e[1], strip(e[2], transparent, _d + 1), strip(e[3], transparent, _d + 1), e[4])
    if h == "un":
        return ("un", e[1], strip(e[2], transparent, _d + 1))
    if h == "cast":
        return ("cast", e[1], e[2], e[3], strip(e[4], transparent, _d + 1))
    if h == "discr":
        return ("discr", strip(e[1], transparent, _d + 1))
    if h == "index":
        return ("index", strip(e[1], transparent, _d + 1))
    if h in ("await", "try"):
        return (h, strip(e[1], transparent, _d + 1))
    return e


def alts(e):
    return e[1] if e and e[0] == "phi" else (e,)


def walk(e, _d=0):
    """pre-order iterator over sub-expressions"""
    if not isinstance(e, tuple) or not e or _d > 120:
        return
    yield e
    h = e[0]
    if h == "call":
        for a in e[2]:
            yield from walk(a, _d + 1)
    elif h == "field":
        yield from walk(e[4], _d + 1)
    elif h == "phi":
        for a in e[1]:
            yield from walk(a, _d + 1)
    elif h == "agg":
        for _f, x in e[3]:
            yield from walk(x, _d + 1)
    elif h == "bin":
        yield from walk(e[2], _d + 1)
        yield from walk(e[3], _d + 1)
    elif h in ("un",):
        yield from walk(e[2], _d + 1)
    elif h == "cast":
        yield from walk(e[4], _d + 1)
    elif h in ("discr", "index", "await", "try"):
        yield from walk(e[1], _d + 1)


def show(e, _d=0):
    """compact human-readable rendering"""
    if not isinstance(e, tuple) or not e:
        return str(e)
    if _d > 12:
        return "..."
    h = e[0]
    if h == "const":
        return e[1]
    if h == "constdef":
        return "const<%s>" % e[1]
    if h == "fnitem":
        return "fn<%s>" % e[1]
    if h == "param":
        return "param:%s" % (e[3] or e[2])
    if h == "upvar":
        return "upvar:%s" % e[2]
    if h == "envupvar":
        return "env"
    if h == "field":
        v = ("as %s " % e[3]) if e[3] and e[3] not in ("", ) and e[2] and False else ""
        return "%s%s.%s" % (v, show(e[4], _d + 1), e[1] if not e[3] else "%s::%s" % (e[3], e[1]))
    if h == "index":
        return "%s[]" % show(e[1], _d + 1)
    if h == "agg":
        return "%s%s{%s}" % (e[1].split("::")[-1], ("::" + e[2]) if e[2] else "", ", ".join("%s:%s" % (f, show(x, _d + 1)) for f, x in e[3]))
    if h == "bin":
        return "%s(%s, %s)" % (e[1], show(e[2], _d + 1), show(e[3], _d + 1))
    if h == "un":
        return "%s(%s)" % (e[1], show(e[2], _d + 1))
    if h == "cast":
        return "(%s as %s)" % (show(e[4], _d + 1), e[3])
    if h == "discr":
        return "discr(%s)" % show(e[1], _d + 1)
    if h == "await":
        return "await(%s)" % show(e[1], _d + 1)
    if h == "try":
        return "%s?" % show(e[1], _d + 1)
    if h == "call":
        return "%s(%s)" % (short(e[1]), ", ".join(show(a, _d + 1) for a in e[2]))
    if h == "phi":
        return "phi[%s]" % " | ".join(show(a, _d + 1) for a in e[1])
    return "<%s>" % "/".join(str(x) for x in e[:2])


def short(name):
    if name is None:
        return "?"
    parts = name.split("::")
    return "::".join(parts[-2:]) if len(parts) > 2 else name
