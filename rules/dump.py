#!/usr/bin/env python3
"""Pretty printer for fact files (development aid; not a check)."""
import json, sys, re

def pl(p):
    s = "_%d" % p["l"]
    for e in p["p"]:
        k = e["k"]
        if k == "deref": s = "(*%s)" % s
        elif k == "field": s = "%s.%s" % (s, e["n"])
        elif k == "downcast": s = "(%s as %s)" % (s, e["v"])
        elif k == "index": s = "%s[_%d]" % (s, e["l"])
        else: s = "%s[%s]" % (s, k)
    return s

def op(o):
    k = o["k"]
    if k in ("copy", "move"): return ("" if k == "copy" else "move ") + pl(o["pl"])
    if k == "const":
        if "fn" in o: return "fn<%s>" % o["fn"]["full"]
        if "def" in o: return "const<%s>" % o["def"]
        return o["v"]
    return str(o)

def rv(r):
    k = r["k"]
    if k == "use": return op(r["op"])
    if k == "ref": return ("&mut " if r["mut"] else "&") + pl(r["pl"])
    if k == "discr": return "discr(%s : %s)" % (pl(r["pl"]), r["ty"])
    if k == "agg":
        ak = r["ak"]
        if ak == "adt":
            return "%s::%s{%s}" % (r["adt"], r["variant"], ", ".join("%s: %s" % (f, op(o)) for f, o in zip(r["fields"], r["ops"])))
        return "%s%s[%s]" % (ak, " " + r.get("def", ""), ", ".join(op(o) for o in r["ops"]))
    if k == "bin": return "%s(%s, %s)" % (r["op"], op(r["a"]), op(r["b"]))
    if k == "un": return "%s(%s)" % (r["op"], op(r["a"]))
    if k == "cast": return "cast<%s>(%s: %s -> %s)" % (r["ck"], op(r["op"]), r["from"], r["to"])
    return str(r)[:200]

def spn(sp):
    s = "L%d" % sp["l"]
    if sp.get("exp"): s += "x"
    if sp.get("dk"): s += "[" + sp["dk"] + "]"
    if sp.get("mac"): s += "{" + sp["mac"][-1].split(":")[-1] + "}"
    return s

def is_noise(sp):
    mac = sp.get("mac")
    if not mac: return False
    root = mac[-1].split(":")[-1]
    return root in ("trace", "debug", "info", "warn", "error", "event", "span", "instrument")

def dump(b, noise=False):
    print("BODY %s kind=%s coroutine=%s upvars=%s args=%d" % (b["def"], b["kind"], b["coroutine"], b["upvars"], b["arg_count"]))
    for i, l in enumerate(b["locals"]):
        if l.get("n") or i <= b["arg_count"]:
            print("   _%d: %s %s" % (i, l["ty"][:150], l.get("n", "")))
    for i, blk in enumerate(b["blocks"]):
        if blk.get("cleanup"): continue
        t = blk["t"]
        lines = []
        for s in blk["s"]:
            if s["k"] == "assign":
                if not noise and is_noise(s["sp"]): continue
                lines.append("  bb%d  %s = %s   %s" % (i, pl(s["lhs"]), rv(s["rv"]), spn(s["sp"])))
        k = t["k"]
        n = (not noise) and is_noise(t["sp"])
        if k == "call":
            f = t["fn"]
            name = f.get("full") or "<indirect %s>" % op(f["indirect"])
            extra = ""
            if "resolved" in f: extra = " =>" + f["resolved"]
            ts = "CALL %s = %s(%s)%s -> %s" % (pl(t["dest"]), name, ", ".join(op(a) for a in t["args"]), extra, t["t"])
        elif k == "switch":
            ts = "SWITCH %s [%s] else %s" % (op(t["op"]), ", ".join("%s:bb%d" % (a, b2) for a, b2 in t["arms"]), t["otherwise"])
        elif k == "goto": ts = "GOTO bb%d" % t["t"]
        elif k == "drop": ts = "DROP %s -> bb%d" % (pl(t["pl"]), t["t"])
        elif k == "assert": ts = "ASSERT %s -> bb%d" % (t["msg"], t["t"])
        elif k == "yield": ts = "YIELD -> bb%d" % t["t"]
        elif k == "false_edge": ts = "FALSE_EDGE bb%d imag bb%d" % (t["t"], t["imag"])
        elif k == "false_unwind": ts = "FALSE_UNWIND bb%d" % t["t"]
        else: ts = k.upper()
        if n and k in ("call", "switch", "goto", "drop", "false_edge") and not lines:
            print("  bb%d  ~ %s" % (i, ts[:60] if k != "call" else "call(noise) -> %s" % t["t"]))
            continue
        for l in lines: print(l)
        print("  bb%d  %s   %s" % (i, ts, spn(t["sp"])))

if __name__ == "__main__":
    f = json.load(open(sys.argv[1]))
    pat = re.compile(sys.argv[2])
    for b in f["bodies"]:
        if pat.search(b["def"]):
            dump(b, noise=len(sys.argv) > 3)
            print()
