H = "src/htlc_manager.rs"
S = "src/store.rs"
MUTANTS = [
    {"name": "pending-mark-failed-before-wait", "control": True, "expect": ["C02-S2", "C02-S4"],
     "edits": [(H, "            match params\n                .payment_provider\n                .wait_payment(*trampoline.invoice.payment_hash())\n                .await\n            {", "            let _ = params.store.mark_failed(&trampoline, &attempt_id).await;\n            match params\n                .payment_provider\n                .wait_payment(*trampoline.invoice.payment_hash())\n                .await\n            {")]},
    {"name": "wait-error-fails-htlcs", "control": True, "expect": ["C02-S3"],
     "edits": [(H, "                    todo!(\"Failed to await pending payment, but cannot resolve yet, because it's pending.\");", "                    resolve(&payments, &trampoline, HtlcAcceptedResponse::temporary_node_failure()).await;\n                    return;")]},
    {"name": "fail-recv-raced-with-pay", "control": True, "expect": ["C02-S5"],
     "edits": [(H, "    let pay_result = params\n        .payment_provider\n        .pay(PaymentRequest {\n            bolt11: trampoline.bolt11.clone(),\n            payment_hash: *trampoline.invoice.payment_hash(),\n            amount_msat,\n            max_fee_msat,\n            max_cltv_delta,\n        })\n        .await;", "    let pay_result = tokio::select! {\n        r = params.payment_provider.pay(PaymentRequest {\n            bolt11: trampoline.bolt11.clone(),\n            payment_hash: *trampoline.invoice.payment_hash(),\n            amount_msat,\n            max_fee_msat,\n            max_cltv_delta,\n        }) => r,\n        f = fail_requested.recv() => {\n            resolve(&payments, &trampoline, f.unwrap_or(HtlcAcceptedResponse::temporary_node_failure())).await;\n            return;\n        }\n    };")]},
    {"name": "mark-failed-result-unchecked", "expect": ["C02-S4"],
     "edits": [(H, "                    match params.store.mark_failed(&trampoline, &attempt_id).await {\n                        Ok(_) => {}\n                        Err(e) => {\n                            error!(\"Failed to mark payment as failed: {:?}\", e);\n                            resolve(\n                                &payments,\n                                &trampoline,\n                                HtlcAcceptedResponse::temporary_node_failure(),\n                            )\n                            .await;\n                            return;\n                        }\n                    }", "                    if let Err(e) = params.store.mark_failed(&trampoline, &attempt_id).await {\n                        error!(\"Failed to mark payment as failed: {:?}\", e);\n                    }")]},
    {"name": "free-generation-none", "expect": ["C02-S7"],
     "edits": [(S, "generation: Some(attempt_id.state_generation),", "generation: None,")]},
    {"name": "generation-constant-zero", "expect": ["C02-S7"],
     "edits": [(S, "            state_generation: state_generation.unwrap_or(0),", "            state_generation: { let _ = state_generation; 0 },")]},
    {"name": "fail-after-pay-ok-on-store-error", "expect": ["C02"],
     "edits": [(H, "                error!(\"Failed to mark payment as succeeded: {:?}\", e);\n            }\n        }\n        Err(e) => {\n            debug!(\"Payment failed: {:?}\", e);", "                error!(\"Failed to mark payment as succeeded: {:?}\", e);\n                let _ = params.store.mark_failed(&trampoline, &attempt_id).await;\n            }\n        }\n        Err(e) => {\n            debug!(\"Payment failed: {:?}\", e);")]},
    {"name": "wait-before-fetch-skipped-on-free-but-pay-in-pending", "expect": ["C02", "C05"],
     "edits": [(H, "                    trace!(\"pending payment resolved without preimage\");", "                    trace!(\"pending payment resolved without preimage\");\n                    if attempt_time_seconds == 1 { let _ = params.payment_provider.pay(PaymentRequest { bolt11: trampoline.bolt11.clone(), payment_hash: *trampoline.invoice.payment_hash(), amount_msat: None, max_fee_msat: 0, max_cltv_delta: 0 }).await; }")]},
]

from mutants_common import EQUIV_LC as EQUIV
