"""C05 - one live attempt per hash; a paid invoice is never paid again (DESIGN 5/C05)."""
import rules_lc as R

EXPLANATION = (
    "Decides on the lifecycle coroutine's CFG: (A1) a stored Succeeded state reaches exactly one answer, a Resolve with the "
    "stored preimage, and can reach neither pay nor any store write; (A2) from a stored Pending state pay/add_payment_attempt "
    "are reachable only through wait_payment==Ok(None) and mark_failed==Ok, and a found preimage settles and never pays; "
    "(A3) the lifecycle function is referenced once, inside the closure given to Entry::or_insert_with on the payments table "
    "(vacant entry, lock held), spawned as its own task, with a single pay site outside any loop; (A4) pay only through "
    "add_payment_attempt==Ok; (A5) every lifecycle path answers exactly once, so the table entry (mutual exclusion) lives "
    "from spawn to answer; (A6) the provider clauses the restart path relies on: wait_payment reports none only after every listed pending part was "
    "waited for (C15-V1..V5) and pay reports failure only when final (C16-D); (A7) the Free marker is written only generation-guarded, so a superseded attempt cannot erase a newer in-flight marker (C02-S7); (A9) a stored Succeeded/Pending record reads back as that variant - fetch mapping, entry selection, record round-trip (C08-W4, cited). Overlap of two lifecycles after the answer is not enumerated."
)
ASSUMPTIONS = ["C15/C16: the provider re-checks the node before reporting failure", "tokio::sync::Mutex provides mutual exclusion on the payments table"]


def run(F, X, rep):
    C = R.Ctx.get(F, X)
    if not R.need_lc(C, rep, "C05-A1"):
        return
    R.a1_succeeded_short_circuit(C, rep, "C05-A1")
    R.a2_pending_pay_only_after_none(C, rep, "C05-A2")
    R.a3_one_lifecycle_per_entry(C, rep, "C05-A3")
    # "per hash": the table that gives one lifecycle at a time is keyed by the invoice's payment hash
    import rules_ext as E5
    E5.k_key_is_invoice_hash(C, rep, "C05-A8")
    import rules_hh as H3
    if H3.need_hh(C, rep, "C05-A3"):
        # ... and stays the only one: the table entry is removed only by that lifecycle's final answer
        H3.p3_answer_reaches_everyone(C, rep, "C05-A3")
    R.w1_intent_before_pay(C, rep, "C05-A4")
    R.p2_exactly_one_answer(C, rep, "C05-A5")
    # A6: the provider side of "nothing pending or complete" (restart path re-checks the node)
    import rules_provider as P
    P.v_wait_payment(C, rep, "C05-A6")
    P.d_dispatch(C, rep, "C05-A6")
    import rules_hh as H
    if H.need_hh(C, rep, "C05-A3"):
        H.p4b_answer_only_via_lifecycle(C, rep, "C05-A3")
    # A7: a late mark_failed of a superseded attempt must not erase the newer attempt's in-flight marker (after a crash the
    # hash would look Free and be paid again): the Free write is generation-guarded (C02-S7)
    import rules_store as S
    S.s7_generation_guard(C, rep, "C05-A7")
    # A9: A1/A2 start from what fetch_payment_info reports: a stored Succeeded/Pending record must read back as that variant (C08-W4 and
    # the record round-trip, cited) - a record that reads back as Free is paid again
    S.w4_fetch_mapping(C, rep, "C05-A9")
    S.rt_records_roundtrip(C, rep, "C05-A9")
