"""Clauses about the payment lifecycle coroutine (LC).  Each function takes the rule id to report
under, so several properties can cite the same clause."""
import re
import names as NM
from mir import Call, canon, loc, strip, walk, alts, show
import lib
import model_lc as ml
import model_msgs as mm


class Ctx:
    """lazily built shared context for one facts file"""
    _cache = {}

    def __init__(self, F, X):
        self.F = F
        self.X = X
        self.A = ml.resolve_anchors(F, X)
        self.L = ml.lifecycle(F, X, self.A) if self.A.lc is not None else None
        self.enc_body, self.enc_table = mm.encode_table(F, X)

    @classmethod
    def get(cls, F, X):
        k = id(F)
        if k not in cls._cache:
            cls._cache.clear()
            cls._cache[k] = Ctx(F, X)
        return cls._cache[k]


def need_lc(C, rep, rid):
    ok = rep.anchor(rid, "lifecycle coroutine (the one calling Datastore::fetch_payment_info)", len(C.A.lc_candidates), 1)
    if len(C.A.lc_candidates) > 1:
        rep.ob(rid, False, "-", "anchor:unique lifecycle", detail="anchor-ambiguous: %d coroutines call fetch_payment_info" % len(C.A.lc_candidates))
        return False
    return ok and C.L is not None


def floors(C, rep, rid, **kw):
    """anchor floors: name -> minimum count of event sites in LC"""
    L = C.L
    ok = True
    for k, n in kw.items():
        ok = rep.anchor(rid, "LC %s site(s)" % k, len(getattr(L, k)), n, fn=L.fn) and ok
    return ok


def ready_block(b, c):
    """block reached when the awaited call c completed (Ready edge of its poll), or c.target for sync calls"""
    aw = lib.await_of_call(b, c)
    if aw and aw["ready"] is not None:
        return aw["ready"]
    return c.target


def dom_enum_facts(b, X, bb):
    """[(expr, variants)] for enum switches forced on every path to bb"""
    return lib.variant_facts(b, X, bb)


def is_await_of(e, call):
    for a in alts(e):
        x = a
        if x[0] == "await":
            x = x[1]
        if not (x[0] == "call" and x[3][1] == call.bb):
            return False
    return True


def is_ok_payload_of(e, call):
    for a in alts(e):
        if a[0] == "try":
            if not is_await_of(a[1], call):
                return False
            continue
        if not (a[0] == "field" and a[3] == "Ok" and is_await_of(a[4], call)):
            return False
    return True


def guarded_by_result(b, X, bb, call, variant):
    """every path to bb goes through the `variant` arm of the match on call's awaited result"""
    for e, truth, c in dom_enum_facts(b, X, bb):
        if is_await_of(e, call) and truth == (variant,):
            return True
    return False


def guarded_by_ok_payload(b, X, bb, call, variant):
    for e, truth, c in dom_enum_facts(b, X, bb):
        if is_ok_payload_of(e, call) and truth == (variant,):
            return True
    return False


def answers_info(C):
    """[(call, [response alternatives])]"""
    L = C.L
    out = []
    for c in L.answers:
        e = ml.response_arg(C.F, C.X, L.body, c)
        out.append((c, mm.eval_response(C.F, C.X, e, C.enc_table), e))
    return out


def answers_on_arm(C, sel, tg):
    """[(call, [response alternatives], expr)] for the answers reachable from the select arm entered at block tg.  A
    response built in several arms and handed to one shared answer call after they join
    (`let outcome = select! { .. => Fail(a), .. => Fail(b) }; if let Fail(r) = outcome { resolve(r) }`) is split by
    where each alternative is built: the arm gets the alternatives built on blocks only it can reach."""
    L = C.L
    b = L.body
    r = b.reach([tg])
    others = [t for t in sel.arms.values() if t != tg]
    other_reach = set()
    for t in others:
        other_reach |= b.reach([t])
    own = r - other_reach
    out = []
    for c in L.answers:
        if c.bb not in r:
            continue
        e = ml.response_arg(C.F, C.X, b, c)
        if c.bb in own or not c.args:
            out.append((c, mm.eval_response(C.F, C.X, e, C.enc_table), e))
            continue
        # shared answer: keep the alternatives made in this arm
        alts_ = mm.def_alternatives(C.F, C.X, b, c.args[-1])
        mine = [(x, wh) for x, _vf, _cf, wh in alts_ if wh and wh[0] == b.cdef and wh[1] in own]
        foreign = [(x, wh) for x, _vf, _cf, wh in alts_ if wh and wh[0] == b.cdef and wh[1] in other_reach and wh[1] not in r]
        if mine:
            resp = []
            for x, _wh in mine:
                resp += mm.eval_response(C.F, C.X, x, C.enc_table)
            out.append((c, resp, mine[0][0]))
        elif alts_ and len(foreign) == len(alts_):
            continue                       # nothing this arm hands to that call
        else:
            out.append((c, mm.eval_response(C.F, C.X, e, C.enc_table), e))
    return out


def blocks(calls):
    return {c.bb for c in calls}


# ============================================================================ C02
def s1_store_first(C, rep, rid):
    rep.rule(rid, "the stored state is fetched before any other effect of the lifecycle")
    L = C.L
    b = L.body
    if not floors(C, rep, rid, store_r=1):
        return
    s = L.store_r[0]
    others = L.wait + L.pay + L.store_w + L.answers + L.sleep + L.recv + L.lock + L.height + L.notify
    for c in others:
        ok = b.dominates(s.bb, c.bb) and c.bb != s.bb
        rep.ob(rid, ok, L.fn, "fetch dominates %s" % (c.mname or c.name.split("::")[-1]), where=c.loc, how="dominator tree",
               detail="" if ok else "%s at %s can run before the stored payment state was read" % (c.name, c.loc))
    ok = len(L.store_r) == 1
    rep.ob(rid, ok, L.fn, "single fetch", where=s.loc, how="1 site", detail="" if ok else "%d fetch sites" % len(L.store_r), nontrivial=False)


def s2_pending_waits_first(C, rep, rid):
    rep.rule(rid, "stored Pending => wait_payment is awaited before anything is answered, paid, written, slept on or received")
    L = C.L
    b = L.body
    if not floors(C, rep, rid, wait=1, store_r=1):
        return
    ss = L.state_switch
    rep.anchor(rid, "match on the fetched state", 1 if ss else 0, fn=L.fn)
    if not ss:
        return
    _bb, arms, _c = ss
    P = arms.get("Pending")
    rep.anchor(rid, "Pending arm", 1 if P is not None else 0, fn=L.fn)
    if P is None:
        return
    wb = blocks(L.wait)
    r = b.reach([P], removed_nodes=wb)
    ev = L.answers + L.pay + L.store_w + L.sleep + L.recv + L.lock + L.height
    for c in ev:
        ok = c.bb not in r
        rep.ob(rid, ok, L.fn, "no %s before wait on the Pending arm" % (c.mname or c.name.split("::")[-1]), where=c.loc,
               how="unreachable from arm(Pending) with the wait_payment call removed",
               detail="" if ok else "from a stored Pending state, %s at %s is reachable without first awaiting wait_payment" % (c.name, c.loc))
    rets = [x for x in b.returns() if x in r]
    rep.ob(rid, not rets, L.fn, "no return before wait on the Pending arm", where=loc(b.term(rets[0])["sp"]) if rets else L.wait[0].loc,
           how="no Return reachable without the wait", detail="" if not rets else "lifecycle can end from a Pending state without waiting for the outgoing payment")
    # the wait is actually awaited, and it is for this invoice's hash
    for w in L.wait:
        aw = lib.await_of_call(b, w)
        rep.ob(rid, aw is not None, L.fn, "wait_payment future is awaited", where=w.loc, how="into_future/poll loop found",
               detail="" if aw else "wait_payment future is created but not awaited")


def s3_wait_error_never_fails(C, rep, rid):
    rep.rule(rid, "an error of wait_payment while Pending never leads to a failure response (without waiting again)")
    L = C.L
    b = L.body
    if not floors(C, rep, rid, wait=1):
        return
    infos = answers_info(C)
    for w in L.wait:
        ar = ml.arms_of_result(b, C.X, w, L._sw)
        rep.anchor(rid, "match on the wait_payment result", 1 if ar else 0, fn=L.fn)
        if not ar:
            continue
        err = ar[1].get("Err")
        if err is None:
            rep.ob(rid, False, L.fn, "Err arm of wait_payment", where=w.loc, detail="anchor-missing: no Err arm")
            continue
        r = b.reach([err], removed_nodes=blocks(L.wait))
        for c, resp, _e in infos:
            if c.bb in r:
                fails = [x for x in resp if x[0] in ("Fail", "Opaque", "Continue")]
                ok = not fails
                rep.ob(rid, ok, L.fn, "answer after wait error", where=c.loc, how="settle only",
                       detail="" if ok else "after wait_payment failed while the stored state is Pending, the HTLCs are answered with %s at %s although the outgoing payment may still succeed" % (fails[0][0] + ":" + str(fails[0][1]), c.loc))
        bad = [c for c in L.pay + L.mark_failed + L.add_attempt if c.bb in r]
        rep.ob(rid, not bad, L.fn, "no pay / free-marking after wait error", where=bad[0].loc if bad else w.loc, how="unreachable from the Err arm",
               detail="" if not bad else "%s reachable after wait_payment failed" % bad[0].name)


def s4_mark_failed_guards(C, rep, rid):
    rep.rule(rid, "mark_failed only after wait_payment said Ok(None) or pay returned Err; the collect phase after a Pending state needs mark_failed -> Ok")
    L = C.L
    b = L.body
    if not floors(C, rep, rid, mark_failed=1):
        return
    for m in L.mark_failed:
        g1 = any(guarded_by_result(b, C.X, m.bb, w, "Ok") and guarded_by_ok_payload(b, C.X, m.bb, w, "None") for w in L.wait)
        g2 = any(guarded_by_result(b, C.X, m.bb, p, "Err") for p in L.pay)
        ok = g1 or g2
        rep.ob(rid, ok, L.fn, "mark_failed guard", where=m.loc, how="wait->Ok(None)" if g1 else ("pay->Err" if g2 else ""),
               detail="" if ok else "mark_failed at %s is not confined to `wait_payment == Ok(None)` or `pay == Err`: the Free marker can be written while a part may be live" % m.loc)
    # the attempt (id + generation) handed to mark_failed is this lifecycle's own: what add_payment_attempt returned on the
    # pay-error path, what the stored Pending record said on the recovery path - never a record re-read later (it may be a
    # newer lifecycle's, whose generation would make the guarded write succeed)
    for m in L.mark_failed:
        if len(m.args) < 3:
            continue
        e = strip(C.X.operand(b, m.args[2]))
        after_pay = any(m.bb in b.reach_after([p.bb]) for p in L.pay)
        fetches = [y for y in walk(e) if y[0] == "call" and y[1].endswith("Datastore::fetch_payment_info")]
        adds = [y for y in walk(e) if y[0] == "call" and y[1].endswith("Datastore::add_payment_attempt")]
        first_fetch = min((c.bb for c in L.store_r), default=None)
        if after_pay:
            okp = bool(adds) and not fetches
        else:
            okp = bool(fetches) and not adds and all(y[3][1] == first_fetch for y in fetches) if first_fetch is not None else bool(fetches) and not adds
        rep.ob(rid, okp, L.fn, "mark_failed is given this lifecycle's own attempt", where=m.loc, how="from add_payment_attempt's Ok" if after_pay else "from the stored Pending record read at the start",
               detail="" if okp else "mark_failed at %s is given %s: not the attempt this lifecycle registered / found at its start - a record re-read later may belong to a newer lifecycle, and its generation makes the Free write succeed over a live attempt" % (m.loc, show(e)[:100]))
    # Pending arm: select/pay only through mark_failed -> Ok
    ss = L.state_switch
    if not ss:
        return
    P = ss[1].get("Pending")
    if P is None:
        return
    firsts = [m for m in L.mark_failed if m.bb in b.reach([P], removed_nodes=blocks(L.pay))]
    for m in firsts:
        ar = ml.arms_of_result(b, C.X, m, L._sw)
        if not ar:
            rep.ob(rid, False, L.fn, "mark_failed result is matched", where=m.loc, detail="result of mark_failed on the recovery path is not checked")
            continue
        okarm = ar[1].get("Ok")
        r = b.reach([P], removed_nodes=[okarm] if okarm is not None else [])
        later = L.pay + L.add_attempt + L.sleep + L.recv
        bad = [c for c in later if c.bb in r]
        rep.ob(rid, not bad, L.fn, "collect/pay after Pending requires mark_failed -> Ok", where=m.loc,
               how="select and pay unreachable from arm(Pending) when the Ok arm is removed",
               detail="" if not bad else "after a stored Pending state, %s at %s is reachable although mark_failed did not succeed" % (bad[0].name, bad[0].loc))


def s5_fail_requests_prepay_only(C, rep, rid):
    rep.rule(rid, "fail requests are honoured only in the pre-payment select; between readiness and pay's return nothing is answered except on add_payment_attempt -> Err")
    L = C.L
    b = L.body
    if not floors(C, rep, rid, recv_fail=1, pay=1, add_attempt=1):
        return
    sel = _main_select(C)
    rep.anchor(rid, "select! with the ready-receiver operand", 1 if sel else 0, fn=L.fn)
    if not sel:
        return
    for r in L.recv_fail:
        ok = any(f is not None and f.bb == r.bb for f in sel.futures)
        rep.ob(rid, ok, L.fn, "fail-request recv is a select operand", where=r.loc, how="operand of the pre-payment select",
               detail="" if ok else "fail_requested.recv() at %s is awaited outside the pre-payment select" % r.loc)
        for p in L.pay:
            ok2 = r.bb not in b.reach_after([p.bb])
            rep.ob(rid, ok2, L.fn, "no fail-request recv after pay", where=r.loc, how="unreachable from the pay call",
                   detail="" if ok2 else "fail requests can be received after pay was issued")
    for a in L.add_attempt:
        ok = b.dominates(sel.switch_bb, a.bb)
        rep.ob(rid, ok, L.fn, "select dominates add_payment_attempt", where=a.loc, how="dominator tree",
               detail="" if ok else "add_payment_attempt can run without passing the pre-payment select")
    rd = ml.select_arm_of(sel, lambda f: f.name == "tokio::sync::mpsc::Receiver::recv" and "Receiver::<()>" in f.full)
    if not rd:
        rep.ob(rid, False, L.fn, "ready arm", detail="anchor-missing: ready arm of the select")
        return
    ready_tg = rd[1]
    after_ready = b.reach([ready_tg])
    for p in L.pay:
        pr = ready_block(b, p)
        after_pay = b.reach([pr]) if pr is not None else set()
        for ans in L.answers:
            if ans.bb in after_ready and ans.bb not in after_pay:
                g = any(guarded_by_result(b, C.X, ans.bb, a, "Err") for a in L.add_attempt)
                nopay = p.bb not in b.reach_after([ans.bb])
                ok = g and nopay
                rep.ob(rid, ok, L.fn, "answer between readiness and pay's return", where=ans.loc, how="only on add_payment_attempt -> Err, pay unreachable afterwards",
                       detail="" if ok else "HTLCs can be answered at %s after the set became ready and before pay returned (guarded by add_payment_attempt Err: %s; pay unreachable after: %s)" % (ans.loc, g, nopay))
        # nothing but the pay await between the pay call and its Ready edge: no select/race around pay
        aw = lib.await_of_call(b, p)
        rep.ob(rid, aw is not None, L.fn, "pay is awaited directly", where=p.loc, how=".await on the pay future (not a select!/join operand)",
               detail="" if aw else "the pay future is not awaited directly (raced or joined with something else)")


def _main_select(C):
    L = C.L
    for s in L.selects:
        if s.futures and any(f is not None and f.name == "tokio::sync::mpsc::Receiver::recv" and "Receiver::<()>" in f.full for f in s.futures):
            return s
    return None


def s6_after_pay(C, rep, rid):
    rep.rule(rid, "after pay returned: fail only on pay -> Err, settle only with pay's Ok payload")
    L = C.L
    b = L.body
    if not floors(C, rep, rid, pay=1, answers=2):
        return
    infos = answers_info(C)
    for p in L.pay:
        pr = ready_block(b, p)
        after = b.reach([pr]) if pr is not None else set()
        n = 0
        for c, resp, _e in infos:
            if c.bb not in after:
                continue
            n += 1
            for x in resp:
                if x[0] == "Resolve":
                    ok = guarded_by_result(b, C.X, c.bb, p, "Ok") and is_ok_payload_of(x[1], p)
                    rep.ob(rid, ok, L.fn, "settle after pay uses pay's preimage", where=c.loc, how="key = Ok payload of pay, on the Ok arm",
                           detail="" if ok else "after pay, HTLCs are settled at %s with %s" % (c.loc, show(x[1])[:100]))
                else:
                    ok = guarded_by_result(b, C.X, c.bb, p, "Err")
                    rep.ob(rid, ok, L.fn, "fail after pay only on pay -> Err", where=c.loc, how="dominated by the Err arm of pay's result",
                           detail="" if ok else "after pay was issued, HTLCs are answered with %s at %s on a path that is not pay's Err arm" % (x[0], c.loc))
        rep.anchor(rid, "answers after pay", n, 2, fn=L.fn)


# ============================================================================ C05
def a1_succeeded_short_circuit(C, rep, rid):
    rep.rule(rid, "stored Succeeded => settle with the stored preimage; no pay, no write")
    L = C.L
    b = L.body
    ss = L.state_switch
    rep.anchor(rid, "match on the fetched state", 1 if ss else 0, fn=L.fn)
    if not ss:
        return
    S = ss[1].get("Succeeded")
    rep.anchor(rid, "Succeeded arm", 1 if S is not None else 0, fn=L.fn)
    if S is None:
        return
    r = b.reach([S])
    bad = [c for c in L.pay + L.store_w + L.wait + L.sleep + L.recv if c.bb in r]
    rep.ob(rid, not bad, L.fn, "Succeeded arm has no pay/write/wait", where=bad[0].loc if bad else loc(b.term(S)["sp"]), how="unreachable from arm(Succeeded)",
           detail="" if not bad else "from a stored Succeeded state %s at %s is reachable" % (bad[0].name, bad[0].loc))
    infos = [(c, resp, e) for c, resp, e in answers_info(C) if c.bb in r]
    ok = len(infos) == 1
    rep.ob(rid, ok, L.fn, "exactly one answer on the Succeeded arm", where=infos[0][0].loc if infos else "", how="1 answer site",
           detail="" if ok else "%d answer sites reachable from arm(Succeeded)" % len(infos))
    for c, resp, e in infos:
        for x in resp:
            good = x[0] == "Resolve" and _is_stored_preimage(x[1], L)
            rep.ob(rid, good, L.fn, "Succeeded arm settles with the stored preimage", where=c.loc, how=show(x[1])[:80] if x[0] == "Resolve" else x[0],
                   detail="" if good else "stored Succeeded state is answered with %s %s" % (x[0], show(x[1])[:80] if len(x) > 1 and isinstance(x[1], tuple) else ""))


def _is_stored_preimage(e, L):
    for a in alts(e):
        if not (a[0] == "field" and a[1] == "preimage" and a[3] == "Succeeded" and is_ok_payload_of(a[4], L.store_r[0])):
            return False
    return True


def a2_pending_pay_only_after_none(C, rep, rid):
    rep.rule(rid, "from a stored Pending state pay is reachable only through wait -> Ok(None) and mark_failed -> Ok")
    L = C.L
    b = L.body
    if not floors(C, rep, rid, pay=1, wait=1, mark_failed=1):
        return
    ss = L.state_switch
    if not ss or ss[1].get("Pending") is None:
        rep.anchor(rid, "Pending arm", 0, fn=L.fn)
        return
    P = ss[1]["Pending"]
    w = L.wait[0]
    sw = ml.arms_of_place_switch(b, C.X, lambda e: is_ok_payload_of(e, w))
    rep.anchor(rid, "match on wait_payment's Ok payload (Some/None)", 1 if sw else 0, fn=L.fn)
    if not sw:
        return
    none_t = sw[1].get("None")
    some_t = sw[1].get("Some")
    for p in L.pay + L.add_attempt:
        ok = none_t is not None and p.bb not in b.reach([P], removed_nodes=[none_t])
        rep.ob(rid, ok, L.fn, "%s after Pending only via wait -> Ok(None)" % p.mname, where=p.loc, how="unreachable from arm(Pending) when the None arm is removed",
               detail="" if ok else "from a stored Pending state, %s is reachable without wait_payment having reported that no part is pending or complete" % p.mname)
    if some_t is not None:
        r = b.reach([some_t])
        bad = [c for c in L.pay + L.add_attempt + L.mark_failed if c.bb in r]
        rep.ob(rid, not bad, L.fn, "a found preimage never leads to a new attempt", where=bad[0].loc if bad else w.loc, how="pay unreachable from the Some arm",
               detail="" if not bad else "%s reachable although wait_payment returned a preimage" % bad[0].name)
        infos = [(c, resp) for c, resp, e in answers_info(C) if c.bb in r]
        for c, resp in infos:
            for x in resp:
                okk = x[0] == "Resolve"
                rep.ob(rid, okk, L.fn, "a found preimage settles the HTLCs", where=c.loc, how="Resolve", detail="" if okk else "wait_payment returned a preimage but the HTLCs get %s" % x[0])


def a3_one_lifecycle_per_entry(C, rep, rid):
    rep.rule(rid, "the lifecycle is spawned only for a vacant table entry, under the table lock; it pays at most once")
    F, X, A, L = C.F, C.X, C.A, C.L
    refs = F.fn_refs(A.lc_root)
    ok = len(refs) == 1
    rep.ob(rid, ok, A.lc_root, "single reference to the lifecycle fn", where=loc(refs[0][0].term(refs[0][1])["sp"]) if refs else "", how="%d reference(s)" % len(refs),
           detail="" if ok else "the lifecycle function is referenced from %d sites" % len(refs))
    for (rb, rbb, w) in refs:
        # must be inside a closure that is the argument of Entry::or_insert_with in HH
        in_closure = rb.kind == "Closure" and not rb.coroutine
        sites = F.closure_sites.get(rb.def_, [])
        good = False
        where = loc(rb.term(rbb)["sp"])
        if in_closure and sites:
            pb, bi, si, ops, st = sites[0]
            clo_local = st["lhs"]["l"]
            for c in pb.calls:
                if c.name == "std::collections::hash_map::Entry::or_insert_with" and any(a["k"] in ("move", "copy") and a["pl"]["l"] == clo_local for a in c.args):
                    good = NM.PS() in c.full
        rep.ob(rid, good, F.root_of(rb), "lifecycle is created inside Entry::or_insert_with's closure", where=where, how="closure argument of or_insert_with on the payments table",
               detail="" if good else "the lifecycle is started outside the vacant-entry initialiser: a second lifecycle for a live entry becomes possible")
        # and it is handed to tokio::spawn
        if w[0] == "callee":
            call = Call(rb, rbb, w[1])
            sp = [c for c in rb.calls if c.name == "tokio::spawn" and c.args]
            okk = False
            for s in sp:
                e = strip(X.operand(rb, s.args[0]))
                if any(x[0] == "call" and x[3][1] == rbb for x in walk(e)):
                    okk = True
            rep.ob(rid, okk, F.root_of(rb), "lifecycle future is spawned", where=where, how="argument of tokio::spawn", detail="" if okk else "lifecycle future is not spawned as its own task")
    if L is not None:
        b = L.body
        for p in L.pay:
            ok = p.bb not in b.reach_after([p.bb])
            rep.ob(rid, ok, L.fn, "pay is not inside a loop", where=p.loc, how="pay block not reachable from itself", detail="" if ok else "pay can be issued repeatedly by one lifecycle")
        ok = len(L.pay) == 1
        rep.ob(rid, ok, L.fn, "single pay site", where=L.pay[0].loc if L.pay else "", how="1 site", detail="" if ok else "%d pay sites" % len(L.pay), nontrivial=False)


# ============================================================================ C06-P2
def count_on_paths(b, event_blocks, start=0):
    """for every reachable block: set of possible counts (capped at 2) of event blocks passed on paths
    from start up to and including that block"""
    ev = set(event_blocks)
    val = {start: {1 if start in ev else 0}}
    work = [start]
    while work:
        x = work.pop()
        for y in b.succ[x]:
            add = 1 if y in ev else 0
            new = {min(2, v + add) for v in val[x]}
            old = val.get(y, set())
            if not new <= old:
                val[y] = old | new
                work.append(y)
    return val


def p2_exactly_one_answer(C, rep, rid):
    rep.rule(rid, "every path of the lifecycle to its end answers the HTLC set exactly once; every effectful future is awaited")
    L = C.L
    b = L.body
    if not floors(C, rep, rid, answers=2):
        return
    val = count_on_paths(b, blocks(L.answers))
    rets = b.returns()
    rep.anchor(rid, "Return blocks of LC", len(rets), 1, fn=L.fn)
    for r in rets:
        v = val.get(r, set())
        ok = v == {1}
        rep.ob(rid, ok, L.fn, "answers on paths to return", where=loc(b.term(r)["sp"]), how="count set {1}",
               detail="" if ok else "a path of the lifecycle reaches its end having answered %s times (must be exactly 1)" % sorted(v))
    if not rets:
        return
    # name the offending exit for diagnosis: which answers are missing
    for a in L.answers:
        aw = lib.await_of_call(b, a)
        rep.ob(rid, aw is not None, L.fn, "answer future is awaited", where=a.loc, how="awaited",
               detail="" if aw else "unawaited-effect: the future returned by %s at %s is dropped without being awaited - nobody is answered" % (a.name, a.loc))
    for c in L.store_r + L.wait + L.pay + L.store_w + L.height:
        aw = lib.await_of_call(b, c)
        rep.ob(rid, aw is not None, L.fn, "%s future is awaited" % c.mname, where=c.loc, how="awaited",
               detail="" if aw else "unawaited-effect: %s future at %s is never awaited" % (c.mname, c.loc), nontrivial=False)


# ============================================================================ C07-U4 / C11
def u4_fail_arm_forwards(C, rep, rid):
    rep.rule(rid, "the fail-request arm answers with the requested failure (or temporary_node_failure if the channel closed) and never pays")
    L = C.L
    b = L.body
    sel = _main_select(C)
    rep.anchor(rid, "pre-payment select", 1 if sel else 0, fn=L.fn)
    if not sel:
        return
    fa = ml.select_arm_of(sel, lambda f: f.name == "tokio::sync::mpsc::Receiver::recv" and "HtlcAcceptedResponse" in f.full)
    rep.anchor(rid, "fail-request arm", 1 if fa else 0, fn=L.fn)
    if not fa:
        return
    i, tg = fa
    r = b.reach([tg])
    bad = [c for c in L.pay + L.add_attempt + L.store_w if c.bb in r]
    rep.ob(rid, not bad, L.fn, "no pay/write from the fail arm", where=bad[0].loc if bad else sel.futures[i].loc, how="unreachable",
           detail="" if not bad else "%s is reachable from the fail-request arm" % bad[0].name)
    infos = answers_on_arm(C, sel, tg)
    ok = len(infos) == 1
    rep.ob(rid, ok, L.fn, "one answer on the fail arm", where=infos[0][0].loc if infos else "", how="1 site", detail="" if ok else "%d answer sites on the fail arm" % len(infos))
    for c, resp, e in infos:
        for x in resp:
            if x[0] == "Opaque":
                # must be the Some payload of that select arm's output
                ex = x[1]
                good = ex[0] == "field" and ex[3] == "Some" and any(y[0] == "field" and y[3] == "_%d" % i for y in walk(ex))
                rep.ob(rid, good, L.fn, "fail arm forwards the requested response", where=c.loc, how="payload of the fail-request recv",
                       detail="" if good else "fail arm answers with %s" % show(ex)[:100])
            elif x[0] == "Fail":
                good = x[2] == [("bytes", [0x20, 2])]
                rep.ob(rid, good, L.fn, "closed fail channel => temporary_node_failure", where=c.loc, how=str(x[2]),
                       detail="" if good else "fail arm constant response is %s" % (x[2],))
            else:
                rep.ob(rid, False, L.fn, "fail arm response kind", where=c.loc, detail="fail arm answers with %s" % x[0])


def t6_timer_armed_once(C, rep, rid):
    rep.rule(rid, "the MPP timer is armed once per lifecycle: the sleep future raced in the pre-payment select is not created inside a loop")
    L = C.L
    b = L.body
    sel = _main_select(C)
    rep.anchor(rid, "pre-payment select", 1 if sel else 0, fn=L.fn)
    if not sel:
        return
    sl = [f for f in sel.futures if f is not None and f.name == "tokio::time::sleep"]
    rep.anchor(rid, "tokio::time::sleep operand of the select", len(sl), 1, fn=L.fn)
    for s in sl:
        again = s.bb in b.reach_after([s.bb])
        rep.ob(rid, not again, L.fn, "sleep future created outside any loop", where=s.loc, how="its block is not reachable from itself",
               detail="" if not again else "the MPP timer is re-created on every iteration of a loop: each wake-up (e.g. a late partial HTLC) restarts the full timeout, so an incomplete set can be held beyond one MPP timeout")
    # no other timer can take its place
    others = [c for c in b.calls if c.name in ("tokio::time::sleep", "tokio::time::timeout", "tokio::time::sleep_until", "tokio::time::interval") and not c.noise and c.bb not in [s.bb for s in sl]
              and c.bb in b.reach([0], removed_nodes=[x.bb for x in L.pay])]
    rep.ob(rid, not others, L.fn, "no second timer before the payment", where=others[0].loc if others else "", how="single timer", detail="" if not others else "another timer (%s) runs before the payment" % others[0].name, nontrivial=False)


def t1_timer_value(C, rep, rid):
    rep.rule(rid, "the select's timer is the configured MPP timeout (Free) or that timeout minus the attempt's age (Pending), never more")
    L = C.L
    b = L.body
    sel = _main_select(C)
    rep.anchor(rid, "pre-payment select", 1 if sel else 0, fn=L.fn)
    if not sel:
        return
    sl = [f for f in sel.futures if f is not None and f.name == "tokio::time::sleep"]
    rep.anchor(rid, "tokio::time::sleep operand of the select", len(sl), 1, fn=L.fn)
    if not sl:
        return
    s = sl[0]
    raw = strip(C.X.operand(b, s.args[0]))
    e = mm.inline_pure(C.F, C.X, raw)
    ss = L.state_switch
    n_free = n_pending = 0
    for a in alts(e):
        # which arm produced this definition: use the site of the defining expression
        if a[0] == "field" and a[1] == "mpp_timeout" and a[2] == "htlc_manager::HtlcManagerParams":
            n_free += 1
            rep.ob(rid, True, L.fn, "timer = params.mpp_timeout", where=s.loc, how=show(a)[:60])
            continue
        if a[0] == "call" and a[1] == "std::time::Duration::saturating_sub":
            recv, arg = a[2][0], a[2][1]
            ok_recv = recv[0] == "field" and recv[1] == "mpp_timeout" and recv[2] == "htlc_manager::HtlcManagerParams"
            rep.ob(rid, ok_recv, L.fn, "remaining time = mpp_timeout.saturating_sub(age)", where=a[3][2], how="receiver is the configured timeout, so the result is <= it",
                   detail="" if ok_recv else "remaining time is computed as %s: it can exceed the configured timeout" % show(a)[:140])
            # age = now_since_epoch.saturating_sub(from_secs(attempt_time_seconds of the fetched Pending record))
            ok_age = False
            if arg[0] == "call" and arg[1] == "std::time::Duration::saturating_sub" and len(arg[2]) == 2:
                now, start = arg[2]
                now_ok = any(x[0] == "call" and x[1] == "std::time::SystemTime::now" for x in walk(now)) and any(x[0] == "call" and x[1] == "std::time::SystemTime::duration_since" for x in walk(now))
                st_ok = start[0] == "call" and start[1] == "std::time::Duration::from_secs" and start[2] and \
                    start[2][0][0] == "field" and start[2][0][1] == "attempt_time_seconds" and start[2][0][3] == "Pending" and is_ok_payload_of(start[2][0][4], L.store_r[0])
                ok_age = now_ok and st_ok
            rep.ob(rid, ok_age, L.fn, "age = now - attempt_time_seconds of the stored record", where=a[3][2], how="saturating_sub(now_since_epoch, from_secs(stored attempt_time_seconds))",
                   detail="" if ok_age else "attempt age is computed as %s" % show(arg)[:160])
            n_pending += 1
            continue
        rep.ob(rid, False, L.fn, "timer value provenance", where=s.loc, detail="select timer can be %s" % show(a)[:140])
    rep.ob(rid, n_free >= 1, L.fn, "a definition for the Free arm exists", where=s.loc, how="%d" % n_free, detail="" if n_free else "no timer definition equals the configured timeout", nontrivial=False)
    # arm association: the Free arm's definition site is reachable from arm(Free) and not from arm(Pending)
    if ss:
        FR, PE = ss[1].get("Free"), ss[1].get("Pending")
        if FR is not None and PE is not None:
            # the select is reachable from arm(Pending) only through the saturating_sub definition block
            # definition sites (in this body) of the alternatives that are not the plain configured timeout
            cut = set()
            for a2 in alts(raw):
                if a2[0] == "call" and a2[3][0] == b.cdef:
                    cut.add(a2[3][1])
            ok = sel.switch_bb not in b.reach([PE], removed_nodes=cut) if cut else False
            rep.ob(rid, ok, L.fn, "arm(Pending) reaches the select only with the reduced timer", where=s.loc, how="select unreachable from arm(Pending) when the remaining-time computation is removed",
                   detail="" if ok else "after a restart with a stored Pending state the select can be entered with a full (or unrelated) timeout")


def t2_zero_means_immediate(C, rep, rid):
    rep.rule(rid, "a zero remaining time is answered immediately with temporary_trampoline_failure; sleep is only reached behind that guard")
    L = C.L
    b = L.body
    sel = _main_select(C)
    if not sel:
        rep.anchor(rid, "pre-payment select", 0, fn=L.fn)
        return
    sl = [f for f in sel.futures if f is not None and f.name == "tokio::time::sleep"]
    if not sl:
        rep.anchor(rid, "sleep operand", 0, fn=L.fn)
        return
    s = sl[0]
    zs = [c for c in b.calls if c.name == "std::time::Duration::is_zero"]
    rep.anchor(rid, "is_zero() guard on the remaining time", len(zs), 1, fn=L.fn)
    if not zs:
        return
    z = zs[0]
    same = lib.operand_key(b, {"k": "copy", "pl": {"l": _recv_local(b, z), "p": []}}) == lib.operand_key(b, s.args[0]) if _recv_local(b, z) is not None else False
    rep.ob(rid, same, L.fn, "guard tests the value that is slept on", where=z.loc, how="same local", detail="" if same else "is_zero() is tested on a different value than the one passed to sleep")
    ft = lib.bool_edge_targets(b, z.target) if z.target is not None and b.term(z.target)["k"] == "switch" else None
    if ft is None:
        rep.ob(rid, False, L.fn, "is_zero result is branched on", where=z.loc, detail="is_zero() result is not used as a branch condition")
        return
    ok = s.bb not in b.reach([0], removed_edges=[(z.target, ft[0])])
    rep.ob(rid, ok, L.fn, "sleep only behind is_zero() == false", where=s.loc, how="edge guard", detail="" if ok else "the select can be entered without the zero-timeout guard")
    r = b.reach([ft[1]])
    infos = [(c, resp) for c, resp, e in answers_info(C) if c.bb in r and c.bb not in b.reach([ft[0]])]
    ok = len(infos) == 1 and all(x[0] == "Fail" and x[2] == [("bytes", [0x20, 25])] for x in infos[0][1])
    rep.ob(rid, ok, L.fn, "zero time left => temporary_trampoline_failure", where=infos[0][0].loc if infos else z.loc, how="0x2019",
           detail="" if ok else "the expired-timeout path answers %s" % ([x[:3] for c, resp in infos for x in resp],))
    bad = [c for c in L.pay + L.add_attempt + L.sleep if c.bb in r and c.bb not in b.reach([ft[0]])]
    rep.ob(rid, not bad, L.fn, "no pay on the expired path", where=z.loc, how="unreachable", detail="" if not bad else "%s reachable on the expired-timeout path" % bad[0].name)


def _recv_local(b, c):
    r = lib.root_operand(b, c.args[0])
    d = lib.def_rvalue(b, c.args[0])
    if d and d[0] == "rv" and d[1]["k"] == "ref" and not [p for p in d[1]["pl"]["p"] if p["k"] != "deref"]:
        return d[1]["pl"]["l"]
    if r["k"] in ("copy", "move") and not r["pl"]["p"]:
        return r["pl"]["l"]
    return None


def t3_timeout_arm(C, rep, rid):
    rep.rule(rid, "the timer arm answers temporary_trampoline_failure exactly once and can neither pay nor write")
    L = C.L
    b = L.body
    sel = _main_select(C)
    if not sel:
        rep.anchor(rid, "pre-payment select", 0, fn=L.fn)
        return
    ta = ml.select_arm_of(sel, lambda f: f.name == "tokio::time::sleep")
    rep.anchor(rid, "timer arm", 1 if ta else 0, fn=L.fn)
    if not ta:
        return
    i, tg = ta
    r = b.reach([tg])
    bad = [c for c in L.pay + L.store_w + L.wait if c.bb in r]
    rep.ob(rid, not bad, L.fn, "no pay/write from the timer arm", where=bad[0].loc if bad else sel.futures[i].loc, how="unreachable",
           detail="" if not bad else "an incomplete set that timed out can reach %s at %s" % (bad[0].name, bad[0].loc))
    infos = [(c, resp) for c, resp, e in answers_on_arm(C, sel, tg)]
    ok = len(infos) == 1
    rep.ob(rid, ok, L.fn, "one answer on the timer arm", where=infos[0][0].loc if infos else "", how="1", detail="" if ok else "%d answer sites on the timer arm" % len(infos))
    for c, resp in infos:
        for x in resp:
            good = x[0] == "Fail" and x[2] == [("bytes", [0x20, 25])]
            rep.ob(rid, good, L.fn, "timer arm => temporary_trampoline_failure (0x2019)", where=c.loc, how=str(x[2]) if x[0] == "Fail" else x[0],
                   detail="" if good else "timed-out sets are answered with %s %s" % (x[0], x[2] if x[0] == "Fail" else ""))


def t4_not_before(C, rep, rid):
    rep.rule(rid, "on the Free arm nothing is answered between the fetch and the select; the select's non-ready arms are the timer and the fail request")
    L = C.L
    b = L.body
    ss = L.state_switch
    sel = _main_select(C)
    if not ss or not sel or ss[1].get("Free") is None:
        rep.anchor(rid, "Free arm and select", 0, fn=L.fn)
        return
    FR = ss[1]["Free"]
    r = b.reach([FR], removed_nodes=[sel.switch_bb])
    bad = [c for c in L.answers if c.bb in r]
    # answers reachable from Free without passing the select, other than the zero-guard (impossible for Free unless mpp_timeout==0)
    zs = [c for c in b.calls if c.name == "std::time::Duration::is_zero"]
    allowed = set()
    for z in zs:
        ft = lib.bool_edge_targets(b, z.target) if z.target is not None and b.term(z.target)["k"] == "switch" else None
        if ft:
            allowed |= b.reach([ft[1]]) - b.reach([ft[0]])
    bad = [c for c in bad if c.bb not in allowed]
    rep.ob(rid, not bad, L.fn, "no answer before the select on the Free arm", where=bad[0].loc if bad else "", how="only the zero-timeout guard precedes the select",
           detail="" if not bad else "a fresh set can be answered at %s before the MPP timeout runs" % bad[0].loc)
    kinds = []
    for f in sel.futures:
        if f is None:
            kinds.append("?")
        elif f.name == "tokio::time::sleep":
            kinds.append("sleep")
        elif f.name == "tokio::sync::mpsc::Receiver::recv" and "Receiver::<()>" in f.full:
            kinds.append("ready")
        elif f.name == "tokio::sync::mpsc::Receiver::recv" and "HtlcAcceptedResponse" in f.full:
            kinds.append("fail")
        else:
            kinds.append(f.name)
    ok = sorted(kinds) == ["fail", "ready", "sleep"]
    rep.ob(rid, ok, L.fn, "select operands are {timer, fail request, ready}", where=sel.futures[0].loc if sel.futures and sel.futures[0] else "", how=str(kinds),
           detail="" if ok else "the pre-payment select waits on %s" % kinds)


# ============================================================================ C08-W1 / C03-R1
def w1_intent_before_pay(C, rep, rid):
    rep.rule(rid, "pay is reachable only through add_payment_attempt -> Ok")
    L = C.L
    b = L.body
    if not floors(C, rep, rid, pay=1, add_attempt=1):
        return
    for p in L.pay:
        g = any(guarded_by_result(b, C.X, p.bb, a, "Ok") for a in L.add_attempt)
        rep.ob(rid, g, L.fn, "pay guarded by add_payment_attempt -> Ok", where=p.loc, how="every path to pay takes the Ok arm of the awaited add_payment_attempt",
               detail="" if g else "pay at %s can be issued without a successfully persisted in-flight marker" % p.loc)
    for a in L.add_attempt:
        aw = lib.await_of_call(b, a)
        rep.ob(rid, aw is not None, L.fn, "add_payment_attempt is awaited", where=a.loc, how="awaited", detail="" if aw else "add_payment_attempt future not awaited")


def r1_ready_arm_only(C, rep, rid):
    rep.rule(rid, "add_payment_attempt and pay are reachable only through the select's ready arm")
    L = C.L
    b = L.body
    sel = _main_select(C)
    rep.anchor(rid, "pre-payment select", 1 if sel else 0, fn=L.fn)
    if not sel:
        return
    rd = ml.select_arm_of(sel, lambda f: f.name == "tokio::sync::mpsc::Receiver::recv" and "Receiver::<()>" in f.full)
    rep.anchor(rid, "ready arm", 1 if rd else 0, fn=L.fn)
    if not rd:
        return
    i, tg = rd
    # the ready receiver is LC's ready-receiver parameter
    e = strip(C.X.operand(b, sel.futures[i].args[0]))
    okp = all(a[0] == "param" for a in alts(e))
    rep.ob(rid, okp, L.fn, "ready operand is the lifecycle's ready receiver", where=sel.futures[i].loc, how=show(e)[:60], detail="" if okp else "ready operand is %s" % show(e)[:80])
    for c in L.add_attempt + L.pay + L.height + L.lock:
        ok = b.edge_dominates((sel.switch_bb, _arm_entry(b, sel, "_%d" % i)), c.bb) or c.bb not in b.reach([0], removed_nodes=[tg])
        rep.ob(rid, ok, L.fn, "%s only via the ready arm" % (c.mname or c.name.split("::")[-1]), where=c.loc, how="unreachable when the ready arm is removed",
               detail="" if ok else "%s at %s is reachable without the set having become ready" % (c.name, c.loc))
    others = [v for k, v in sel.arms.items() if k != "_%d" % i]
    for o in others:
        r = b.reach([o])
        bad = [c for c in L.pay + L.add_attempt if c.bb in r]
        rep.ob(rid, not bad, L.fn, "non-ready arm cannot pay", where=bad[0].loc if bad else "", how="unreachable", detail="" if not bad else "a non-ready select arm reaches %s" % bad[0].name)


def _arm_entry(b, sel, name):
    t = b.term(sel.switch_bb)
    c = lib.decode_switch(b, sel.switch_bb)
    for v, tg in t["arms"]:
        if c.variants.get(v) == name:
            return tg
    return None
