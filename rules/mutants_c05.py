H = "src/htlc_manager.rs"
MUTANTS = [
    {"name": "spawn-outside-or-insert", "control": True, "expect": ["C05-A3"],
     "edits": [(H, "            // If the trampoline info doesn't match previous trampoline infos,", "            if payment_state.htlcs.len() == 7 {\n                let (_s1, r1) = mpsc::channel(1);\n                let (_s2, r2) = mpsc::channel(1);\n                tokio::spawn(payment_lifecycle(Arc::clone(&self.params), Arc::clone(&self.payments), trampoline.clone(), r1, r2));\n            }\n            // If the trampoline info doesn't match previous trampoline infos,")]},
    {"name": "succeeded-falls-through", "control": True, "expect": ["C05-A1"],
     "edits": [(H, "            debug!(\"existing payment already had preimage\");\n            resolve(\n                &payments,\n                &trampoline,\n                HtlcAcceptedResponse::resolve(preimage),\n            )\n            .await;\n            return;", "            debug!(\"existing payment already had preimage\");\n            if preimage.len() == 32 {\n            resolve(\n                &payments,\n                &trampoline,\n                HtlcAcceptedResponse::resolve(preimage),\n            )\n            .await;\n            return;\n            }\n            params.mpp_timeout")]},
    {"name": "retry-loop-around-pay", "control": True, "expect": ["C05-A3", "C05-A5", "C05"],
     "edits": [(H, "    let pay_result = params\n        .payment_provider\n        .pay(PaymentRequest {", "    let mut tries = 0;\n    let pay_result = loop { tries += 1; let r = params\n        .payment_provider\n        .pay(PaymentRequest {"),
               (H, "            max_cltv_delta,\n        })\n        .await;\n    trace!(\"pay returned.\");", "            max_cltv_delta,\n        })\n        .await; if r.is_ok() || tries > 1 { break r; } };\n    trace!(\"pay returned.\");")]},
    {"name": "pending-some-preimage-pays-again", "expect": ["C05-A2"],
     "edits": [(H, "                        trace!(\"pending payment resolved with preimage\");", "                        trace!(\"pending payment resolved with preimage\");\n                        if preimage.is_empty() { let _ = params.store.add_payment_attempt(&trampoline).await; }")]},
    {"name": "succeeded-wrong-key", "expect": ["C05-A1"],
     "edits": [(H, "                HtlcAcceptedResponse::resolve(preimage),\n            )\n            .await;\n            return;\n        }\n    };", "                HtlcAcceptedResponse::resolve(trampoline.bolt11.clone().into_bytes()),\n            )\n            .await;\n            let _ = preimage;\n            return;\n        }\n    };")]},
    {"name": "early-return-without-answer", "expect": ["C05-A5"],
     "edits": [(H, "            debug!(\"Payment fail requested.\");\n            resolve(&payments, &trampoline, failure).await;\n            return;", "            debug!(\"Payment fail requested.\");\n            if matches!(failure, HtlcAcceptedResponse::Continue { .. }) { return; }\n            resolve(&payments, &trampoline, failure).await;\n            return;")]},
]

from mutants_common import EQUIV_LC as EQUIV
