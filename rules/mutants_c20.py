B = "src/block_watcher.rs"
P = "src/plugin.rs"
MUTANTS = [
    {"name": "unconditional-store", "control": True, "expect": ["C20-W"],
     "edits": [(B, "    let updated = if new_height > *current_height {\n        *current_height = new_height;\n        Some(*current_height)\n    } else {\n        None\n    };", "    *current_height = new_height;\n    let updated = Some(*current_height);")]},
    {"name": "not-equal-guard", "control": True, "expect": ["C20-W"],
     "edits": [(B, "if new_height > *current_height {", "if new_height != *current_height {")]},
    {"name": "return-on-poll-error", "control": True, "expect": ["C20-L"],
     "edits": [(B, "            Err(e) => error!(\"Failed to update block height: {:?}\", e),", "            Err(e) => { error!(\"Failed to update block height: {:?}\", e); return; }")]},
    {"name": "compare-and-write-under-two-locks", "expect": ["C20-W"],
     "edits": [(B, "    let mut current_height = current_height.lock().await;\n    let updated = if new_height > *current_height {\n        *current_height = new_height;", "    let stale = *current_height.lock().await;\n    let mut current_height = current_height.lock().await;\n    let updated = if new_height > stale {\n        *current_height = new_height;")]},
    {"name": "new-block-writes-directly", "expect": ["C20-W", "C20-S"],
     "edits": [(B, "        match update_height(block.height, Arc::clone(&self.current_height)).await {", "        *self.current_height.lock().await = block.height;\n        match update_height(block.height, Arc::clone(&self.current_height)).await {")]},
    {"name": "poll-uses-constant", "expect": ["C20-S"],
     "edits": [(B, "    update_height(info.blockheight, current_height).await", "    update_height(info.blockheight.min(800_000), current_height).await")], "note": "still a reported height => may be missed"},
    {"name": "subscription-dropped", "expect": ["C20-H"],
     "edits": [(P, "        .subscribe(\"block_added\", on_block_added)", "        .subscribe(\"block_connected\", on_block_added)")]},
    {"name": "loop-not-spawned-after-poll", "expect": ["C20-L"],
     "edits": [(B, "        poll_height(Arc::clone(&self.current_height), Arc::clone(&self.rpc)).await?;", "        let _ = poll_height(Arc::clone(&self.current_height), Arc::clone(&self.rpc)).await;")]},
    {"name": "poll-only-once", "expect": ["C20-L"],
     "edits": [(B, "            _ = shutdown.recv() => return\n        }", "            _ = shutdown.recv() => return\n        }\n        if *current_height.lock().await > 0 { let _ = shutdown.recv().await; return; }")]},
    {"name": "poll-interval-61s", "expect": ["C20-L"],
     "edits": [(B, "Duration::from_secs(60)", "Duration::new(61, 0)")]},
    {"name": "current-height-minus-one", "expect": ["C20-S"],
     "edits": [(B, "        *self.current_height.lock().await\n", "        self.current_height.lock().await.saturating_sub(1)\n")]},
]
EQUIV = [
    {"name": "eq-max-idiom", "edits": [(B, "    let updated = if new_height > *current_height {\n        *current_height = new_height;\n        Some(*current_height)\n    } else {\n        None\n    };", "    let old = *current_height;\n    *current_height = std::cmp::max(*current_height, new_height);\n    let updated = if *current_height != old { Some(*current_height) } else { None };")]},
    {"name": "eq-lt-flipped", "edits": [(B, "if new_height > *current_height {", "if *current_height < new_height {")]},
    {"name": "eq-poll-interval-30", "edits": [(B, "Duration::from_secs(60)", "Duration::from_secs(30)")]},
    {"name": "eq-poll-interval-new", "edits": [(B, "Duration::from_secs(60)", "Duration::new(60, 0)")]},
    {"name": "eq-poll-interval-millis-product", "edits": [(B, "Duration::from_secs(60)", "Duration::from_millis(60 * 1000)")]},
]
