"""Model of the Datastore implementations (store.rs): per-method ordered write records extracted from
MIR, and the clauses built on them (C02-S7, C08-W*, C09-M, C14-K)."""
import re
from mir import Call, canon, loc, strip, walk, alts, show, derive_generated
import lib
import model_lc as ml
import model_msgs as mm

PERSIST_ADT = "store::PersistPaymentState"
ATTEMPT_INFO_ADT = "store::AttemptInfo"


def _is_adt(name, ref):
    """the record types may live in a submodule of `store` (`store::persist::AttemptInfo`)"""
    return name == ref or (isinstance(name, str) and name.startswith("store::") and name.endswith("::" + ref.split("::")[-1]))


def _same_module_file(F, n, bfile):
    """a helper of the store module: same file, or a file of the module's directory (src/store.rs + src/store/*.rs)"""
    hb = F.by_cdef.get(n)
    if hb is None or n.startswith("<"):
        return False
    f = hb.span.get("f") or ""
    return f == bfile or (bfile.endswith(".rs") and f.startswith(bfile[:-3] + "/"))
METHODS = ("add_payment_attempt", "fetch_payment_info", "mark_failed", "mark_succeeded")


class Write:
    pass


def datastore_impls(F):
    return [i for i in F.impls if i.get("trait") and canon(i["trait"]) == "store::Datastore"]


def method_bodies(F, impl, name):
    """all bodies of the group of impl method `name`"""
    for it in impl["items"]:
        c = canon(it)
        if c.endswith("::" + name):
            return c, F.group(c)
    return None, []


def key_kind(F, X, e):
    """('state'|'attempt'|'?', hash_expr, id_expr) for a key expression"""
    import model_keys as mk
    comps = mk.components(F, X, e)
    if comps:
        consts = {v for k, v in comps if k == "lit"}
        hexes = [v for k, v in comps if k == "hex"]
        kind = "state" if "state" in consts and "attempts" not in consts else ("attempt" if "attempts" in consts else "?")
        idx = None
        if kind == "attempt":
            i = [k for k, (c0, c1) in enumerate(comps) if c0 == "lit" and c1 == "attempts"][-1]
            idx = comps[i + 1][1] if i + 1 < len(comps) and comps[i + 1][0] != "lit" else None
        return kind, (hexes[0] if hexes else None), idx, consts, bool(hexes)
    for a in alts(e):
        if a[0] == "call":
            b = F.by_cdef.get(a[4].resolved or a[1])
            if b is not None:
                consts = set()
                for c in b.calls:
                    for arg in c.args:
                        ro = lib.root_operand(b, arg)
                        if ro["k"] == "const" and ro.get("v", "").startswith('"'):
                            consts.add(ro["v"].strip('"'))
                # also every string constant the returned value is built from (to_string()/into()/format! forms)
                try:
                    rexpr = strip(X.local(b, 0))
                    for y in walk(rexpr):
                        if y[0] == "const" and isinstance(y[1], str) and y[1].startswith('"'):
                            consts.add(y[1].strip('"'))
                except RecursionError:
                    pass
                for bi2 in sorted(b.reachable):
                    for st in b.blocks[bi2]["s"]:
                        if st["k"] == "assign" and st["rv"]["k"] == "use" and st["rv"]["op"].get("k") == "const" and str(st["rv"]["op"].get("v", "")).startswith('"'):
                            consts.add(st["rv"]["op"]["v"].strip('"'))
                hexed = any(c.name == "hex::ToHex::encode_hex" for c in b.calls)
                kind = "state" if "state" in consts and "attempts" not in consts else ("attempt" if "attempts" in consts else "?")
                return kind, (a[2][0] if a[2] else None), (a[2][1] if len(a[2]) > 1 else None), consts, hexed
    return "?", None, None, set(), False


def extract_writes(F, X, body):
    """ordered list of Write for the ClnRpc::datastore calls of one coroutine body"""
    out = []
    for c in body.calls:
        if not c.is_trait_method("rpc::ClnRpc", "datastore"):
            continue
        w = Write()
        w.call = c
        w.body = body
        req = strip(X.operand(body, c.args[1])) if len(c.args) > 1 else None
        w.req = req
        w.fields = {}
        for a in alts(req) if req else ():
            if a[0] == "agg" and a[1].endswith("DatastoreRequest"):
                w.fields = dict(a[3])
        w.mode = None
        m = w.fields.get("mode")
        if m is not None:
            for x in walk(m):
                if x[0] == "agg" and x[1].endswith("DatastoreMode"):
                    w.mode = x[2]
            if w.mode is None and m[0] == "agg" and m[2] == "None":
                w.mode = "DEFAULT(MUST_CREATE)"
        g = w.fields.get("generation")
        w.generation = None
        if g is not None and g[0] == "agg" and g[2] == "Some":
            w.generation = g[3][0][1]
        w.key_kind, w.key_hash, w.key_id, w.key_consts, w.key_hexed = key_kind(F, X, w.fields.get("key")) if w.fields.get("key") else ("?", None, None, set(), False)
        w.payload = None
        w.payload_expr = None
        s = w.fields.get("string")
        if s is not None:
            # a record built by a same-file constructor helper (`AttemptInfo::new(..)`) is that aggregate
            bfile = body.span.get("f")
            s = strip(mm.inline_pure(F, X, s, keep=lambda n, bfile=bfile: not _same_module_file(F, n, bfile)))
            for x in walk(s):
                if x[0] == "agg" and _is_adt(x[1], PERSIST_ADT):
                    w.payload = ("state", x[2])
                    w.payload_expr = x
                    break
                if x[0] == "agg" and _is_adt(x[1], ATTEMPT_INFO_ADT):
                    d = dict(x[3])
                    comp = d.get("completed")
                    w.payload = ("attempt", "closed" if comp and comp[0] == "const" and comp[1] == "true" else "open")
                    w.payload_expr = x
                    break
        w.awaited = lib.await_of_call(body, c) is not None
        ar = ml.arms_of_result(body, X, c)
        # `?` : Try::branch on the awaited result
        w.propagates = False
        for bb, cond, e in ml.enum_switches(body, X):
            for a in alts(e):
                if a[0] == "call" and a[1] == "std::ops::Try::branch" and a[2]:
                    inner = a[2][0]
                    if inner[0] == "await" and inner[1][0] == "call" and inner[1][3][1] == c.bb:
                        w.propagates = True
                        t = body.term(bb)
                        w.cont = None
                        for v, tg in t["arms"]:
                            if cond.variants.get(v) == "Continue":
                                w.cont = lib.skip_false_edges(body, tg)
        if ar and not w.propagates:
            w.cont = ar[1].get("Ok")
            w.propagates = "Err" in ar[1] and ar[1]["Err"] is not None and False
            w.matched = True
        out.append(w)
    out.sort(key=lambda w: len(body.dom.get(w.call.bb, ())))
    return out


class StoreModel:
    pass


def store_model(F, X):
    M = StoreModel()
    M.impls = []
    for imp in datastore_impls(F):
        d = {"impl": imp, "self_ty": imp["self_ty"], "methods": {}}
        for m in METHODS:
            root, grp = method_bodies(F, imp, m)
            ws = []
            wb = None
            for b in grp:
                w = extract_writes(F, X, b)
                if w:
                    ws, wb = w, b
            reads = []
            rb = None
            for b in grp:
                r = [c for c in b.calls if c.is_trait_method("rpc::ClnRpc", "listdatastore")]
                if r:
                    reads, rb = r, b
            d["methods"][m] = {"root": root, "group": grp, "writes": ws, "wbody": wb, "reads": reads, "rbody": rb}
        M.impls.append(d)
    return M


def get_model(C):
    if not hasattr(C, "_store"):
        C._store = store_model(C.F, C.X)
    return C._store


def need_store(C, rep, rid):
    M = get_model(C)
    ok = rep.anchor(rid, "non-test impl of store::Datastore", len(M.impls), 1)
    for d in M.impls:
        for m in ("add_payment_attempt", "mark_failed", "mark_succeeded"):
            ok = rep.anchor(rid, "%s: datastore writes in %s" % (d["self_ty"], m), len(d["methods"][m]["writes"]), 1, fn=d["methods"][m]["root"] or "-") and ok
        ok = rep.anchor(rid, "%s: listdatastore read in fetch_payment_info" % d["self_ty"], len(d["methods"]["fetch_payment_info"]["reads"]), 1) and ok
    return ok


# ============================================================================ C02-S7
def s7_generation_guard(C, rep, rid):
    rep.rule(rid, "Free is written only generation-guarded (must-replace, generation = the one observed with the Pending record)")
    F, X = C.F, C.X
    if not need_store(C, rep, rid):
        return
    M = get_model(C)
    for d in M.impls:
        nfree = 0
        for m, info in d["methods"].items():
            for w in info["writes"]:
                if w.payload == ("state", "Free"):
                    nfree += 1
                    g = w.generation
                    okg = g is not None and all(a[0] == "field" and a[1] == "state_generation" and a[2] == "store::AttemptId" and a[4][0] == "param" for a in alts(g))
                    rep.ob(rid, okg, info["root"], "Free write carries the attempt's state generation", where=w.call.loc, how=show(g)[:80] if g else "None",
                           detail="" if okg else "the Free marker is written with generation %s: it can overwrite a newer Pending record of another lifecycle" % (show(g)[:60] if g else "None (unconditional)"))
                    okm = w.mode == "MUST_REPLACE"
                    rep.ob(rid, okm, info["root"], "Free write is must-replace", where=w.call.loc, how=str(w.mode), detail="" if okm else "Free is written with mode %s" % w.mode)
                    okk = w.key_kind == "state"
                    rep.ob(rid, okk, info["root"], "Free write targets the state key", where=w.call.loc, how=w.key_kind, detail="" if okk else "Free written under key kind %s" % w.key_kind)
        rep.anchor(rid, "%s: writes of PersistPaymentState::Free" % d["self_ty"], nfree, 1)
        # where AttemptId.state_generation comes from
        srcs = 0
        for b, bi, s in F.aggregates("store::AttemptId"):
            if True:
                if True:
                    if True:
                        srcs += 1
                        if "state_generation" not in s["rv"]["fields"]:
                            rep.ob(rid, False, F.root_of(b), "AttemptId.state_generation provenance", where=loc(s["sp"]), detail="AttemptId built without an explicit state_generation")
                            continue
                        e = strip(X.operand(b, s["rv"]["ops"][s["rv"]["fields"].index("state_generation")]))
                        e = mm.expand_params(F, X, e, depth=2)
                        ok = False
                        why = show(e)[:120]
                        # unwrap_or(<gen>, 0) - possibly centralised in a constructor called from several places: every
                        # generation that can reach the field must be the one of a Pending state write or of the listed entry
                        cands = []
                        for a in alts(e):
                            x = a
                            if x[0] == "call" and x[1] in ("std::option::Option::unwrap_or", "std::option::Option::unwrap_or_default") and x[2]:
                                x = x[2][0]
                            cands += list(alts(x))
                        ok = bool(cands) and not all(x[0] == "agg" and x[2] == "None" for x in cands)
                        if cands and not ok:
                            why = "None on every path (" + why + ")"
                        for x in cands:
                            if x[0] == "agg" and x[2] == "None":
                                continue                        # "no generation known" (the fallback applies)
                            if x[0] == "field" and x[1] == "0" and x[3] == "Some":
                                x = x[4]
                            okx = False
                            if x[0] == "field" and x[1] == "generation":
                                txt = show(x[4])
                                if "ClnRpc::datastore" in txt or "ClnRpc::listdatastore" in txt:
                                    okx = True
                                    if "ClnRpc::datastore" in txt and "ClnRpc::listdatastore" not in txt:
                                        okx = "PersistPaymentState::Pending" in txt and "state_key" in txt
                            if not okx:
                                ok = False
                                break
                        rep.ob(rid, ok, F.root_of(b), "AttemptId.state_generation provenance", where=loc(s["sp"]), how=why,
                               detail="" if ok else "state_generation is filled from %s, not from the generation of the Pending record's write/read" % why)
        rep.anchor(rid, "%s: constructions of AttemptId" % d["self_ty"], srcs, 1)


# ============================================================================ C08
def w1_impl_pending_written_first(C, rep, rid):
    rep.rule(rid, "add_payment_attempt returns Ok only after the awaited state-key write of a Pending record succeeded")
    F, X = C.F, C.X
    if not need_store(C, rep, rid):
        return
    M = get_model(C)
    for d in M.impls:
        info = d["methods"]["add_payment_attempt"]
        b = info["wbody"]
        pend = [w for w in info["writes"] if w.payload == ("state", "Pending") and w.key_kind == "state"]
        rep.anchor(rid, "%s: Pending write under the state key" % d["self_ty"], len(pend), 1, fn=info["root"])
        if not pend:
            continue
        w = pend[0]
        rep.ob(rid, w.awaited, info["root"], "Pending write is awaited", where=w.call.loc, how="awaited", detail="" if w.awaited else "the Pending write future is not awaited")
        oks = _ok_return_blocks(b)
        rep.anchor(rid, "Ok return of add_payment_attempt", len(oks), 1, fn=info["root"])
        cont = getattr(w, "cont", None)
        for ob in oks:
            ok = cont is not None and b.node_cut({cont}, ob)
            rep.ob(rid, ok, info["root"], "Ok return dominated by the Pending write's success", where=loc(b.term(ob)["sp"]), how="every path to Ok(..) passes the Continue/Ok arm of the write",
                   detail="" if ok else "add_payment_attempt can report success without the in-flight marker having been written successfully")
        # the Pending record must be the first write: nothing is written before it that could succeed alone and make a later call think the attempt exists
        first = info["writes"][0]
        ok = first is w
        rep.ob(rid, ok, info["root"], "state marker is written before the attempt record", where=first.call.loc, how="first write",
               detail="" if ok else "the attempt record is written before the Pending marker: a crash in between leaves an attempt without a marker")
        okm = w.mode in ("CREATE_OR_REPLACE",)
        rep.ob(rid, okm, info["root"], "Pending write mode works on absent and Free state", where=w.call.loc, how=str(w.mode),
               detail="" if okm else "Pending marker written with mode %s" % w.mode)


def _ok_return_blocks(b, X=None):
    out = []
    rt = b.ret_ty
    for bi in sorted(b.reachable):
        if b.blocks[bi].get("ctx"):
            continue                       # the Ok(..) of a spliced helper is the helper's result, not the method's
        for s in b.blocks[bi]["s"]:
            if s["k"] == "assign" and not s["lhs"]["p"] and s["rv"]["k"] == "agg" and s["rv"].get("variant") == "Ok" and s["rv"].get("adt") == "std::result::Result" \
                    and b.local_ty(s["lhs"]["l"]) == rt and not s.get("inl"):
                out.append(bi)
    return out


def w2_free_only_in_mark_failed(C, rep, rid):
    rep.rule(rid, "PersistPaymentState::Free is constructed only by mark_failed")
    F, X = C.F, C.X
    M = get_model(C)
    n = 0
    for b, bi, s in [t for nm in sorted(F.adts) if _is_adt(canon(nm), PERSIST_ADT) for t in F.aggregates(canon(nm), "Free")]:
        if b.def_ in getattr(F, "absorbed", ()):
            continue                  # a private step spliced into its only caller: its statements are examined there
        n += 1
        mf = {d["methods"]["mark_failed"]["root"] for d in M.impls}
        ok = F.root_of(b) in mf
        if not ok:
            # a step of mark_failed split off into a private method (`self.release_payment(..).await`): every caller is mark_failed
            callers = {F.root_of(hb) for hb in F.code_bodies() for c in hb.calls if (c.resolved or c.name) == F.root_of(b) and not c.noise}
            ok = bool(callers) and callers <= mf
        rep.ob(rid, ok, F.root_of(b), "construction of the Free marker", where=loc(s["sp"]), how="inside mark_failed",
               detail="" if ok else "the Free marker is produced outside mark_failed (in %s)" % F.root_of(b))
    rep.anchor(rid, "constructions of PersistPaymentState::Free", n, 1)


def w3_succeeded_holds_preimage(C, rep, rid):
    rep.rule(rid, "mark_succeeded stores exactly the preimage it was given, under the state key; the lifecycle passes the preimage it settled with")
    F, X = C.F, C.X
    M = get_model(C)
    for d in M.impls:
        info = d["methods"]["mark_succeeded"]
        ws = [w for w in info["writes"] if w.payload == ("state", "Succeeded")]
        rep.anchor(rid, "%s: Succeeded write" % d["self_ty"], len(ws), 1, fn=info["root"] or "-")
        for w in ws:
            pe = dict(w.payload_expr[3]).get("preimage")
            ok = pe is not None and all(a[0] == "param" for a in alts(pe))
            rep.ob(rid, ok, info["root"], "stored preimage is the parameter, unmodified", where=w.call.loc, how=show(pe)[:60] if pe else "?",
                   detail="" if ok else "Succeeded record stores %s" % (show(pe)[:80] if pe else "?"))
            okk = w.key_kind == "state"
            rep.ob(rid, okk, info["root"], "Succeeded written under the state key", where=w.call.loc, how=w.key_kind, detail="" if okk else "Succeeded written under %s key" % w.key_kind)
            okm = w.mode == "CREATE_OR_REPLACE"
            rep.ob(rid, okm, info["root"], "Succeeded write is unconditional", where=w.call.loc, how=str(w.mode),
                   detail="" if okm else "Succeeded is written with mode %s: it can fail although the payment completed" % w.mode)
            first = info["writes"][0] is w
            rep.ob(rid, first, info["root"], "Succeeded marker is written before the attempt record", where=w.call.loc, how="first write",
                   detail="" if first else "the attempt record is updated before the Succeeded marker; its failure would lose the preimage")
    # lifecycle side: preimage arg of mark_succeeded == key of the Resolve that precedes it
    L = C.L
    if L is None:
        return
    import rules_lc as R
    b = L.body
    infos = R.answers_info(C)
    for m in L.mark_succeeded:
        pe = strip(X.operand(b, m.args[-1]))
        prior = [(c, resp) for c, resp, e in infos if b.dominates(c.bb, m.bb)]
        ok = False
        how = ""
        for c, resp in prior:
            for x in resp:
                if x[0] == "Resolve" and _same_value(x[1], pe):
                    ok = True
                    how = "same value as the Resolve at %s" % c.loc
        rep.ob(rid, ok, L.fn, "mark_succeeded records the preimage that was used to settle", where=m.loc, how=how,
               detail="" if ok else "mark_succeeded is given %s, which is not the key the HTLCs were settled with" % show(pe)[:100])


def _same_value(a, b):
    return show(a) == show(b)


def rt_records_roundtrip(C, rep, rid):
    rep.rule(rid, "what the store writes it can read back: the generated Serialize and Deserialize code of the persisted record types use the same field encodings (a `serialize_with` / `with` helper on one side only makes every record written unreadable - the hash is stuck on whatever the record said)")
    F = C.F
    recs = {}
    for k, b in F.by_cdef.items():
        m = re.search(r"(Serialize|Deserialize<'de>) for (store::[A-Za-z0-9_:]+)>", k)
        if not m:
            continue
        side = "ser" if m.group(1) == "Serialize" else "de"
        d = recs.setdefault(m.group(2), {"ser": set(), "de": set(), "n": 0})
        d["n"] += 1
        for c in b.calls:
            n = c.resolved or c.name
            if c.noise or "_serde" in n or "::_::" in n or n.startswith("core::") or n.startswith("std::") or n.startswith("<"):
                continue
            if n.startswith("serde::") or n.startswith("serde_json::"):
                continue
            # a helper named by `with = ".."` / `serialize_with` / `deserialize_with`: keep its module as the encoding's name
            mod_ = n.rsplit("::", 1)[0]
            d[side].add(mod_)
    rep.anchor(rid, "persisted record types with generated serde code", len([r for r, d in recs.items() if d["n"] >= 2]), 2)
    for r, d in sorted(recs.items()):
        ok = d["ser"] == d["de"]
        rep.ob(rid, ok, r, "same field encodings on the write and the read side", how="write %s / read %s" % (sorted(d["ser"]) or "plain", sorted(d["de"]) or "plain"),
               detail="" if ok else "%s is written with %s but read with %s: a record the plugin wrote cannot be parsed when it is read back (every later HTLC of that hash is failed)" % (r.split("::")[-1], sorted(d["ser"]) or "plain serde", sorted(d["de"]) or "plain serde"))


def w4_fetch_mapping(C, rep, rid):
    rep.rule(rid, "fetch_payment_info maps 'no entry' to Free and an entry to its own variant; decode failures are errors")
    F, X = C.F, C.X
    M = get_model(C)
    for d in M.impls:
        info = d["methods"]["fetch_payment_info"]
        b = info["rbody"]
        if b is None:
            continue
        r = strip(X.local(b, 0))
        # collect Ok payload alternatives
        pay = []
        for a in alts(r):
            if a[0] == "agg" and a[2] == "Ok":
                pay += list(alts(a[3][0][1]))
            elif a[0] == "call" and a[1] in ("std::ops::FromResidual::from_residual",):
                continue
            elif a[0] == "agg" and a[2] == "Err":
                continue
            else:
                pay.append(("weird", a))
        nfree = 0
        for p in pay:
            if p[0] == "agg" and p[1] == "store::PaymentState":
                ok = p[2] == "Free"
                if ok:
                    nfree += 1
                    # must be on the None arm of taking the first listed entry
                    site = p[4]
                    conds = lib.dominating_conditions(b, site[1])
                    onnone = any(c.kind == "enum" and t == ("None",) for c, t in conds)
                    rep.ob(rid, onnone, info["root"], "Free is reported only when no entry is listed", where=site[2], how="None arm of the listing's first element",
                           detail="" if onnone else "fetch_payment_info reports Free on a path that is not 'no entry'")
                    # ... and "no entry" is decided on an element that exists whenever the listing is non-empty: the listing for the exact state
                    # key has at most one entry, so first/last/next/nth(0)/get(0)/pop select it; nth(k>0)/skip(k) always see `None`
                    for c, t in conds:
                        if c.kind == "enum" and t == ("None",) and c.place is not None:
                            sel = strip(X.place(b, c.place)) if hasattr(X, "place") else None
                            bad = _skipping_selection(sel)
                            rep.ob(rid, not bad, info["root"], "the entry looked at is the one the listing returns", where=site[2], how=(bad or "first/only element"),
                                   detail="" if not bad else "the listed state entry is skipped (%s): every hash reads back as Free" % bad)
                else:
                    rep.ob(rid, False, info["root"], "fetch result", where=p[4][2], detail="fetch_payment_info fabricates state %s" % p[2])
            elif p[0] == "call":
                inl = mm.inline_call(F, X, p)
                okc = inl is not None
                rep.ob(rid, okc, info["root"], "entry is converted by a local mapping function", where=p[3][2], how=p[1], detail="" if okc else "entry converted by %s" % p[1])
                if okc:
                    _check_variant_mapping(F, X, rep, rid, p)
            else:
                rep.ob(rid, False, info["root"], "fetch result shape", where=loc(b.span), detail="fetch_payment_info can return %s" % show(p)[:100])
        rep.ob(rid, nfree == 1, info["root"], "one 'absent => Free' site", where=loc(b.span), how=str(nfree), detail="" if nfree == 1 else "%d sites report Free" % nfree, nontrivial=False)
        # the listed key is the state key of the invoice hash
        for rd in info["reads"]:
            e = strip(X.operand(b, rd.args[1]))
            kk = None
            for x in walk(e):
                if x[0] == "agg" and x[1].endswith("ListdatastoreRequest"):
                    k = dict(x[3]).get("key")
                    for y in walk(k):
                        if y[0] == "call" and F.by_cdef.get(y[1]) is not None:
                            kk = key_kind(F, X, y)
            ok = kk is not None and kk[0] == "state"
            rep.ob(rid, ok, info["root"], "reads the state key", where=rd.loc, how=str(kk[0] if kk else None), detail="" if ok else "fetch_payment_info lists key kind %s" % (kk[0] if kk else None))


def _skipping_selection(e):
    """returns a description when the selection expression e skips leading elements of the listing (nth(k!=0), skip(k!=0), get(k!=0))"""
    if e is None:
        return None
    for x in walk(e):
        if x[0] == "call" and x[2]:
            nm = x[1]
            if nm.endswith("Iterator::nth") or nm.endswith("Iterator::skip") or nm.endswith("::get") and "slice" in nm or nm.endswith("Iterator::step_by"):
                k = strip(x[2][-1])
                if not (k[0] == "const" and str(k[1]).split("_")[0] in ("0", "0usize")) and not (nm.endswith("step_by")):
                    return "%s(%s)" % (nm.split("::")[-1], show(k)[:20])
    return None


def _check_variant_mapping(F, X, rep, rid, callexpr):
    """the mapping fn matches on PersistPaymentState and constructs the same-named PaymentState variant in each arm"""
    name = callexpr[4].resolved or callexpr[1]
    b = F.by_cdef.get(name)
    if b is None:
        return
    sw = ml.arms_of_place_switch(b, X, lambda e: True)
    if not sw:
        rep.ob(rid, False, name, "mapping matches on the persisted variant", where=loc(b.span), detail="no match on PersistPaymentState")
        return
    bb, arms, cond = sw
    for v, tg in arms.items():
        made = set()
        for bi in b.reach([tg]):
            for s in b.blocks[bi]["s"]:
                if s["k"] == "assign" and s["rv"]["k"] == "agg" and s["rv"].get("adt") == "store::PaymentState":
                    made.add(s["rv"]["variant"])
        # blocks reachable from this arm only
        others = [t2 for v2, t2 in arms.items() if v2 != v]
        own = set()
        for bi in b.reach([tg]):
            if all(bi not in b.reach([o]) for o in others):
                for s in b.blocks[bi]["s"]:
                    if s["k"] == "assign" and s["rv"]["k"] == "agg" and s["rv"].get("adt") == "store::PaymentState":
                        own.add(s["rv"]["variant"])
        ok = own == {v}
        rep.ob(rid, ok, name, "persisted %s maps to %s" % (v, v), where=loc(b.term(tg)["sp"]), how=str(sorted(own)),
               detail="" if ok else "a persisted %s record is reported as %s" % (v, sorted(own)))


def w5_no_deletion_and_keys(C, rep, rid):
    rep.rule(rid, "no datastore deletion; every write is keyed by the invoice's payment hash (hex component)")
    F, X = C.F, C.X
    M = get_model(C)
    dels = []
    for b in F.code_bodies():
        for bi in sorted(b.reachable):
            for s in b.blocks[bi]["s"]:
                if s["k"] == "assign" and s["rv"]["k"] == "agg" and "Deldatastore" in s["rv"].get("adt", ""):
                    dels.append((b, loc(s["sp"])))
        for c in b.calls:
            if "deldatastore" in (c.name or "").lower() or "DeldatastoreRequest" in c.full:
                dels.append((b, c.loc))
    rep.ob(rid, not dels, "crate", "no deldatastore request anywhere", where=dels[0][1] if dels else "", how="0 sites",
           detail="" if not dels else "datastore records are deleted in %s" % dels[0][0].cdef)
    for d in M.impls:
        for m, info in d["methods"].items():
            for w in info["writes"]:
                h = w.key_hash
                ok = h is not None and all(a[0] == "call" and a[1] == "lightning_invoice::Bolt11Invoice::payment_hash" and any(x[0] == "field" and x[1] == "invoice" and x[2] == "messages::TrampolineInfo" for x in walk(a)) for a in alts(h))
                rep.ob(rid, ok and w.key_hexed, info["root"], "write key = f(invoice payment hash)", where=w.call.loc, how="%s key of %s" % (w.key_kind, show(h)[:60] if h else "?"),
                       detail="" if ok and w.key_hexed else "datastore key is built from %s (hex component: %s)" % (show(h)[:80] if h else "?", w.key_hexed))
                okk = w.key_kind in ("state", "attempt")
                rep.ob(rid, okk, info["root"], "key kind recognised", where=w.call.loc, how=w.key_kind, detail="" if okk else "unrecognised key constructor", nontrivial=False)


# ============================================================================ C09-M
def m_modes_vs_images(C, rep, rid):
    rep.rule(rid, "write modes are satisfiable on every stored image that a crash or failed write can leave behind (explicit fixed point over abstract images)")
    F, X = C.F, C.X
    if not need_store(C, rep, rid):
        return
    M = get_model(C)
    for d in M.impls:
        meth = d["methods"]
        seqs = {}
        okshape = True
        for m in ("add_payment_attempt", "mark_failed", "mark_succeeded"):
            ws = meth[m]["writes"]
            seq = []
            for w in ws:
                okw = w.key_kind in ("state", "attempt") and w.mode is not None and w.payload is not None
                rep.ob(rid, okw, meth[m]["root"], "write record is fully resolved", where=w.call.loc, how="%s/%s/%s/gen=%s" % (w.key_kind, w.mode, w.payload, "yes" if w.generation is not None else "no"),
                       detail="" if okw else "cannot resolve key kind / mode / payload of this datastore write", nontrivial=False)
                okshape = okshape and okw
                seq.append(w)
            seqs[m] = seq
        if not okshape:
            continue
        # freshness of the attempt id used with must-create
        for w in seqs["add_payment_attempt"]:
            if w.key_kind == "attempt" and w.mode in ("MUST_CREATE", "DEFAULT(MUST_CREATE)"):
                kid = strip(mm.inline_pure(F, X, w.key_id, depth=2)) if w.key_id is not None else None     # `unix_now()` helpers are what they return
                fresh = kid is not None and any(x[0] == "call" and x[1] == "std::time::SystemTime::now" for x in walk(kid))
                rep.ob(rid, fresh, meth["add_payment_attempt"]["root"], "must-create attempt key is fresh (clock derived)", where=w.call.loc, how=show(w.key_id)[:60] if w.key_id else "?",
                       detail="" if fresh else "attempt key %s is created with must-create but is not fresh: a second attempt for the hash fails forever" % (show(w.key_id)[:60] if w.key_id else "?"))
        # every write's failure is propagated and no success return skips a later write
        for m in ("add_payment_attempt", "mark_failed", "mark_succeeded"):
            b = meth[m]["wbody"]
            if b is None:
                continue
            oks = _ok_return_blocks(b)
            for i, w in enumerate(seqs[m]):
                cont = getattr(w, "cont", None)
                for ob in oks:
                    okd = cont is not None and b.node_cut({cont}, ob)
                    rep.ob(rid, okd, meth[m]["root"], "%s reports success only after its write #%d succeeded" % (m, i), where=w.call.loc, how="Ok(..) dominated by the write's success arm",
                           detail="" if okd else "%s can return Ok although its write #%d (%s key) failed or was skipped: the caller believes the stored image changed when it did not" % (m, i, w.key_kind))
        res = explore_images(seqs)
        rep.ob(rid, True, d["self_ty"], "image exploration", how="%d reachable images, %d method runs" % (len(res["images"]), res["runs"]), nontrivial=False)
        for (img, m, idx, why) in res["wedges"]:
            w = seqs[m][idx]
            rep.ob(rid, False, meth[m]["root"], "recovery write #%d on image %s" % (idx, img), where=w.call.loc,
                   detail="on stored image state=%s attempt-record=%s (reachable: %s) the recovery call %s fails at its write #%d (%s %s key): %s - the hash stays unpayable" % (
                       img[0], img[1], res["how"].get(img, "?"), m, idx, w.mode, w.key_kind, why))
        if not res["wedges"]:
            for m in ("add_payment_attempt", "mark_failed", "mark_succeeded"):
                for i, w in enumerate(seqs[m]):
                    rep.ob(rid, True, meth[m]["root"], "%s write #%d (%s on %s key) succeeds on every reachable image" % (m, i, w.mode, w.key_kind), where=w.call.loc,
                           how="checked on %d images" % len(res["images"]))


def _pre(w, img):
    st, att = img
    if w.key_kind == "state":
        present = st != "absent"
    else:
        present = att not in ("absent", "na")
        if att == "na":
            present = False
    mode = w.mode
    if mode in ("MUST_CREATE", "DEFAULT(MUST_CREATE)"):
        if present:
            return "must-create on an existing key"
    elif mode in ("MUST_REPLACE",):
        if not present:
            return "must-replace on a missing key"
    elif mode in ("MUST_APPEND", "CREATE_OR_APPEND"):
        if mode == "MUST_APPEND" and not present:
            return "must-append on a missing key"
    if w.generation is not None and w.key_kind == "state" and st == "absent":
        return "generation-conditional write on a missing key"
    return None


def _apply(w, img, fresh_attempt=False):
    st, att = img
    if w.key_kind == "state":
        st = w.payload[1]
        if st == "Pending" and fresh_attempt:
            att = "absent"
    else:
        att = w.payload[1]
    return (st, att)


def explore_images(seqs):
    """reachable images under crashes / failed writes; wedges = recovery writes whose precondition
    fails on a reachable image without any further fault"""
    start = ("absent", "na")
    images = {start}
    how = {start: "fresh hash"}
    work = [start]
    wedges = []
    seen_w = set()
    runs = 0

    def run(m, img, fresh):
        """returns list of images after every prefix (crash or failed write; a failed write may or may
        not have been applied), plus final image; records wedges"""
        nonlocal runs
        runs += 1
        outs = []
        cur = img
        if fresh:
            cur = (cur[0], "absent")   # a new attempt id: its record does not exist yet
        for i, w in enumerate(seqs[m]):
            why = _pre(w, cur)
            if why is not None:
                key = (img, m, i)
                if key not in seen_w:
                    seen_w.add(key)
                    wedges.append((img, m, i, why))
                return outs, None
            outs.append(cur)                 # crash / rejected before applying
            cur = _apply(w, cur, fresh_attempt=fresh)
            outs.append(cur)                 # applied (then crash, or reported failed)
        return outs, cur

    while work:
        img = work.pop()
        st, att = img
        nxt = []
        if st in ("absent", "Free"):
            outs, fin = run("add_payment_attempt", img, True)
            nxt += [(o, "add_payment_attempt interrupted") for o in outs]
            if fin is not None:
                nxt.append((fin, "add_payment_attempt completed"))
        if st == "Pending":
            # nothing live -> mark_failed ; completed -> mark_succeeded (failure only logged)
            outs, fin = run("mark_failed", img, False)
            nxt += [(o, "mark_failed interrupted") for o in outs]
            if fin is not None:
                nxt.append((fin, "mark_failed completed"))
            outs, fin = run_nowedge(seqs, "mark_succeeded", img)
            nxt += [(o, "mark_succeeded interrupted") for o in outs]
        for o, h in nxt:
            if o not in images:
                images.add(o)
                how[o] = "%s from %s" % (h, img)
                work.append(o)
    return {"images": images, "wedges": wedges, "how": how, "runs": runs}


def run_nowedge(seqs, m, img):
    outs = []
    cur = img
    for w in seqs[m]:
        if _pre(w, cur) is not None:
            return outs, None
        outs.append(cur)
        cur = _apply(w, cur)
        outs.append(cur)
    return outs, cur
