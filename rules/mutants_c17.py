C = "src/cln_plugin/codec.rs"
M = "src/cln_plugin/mod.rs"
L = "src/cln_plugin/logging.rs"
MUTANTS = [
    {"name": "handler-awaited-inline", "control": True, "expect": ["C17-R2", "C17-R1"],
     "edits": [(M, "                        tokio::spawn(async move {\n                            match call.await {", "                        let _inline = (async move {\n                            match call.await {"),
               (M, "                                    .context(\"returning custom error\"),\n                            }\n                        });", "                                    .context(\"returning custom error\"),\n                            }\n                        }).await;")]},
    {"name": "decoder-remembers-offset", "control": True, "expect": ["C17-D1"],
     "edits": [(C, "pub struct MultiLineCodec {}", "pub struct MultiLineCodec { #[allow(dead_code)] last_scanned: usize }"), (C, "#[derive(Default)]\npub struct MultiLineCodec", "#[derive(Default)]\npub struct MultiLineCodec")]},
    {"name": "split-without-separator", "control": True, "expect": ["C17-D2"],
     "edits": [(C, "            let line = buf.split_to(newline_offset + 2);\n            let line = &line[..line.len() - 2];", "            let line = buf.split_to(newline_offset);\n            let line = &line[..];")]},
    {"name": "error-reply-null-id", "expect": ["C17-R1"],
     "edits": [(M, "                                    \"jsonrpc\": \"2.0\",\n                                    \"id\": id,\n                                    \"error\": parse_error(e.to_string()),", "                                    \"jsonrpc\": \"2.0\",\n                                    \"id\": serde_json::Value::Null,\n                                    \"error\": parse_error(e.to_string()),")]},
    {"name": "second-framed-write-for-logs", "expect": ["C17-W"],
     "edits": [(L, "            let _ = out.lock().await.send(payload).await;", "            let mut raw = tokio_util::codec::FramedWrite::new(tokio::io::stdout(), JsonCodec::default());\n            let _ = raw.send(payload.clone()).await;\n            let _ = out.lock().await.send(payload).await;")]},
    {"name": "search-from-index-one", "expect": ["C17-D2"],
     "edits": [(C, "    buf.iter()\n        .zip(buf.iter().skip(1))", "    buf.iter().skip(1)\n        .zip(buf.iter().skip(2))")]},
    {"name": "encoder-single-newline", "expect": ["C17-W"],
     "edits": [(C, "        buf.put_u8(b'\\n');\n        buf.put_u8(b'\\n');", "        buf.put_u8(b'\\n');")]},
    {"name": "reply-on-ok-only", "expect": ["C17-R1"],
     "edits": [(M, "                                Err(e) => plugin\n                                    .sender\n                                    .send(json!({\n                                    \"jsonrpc\": \"2.0\",\n                                    \"id\": id,\n                                    \"error\": parse_error(e.to_string()),\n                                    }))\n                                    .await\n                                    .context(\"returning custom error\"),", "                                Err(e) => { let _ = (e, id); Ok(()) }")]},
    {"name": "json-layer-decodes-twice", "expect": ["C17-D2"],
     "edits": [(C, "            Ok(None) => Ok(None),\n            Err(e) => Err(e),\n            Ok(Some(s)) => {\n                if let Ok(v) = Value::from_str(&s) {", "            Ok(None) => Ok(None),\n            Err(e) => Err(e),\n            Ok(Some(s)) => {\n                if s.is_empty() { let _ = self.inner.decode(buf); }\n                if let Ok(v) = Value::from_str(&s) {")]},
    {"name": "println-debug", "expect": ["C17-W"],
     "edits": [(M, "                        trace!(\"Dispatching custom method {:?}\", request);", "                        trace!(\"Dispatching custom method {:?}\", request);\n                        println!(\"dispatching\");")]},
    {"name": "writer-send-raced", "expect": ["C17-W"],
     "edits": [(M, "                            output.lock().await.send(\n                    v.context(\"internal communication error\")?\n                            ).await?;", "                            let mut g = output.lock().await;\n                            tokio::select! { r = g.send(v.context(\"internal communication error\")?) => r?, _ = tokio::time::sleep(std::time::Duration::from_millis(50)) => {} }")]},
]
EQUIV = [
    {"name": "eq-extra-trace", "edits": [(M, "                        let plugin = plugin.clone();\n                        let call = callback(plugin.clone(), params);", "                        let plugin = plugin.clone();\n                        trace!(\"calling\");\n                        let call = callback(plugin.clone(), params);")]},
    {"name": "eq-put-slice", "edits": [(C, "        buf.put(line.as_bytes());", "        buf.put_slice(line.as_bytes());")]},
]
