"""Panic-site / integer discipline (DESIGN 4.7, 4.8): enumerate every panic-capable or wrap-capable
site of a set of bodies and discharge each by guard, interval, origin, or a named exception."""
import re
from mir import Call, canon, loc, is_noise_span, span_macros, strip, walk, alts, show
import lib
from lib import Intervals, INT_RANGES, third_party_expansion, user_panic_macro

ARITH_OPS = {"Add", "Sub", "Mul", "AddWithOverflow", "SubWithOverflow", "MulWithOverflow", "Div", "Rem", "Shl", "Shr"}

UNWRAPS = {"std::option::Option::unwrap", "std::option::Option::expect", "std::result::Result::unwrap",
           "std::result::Result::expect", "std::result::Result::unwrap_err", "std::result::Result::expect_err",
           "std::option::Option::unwrap_unchecked", "std::result::Result::unwrap_unchecked"}

# bytes needed by the partial reads of bytes::Buf
BUF_READS = {"get_u8": 1, "get_i8": 1, "get_u16": 2, "get_i16": 2, "get_u16_le": 2, "get_i16_le": 2,
             "get_u32": 4, "get_i32": 4, "get_u32_le": 4, "get_i32_le": 4, "get_f32": 4,
             "get_u64": 8, "get_i64": 8, "get_u64_le": 8, "get_i64_le": 8, "get_f64": 8,
             "get_u128": 16, "get_i128": 16, "get_u128_le": 16}
BUF_LEN_ARG = {"copy_to_bytes", "advance", "copy_to_slice", "get_uint", "get_int", "split_to", "split_off", "truncate"}
BUF_CONSUMERS = set(BUF_READS) | {"copy_to_bytes", "advance", "copy_to_slice", "get_uint", "get_int", "split_to",
                                  "split_off", "get_compact_size", "get_tu64", "take", "clear", "truncate"}

# other partial third-party / std API:  canon name -> short reason it can panic
PARTIAL_CALLS = {
    "std::vec::Vec::remove": "index out of bounds",
    "std::vec::Vec::swap_remove": "index out of bounds",
    "std::vec::Vec::insert": "index out of bounds",
    "std::vec::Vec::drain": "range out of bounds",
    "std::vec::Vec::split_off": "index out of bounds",
    "core::slice::<impl [T]>::copy_from_slice": "length mismatch",
    "core::slice::<impl [T]>::clone_from_slice": "length mismatch",
    "core::slice::<impl [T]>::split_at": "index out of bounds",
    "core::slice::<impl [T]>::split_at_mut": "index out of bounds",
    "core::slice::<impl [T]>::chunks": "zero chunk size",
    "core::slice::<impl [T]>::windows": "zero window size",
    "bytes::BytesMut::split_to": "index out of bounds",
    "bytes::BytesMut::split_off": "index out of bounds",
    "bytes::Bytes::split_to": "index out of bounds",
    "bytes::Bytes::split_off": "index out of bounds",
    "bytes::Bytes::slice": "range out of bounds",
    "bytes::Bytes::truncate": None,  # never panics
    "tokio::sync::mpsc::channel": "zero capacity",
    "tokio::sync::broadcast::channel": "zero capacity",
    "lightning_invoice::Bolt11Invoice::get_payee_pub_key": "panics when the signature cannot be recovered",
    "lightning_invoice::Bolt11Invoice::recover_payee_pub_key": "panics when the signature cannot be recovered",
    "std::time::Duration::from_secs_f64": "negative/overflow",
    "std::time::Duration::from_secs_f32": "negative/overflow",
    "std::iter::Iterator::step_by": "zero step",
    "std::string::String::remove": "index",
    "std::string::String::insert": "index",
    "std::string::String::split_off": "index",
    "std::string::String::truncate": "panics when the new length is not on a char boundary",
    "std::string::String::insert_str": "index",
    "std::string::String::drain": "range not on char boundaries",
    "std::string::String::replace_range": "range not on char boundaries",
    "core::str::<impl str>::split_at_mut": "index",
    "core::str::<impl str>::split_at": "index",
    "std::time::Instant::duration_since": None,
    "std::process::exit": "terminates the process",
    "std::process::abort": "terminates the process",
    "std::cell::RefCell::borrow_mut": "already borrowed",
    "std::cell::RefCell::borrow": "already mutably borrowed",
    "tokio::runtime::Handle::block_on": "blocking inside async context",
    "futures::executor::block_on": "blocking inside async context",
}

# operator-trait calls that panic on overflow for time types
TIME_OP_TRAITS = {"std::ops::Add::add", "std::ops::Sub::sub", "std::ops::AddAssign::add_assign",
                  "std::ops::SubAssign::sub_assign", "std::ops::Mul::mul", "std::ops::Div::div"}
TIME_TYPES = ("std::time::Duration", "std::time::Instant", "std::time::SystemTime", "tokio::time::Instant")

# ---------------------------------------------------------------------------- named exceptions
# keyed by (root fn cdef, site kind/callee) - never by line.  One line of reason each.
NAMED = {
    ("tlv::ProtoBuf::get_tu64", "core::slice::<impl [T]>::copy_from_slice"):
        "chunk() of the three ProtoBuf implementors (Bytes, &[u8], Take<Bytes>) is the whole remaining window; destination "
        "b[8-remaining..] has length `remaining` (interval-proved 1..=8), so the lengths agree",
    ("<cln_plugin::codec::MultiLineCodec as tokio_util::codec::Decoder>::decode", "bytes::BytesMut::split_to"):
        "offset comes from find_separator's position() over zip(buf, buf.skip(1)), so offset+1 < len and offset+2 <= len",
    ("<cln_plugin::codec::MultiLineCodec as tokio_util::codec::Decoder>::decode", "arith:Add"):
        "offset indexes an in-memory buffer (< isize::MAX), offset + 2 cannot overflow usize",
    ("<cln_plugin::codec::MultiLineCodec as tokio_util::codec::Decoder>::decode", "arith:Sub"):
        "the split-off piece has length offset + 2 >= 2",
    ("<cln_plugin::codec::MultiLineCodec as tokio_util::codec::Encoder<T>>::encode", "arith:Add"):
        "line.len() is an in-memory length (<= isize::MAX); + 2 cannot overflow usize",
    ("<cln_plugin::logging::trace::LoggingLayer as tracing_subscriber::Layer<S>>::on_event", "unwrap:tokio::sync::mpsc::UnboundedSender::send"):
        "the receiver lives in the writer task, which ends only when every sender is gone",
}


class Site:
    __slots__ = ("kind", "body", "bb", "where", "what", "call", "stmt", "root", "detail")

    def __init__(self, kind, body, bb, where, what, call=None, stmt=None):
        self.kind = kind
        self.body = body
        self.bb = bb
        self.where = where
        self.what = what
        self.call = call
        self.stmt = stmt
        self.root = None
        self.detail = ""


def scope_files_default(path):
    """handler scope by source file (DESIGN 4.8)"""
    p = path
    if p.startswith("/repo/"):
        p = p[len("/repo/"):]
    if not p.startswith("src/"):
        return False
    if p in ("src/email.rs", "src/main.rs", "src/cln_plugin/options.rs", "src/cln_plugin/messages.rs"):
        return False
    return True


MOD_RS_SCOPE = ("cln_plugin::PluginDriver::", "cln_plugin::parse_error", "cln_plugin::Plugin::state")


def in_handler_scope(F, body):
    f = body.span.get("f", "")
    if f.startswith("/repo/"):
        f = f[len("/repo/"):]
    if not scope_files_default(f):
        return False
    if f == "src/cln_plugin/mod.rs":
        return any(body.cdef.startswith(p) for p in MOD_RS_SCOPE)
    return True


def recv_root(body, o, maxn=30):
    """base local a receiver operand refers to (through refs, derefs, copies, reborrows)"""
    n = 0
    while n < maxn:
        n += 1
        if o["k"] not in ("copy", "move"):
            return None
        pl = o["pl"]
        fields = [p for p in pl["p"] if p["k"] != "deref"]
        if fields:
            return lib.place_key(pl)
        l = pl["l"]
        if 1 <= l <= body.arg_count:
            return (l,)
        ds = [d for d in body.defs.get(l, []) if not d[2]]
        if len(ds) != 1 or ds[0][3] != "rv":
            return (l,)
        rv = ds[0][4]
        if rv["k"] == "use":
            o = rv["op"]
            continue
        if rv["k"] in ("ref", "rawptr"):
            o = {"k": "copy", "pl": rv["pl"]}
            continue
        return (l,)
    return None


def enumerate_sites(F, bodies):
    sites = []
    for body in bodies:
        root = F.root_of(body)
        for bb in sorted(body.reachable):
            blk = body.blocks[bb]
            for s in blk["s"]:
                if s["k"] != "assign":
                    continue
                rv = s["rv"]
                sp = s["sp"]
                if is_noise_span(sp) or third_party_expansion(sp):
                    continue
                if rv["k"] == "bin" and rv["op"] in ARITH_OPS:
                    # only integer arithmetic (floats have no overflow semantics here)
                    st = Site("arith", body, bb, loc(sp), "arith:" + rv["op"].replace("WithOverflow", ""), stmt=s)
                    st.root = root
                    sites.append(st)
            t = blk["t"]
            sp = t["sp"]
            if is_noise_span(sp):
                continue
            if t["k"] == "assert":
                if third_party_expansion(sp):
                    continue
                msg = t["msg"]
                if msg.startswith("Overflow:"):
                    continue  # the arithmetic statement itself is the site (both overflow configs)
                st = Site("assert", body, bb, loc(sp), "assert:" + msg, stmt=t)
                st.root = root
                sites.append(st)
            elif t["k"] == "call":
                c = Call(body, bb, t)
                tp = third_party_expansion(sp)
                if c.target is None:
                    if tp:
                        continue
                    macs = span_macros(sp)
                    st = Site("diverge", body, bb, c.loc, "diverge:" + (macs[-1] if macs else c.name), call=c)
                    st.root = root
                    sites.append(st)
                    continue
                if tp:
                    continue
                name = c.name
                if name in UNWRAPS:
                    st = Site("unwrap", body, bb, c.loc, "unwrap", call=c)
                elif c.fn.get("trait") and canon(c.fn["trait"]) == "bytes::Buf" and (c.mname in BUF_READS or c.mname in BUF_LEN_ARG):
                    st = Site("bufread", body, bb, c.loc, "bytes::Buf::" + c.mname, call=c)
                elif name in PARTIAL_CALLS and PARTIAL_CALLS[name] is not None:
                    st = Site("partial", body, bb, c.loc, name, call=c)
                elif name in ("std::ops::Index::index", "std::ops::IndexMut::index_mut"):
                    st = Site("index", body, bb, c.loc, "index", call=c)
                elif name in TIME_OP_TRAITS and c.self_ty and c.self_ty.startswith(TIME_TYPES):
                    st = Site("timeop", body, bb, c.loc, name + "<" + c.self_ty + ">", call=c)
                else:
                    continue
                st.root = root
                sites.append(st)
    return sites


class Discharger:
    def __init__(self, F, X):
        self.F = F
        self.X = X

    # each returns (ok, how)
    def discharge(self, s):
        k = s.kind
        fn = getattr(self, "_d_" + k)
        ok, how = fn(s)
        if ok:
            return ok, how
        # named exceptions
        key = (s.root, s.what)
        if key in NAMED:
            return True, "named exception: " + NAMED[key]
        if s.kind == "arith":
            key = (s.root, s.what)
            if key in NAMED:
                return True, "named exception: " + NAMED[key]
        return False, how

    # -- arithmetic
    def _d_arith(self, s):
        rv = s.stmt["rv"]
        op = rv["op"].replace("WithOverflow", "")
        body = s.body
        iv = Intervals(body)
        ta = iv.operand_ty(rv["a"]) or iv.operand_ty(rv["b"])
        if ta is None:
            # non-integer (float) arithmetic: no panic
            lt = body.local_ty(s.stmt["lhs"]["l"])
            if lt in ("f32", "f64"):
                return True, "float arithmetic"
            # result type from lhs for WithOverflow tuples
            m = re.match(r"\((\w+), bool\)", lt)
            ta = m.group(1) if m else (lt if lt in INT_RANGES else None)
            if ta is None:
                return False, "cannot type operands"
        a = iv.at(rv["a"], s.bb)
        b = iv.at(rv["b"], s.bb)
        if a is None or b is None:
            return False, "operand interval unknown"
        if op in ("Div", "Rem"):
            if b[0] <= 0 <= b[1]:
                return False, "divisor interval %s contains 0" % (b,)
            if ta.startswith("i") and b[0] <= -1 <= b[1] and a[0] == INT_RANGES[ta][0]:
                return False, "MIN / -1 possible"
            return True, "divisor in %s" % (b,)
        if op in ("Shl", "Shr"):
            bits = {"8": 8, "16": 16, "32": 32, "64": 64, "128": 128, "size": 64}[re.sub(r"^[ui]", "", ta)]
            if 0 <= b[0] and b[1] < bits:
                return True, "shift amount in %s" % (b,)
            return False, "shift amount %s may exceed %d bits" % (b, bits)
        if op == "Sub":
            ka, kb = lib.operand_key(body, rv["a"]), lib.operand_key(body, rv["b"])
            for cnd, truth in lib.dominating_conditions(body, s.bb):
                if cnd.kind != "cmp":
                    continue
                ca, cb = lib.operand_key(body, cnd.a), lib.operand_key(body, cnd.b)
                o2 = cnd.op if truth else {"Lt": "Ge", "Le": "Gt", "Gt": "Le", "Ge": "Lt", "Eq": "Ne", "Ne": "Eq"}[cnd.op]
                if (ca, cb) == (ka, kb) and o2 in ("Ge", "Gt", "Eq") or (ca, cb) == (kb, ka) and o2 in ("Le", "Lt", "Eq"):
                    if ka[0] == "place" and kb[0] == "place" and a[0] >= 0:
                        return True, "dominated by minuend >= subtrahend"
        r = lib.arith(op, a, b)
        if r is None:
            return False, "no interval for %s" % op
        if lib.fits(r, ta):
            return True, "interval %s %s %s = %s fits %s" % (a, op, b, r, ta)
        return False, "interval %s %s %s = %s exceeds %s (unchecked %s can overflow)" % (fmt(a), op, fmt(b), fmt(r), ta, op)

    def _d_assert(self, s):
        t = s.stmt
        msg = t["msg"]
        body = s.body
        iv = Intervals(body)
        if msg in ("DivisionByZero", "RemainderByZero"):
            d = iv.at(t["mops"][0], s.bb) if t["mops"] else None
            # the assert's operand is the dividend in some versions; find the following Div statement's divisor
            nxt = t["t"]
            for st in body.blocks[nxt]["s"]:
                if st["k"] == "assign" and st["rv"]["k"] == "bin" and st["rv"]["op"] in ("Div", "Rem"):
                    dv = iv.at(st["rv"]["b"], nxt)
                    if dv is not None and not (dv[0] <= 0 <= dv[1]):
                        return True, "divisor in %s" % (dv,)
                    return False, "divisor interval %s contains 0" % (dv,)
            return False, "division without provably non-zero divisor"
        if msg == "BoundsCheck":
            ln = iv.at(t["mops"][0], s.bb)
            ix = iv.at(t["mops"][1], s.bb)
            if ln is not None and ix is not None and ix[1] < ln[0]:
                return True, "index %s < len %s" % (ix, ln)
            return False, "index %s not provably below len %s" % (ix, ln)
        if msg == "OverflowNeg":
            return False, "negation may overflow"
        return False, "assert " + msg

    def _d_diverge(self, s):
        # `let Some(x) = e else { panic!(..) }` / `match e { None => panic!(..), .. }` is `e.expect(..)` written out:
        # the site is reached exactly when e is None/Err, so it is discharged like the unwrap of e
        macs = span_macros(s.call.sp) if s.call is not None else []
        if macs and macs[-1] == "todo" and "src/cln_plugin/" in s.body.span.get("f", ""):
            # the typed arms of the framework's message enum: messages::Request / messages::Notification have only the
            # getmanifest/init variants, which the node sends once before the driver loop starts; everything else is
            # decoded as the Custom* variants
            for cnd, truth in lib.dominating_conditions(s.body, s.bb):
                if cnd.kind == "enum" and getattr(cnd, "enum_ty", "").startswith("cln_plugin::messages::JsonRpc<") and isinstance(truth, tuple) \
                        and set(truth) <= {"Request", "Notification"}:
                    return True, "structural exception: typed Request/Notification variants are only getmanifest/init, sent once by the node before the driver loop starts"
        if macs and macs[-1] in ("panic", "unreachable", "std::panic", "core::panic"):
            best = None
            for cnd, truth in lib.dominating_conditions(s.body, s.bb):
                if cnd.kind == "enum" and truth in (("None",), ("Err",)):
                    best = cnd
            if best is not None:
                e = strip(self.X.place(s.body, best.place))
                shim = Site("unwrap", s.body, s.bb, s.where, s.what, call=None)
                shim.root = s.root
                ok = True
                how = ""
                for a in alts(e):
                    ok, how = self._unwrap_alt(shim, a)
                    if not ok:
                        break
                if ok:
                    s.what = shim.what
                    return True, "panic on the None/Err arm of %s: %s" % (show(e)[:60], how)
        return False, "explicit panic site (%s)" % s.what

    # -- unwrap / expect
    def _d_unwrap(self, s):
        c = s.call
        body = s.body
        e = strip(self.X.operand(body, c.args[0]))
        # peel context()/map_err()/ok_or wrappers
        for _ in range(4):
            if e[0] == "call" and e[1] in ("anyhow::Context::context", "anyhow::Context::with_context",
                                           "std::result::Result::map_err", "std::option::Option::as_ref",
                                           "std::option::Option::as_mut", "std::result::Result::as_ref") and e[2]:
                e = e[2][0]
            else:
                break
        for a in alts(e):
            ok, how = self._unwrap_alt(s, a)
            if not ok:
                return False, how
        s.detail = show(e)
        return True, how

    def _unwrap_alt(self, s, e):
        body = s.body
        if e[0] == "call":
            n = e[1]
            if n == "std::sync::Mutex::lock":
                return True, "std Mutex poisoning presupposes an earlier panic in a critical section (all of them are covered by this rule)"
            if n == "std::time::SystemTime::duration_since":
                a0 = e[2][0] if e[2] else None
                a1 = e[2][1] if len(e[2]) > 1 else None
                if a0 and a0[0] == "call" and a0[1] == "std::time::SystemTime::now" and a1 and (a1[0] == "constdef" and "UNIX_EPOCH" in a1[1] or (a1[0] == "const" and "UNIX_EPOCH" in str(a1[1]))):
                    return True, "SystemTime::now().duration_since(UNIX_EPOCH) fails only with a pre-1970 clock"
                return False, "duration_since on arbitrary times can fail"
            if n == "tokio::sync::mpsc::UnboundedSender::send":
                s.what = "unwrap:tokio::sync::mpsc::UnboundedSender::send"
                return False, "send on unbounded channel fails if the receiver is gone"
            if n in ("std::collections::HashMap::get", "std::collections::HashMap::remove", "std::collections::HashMap::get_mut"):
                return self._table_entry(s, e)
            if n == "serde_json::to_value" or n == "serde_json::to_string":
                return False, "serialisation can fail"
        if e[0] == "await":
            inner = e[1]
            for a in alts(inner):
                # oneshot receiver created in the same function
                if a[0] == "field" and a[1] == "1" and a[4][0] == "call" and a[4][1] == "tokio::sync::oneshot::channel":
                    s.what = "unwrap:oneshot-receiver"
                    return self._oneshot_receiver(s)
            # notification handler future awaited in a task of its own (tokio::spawn(async move { cb(..).await.unwrap() })) in the
            # plugin framework: a failing notification handler panics only that task; C20 tolerates a lost notification
            if "src/cln_plugin/" in body.span.get("f", "") and body.coroutine and \
                    any(a[0] == "call" and a[1] in ("std::ops::Fn::call", "std::ops::FnMut::call_mut", "std::ops::FnOnce::call_once") for a in alts(inner)):
                spawned = False
                for (pb, bi, si, ops, st) in self.F.closure_sites.get(body.def_, []):
                    for c2 in pb.calls:
                        if c2.name == "tokio::spawn" and c2.args and any(y[0] == "agg" and y[1] == "closure:" + body.cdef for y in walk(strip(self.X.operand(pb, c2.args[0])))):
                            spawned = True
                if spawned:
                    s.what = "unwrap:notification-task"
                    return True, "structural exception: a failing notification handler panics only its own spawned task; C20 tolerates a lost notification"
        # guarded by is_some()/is_ok() on the same place
        if s.call is None:
            return False, "value not proved Some/Ok: %s" % show(e)[:160]
        recv = recv_root(body, s.call.args[0])
        for cnd, truth in lib.dominating_conditions(body, s.bb):
            if cnd.kind == "call" and truth and cnd.call.name in ("std::option::Option::is_some", "std::result::Result::is_ok"):
                if recv_root(body, cnd.call.args[0]) == recv:
                    return True, "dominated by %s() on the same place" % cnd.call.mname
        return False, "unwrap/expect on a value not proved Some/Ok: %s" % show(e)[:160]

    def _table_entry(self, s, e):
        """HashMap::get/remove(..).expect on the payments table inside the lifecycle group: discharged
        by typestate - the entry was inserted under the lock by the handler that spawned this lifecycle,
        and no ANSWER/TABLE_REM precedes the site on any path (checked here)."""
        body = s.body
        # the map must be the payments table guard
        ok_recv = False
        for x in walk(e[2][0] if e[2] else ()):
            if x[0] == "call" and x[1] == "tokio::sync::Mutex::lock":
                ok_recv = True
        if not ok_recv:
            return False, "HashMap lookup not on a locked table"
        # no TABLE_REM / ANSWER-effect call before this site on any path in this body, and the enclosing
        # group is the lifecycle or a function called only by it
        prior = []
        F = self.F
        origin_bb = e[3][1] if len(e) > 3 else -1
        for c in body.calls:
            if c.bb == s.bb or c.noise or c.bb == origin_bb:
                continue
            eff = lib.call_effects(c)
            callee = c.resolved or c.name
            sub = lib.may_effects(F, callee) if (callee in F.fns) else {}
            if "TABLE_REM" in eff or "TABLE_REM" in sub:
                if s.bb in body.reach_after([c.bb]):
                    prior.append(c)
        if prior:
            return False, "table entry may already have been removed by %s at %s" % (prior[0].name, prior[0].loc)
        s.what = "unwrap:table-entry"
        callers_ok = self._only_lifecycle_context(s.root)
        if not callers_ok:
            return False, "table lookup outside the lifecycle context"
        return True, "typestate: entry inserted under the table lock by the spawning handler; no removal precedes this site on any path; only the lifecycle (one per entry) removes it"

    def _only_lifecycle_context(self, root):
        """root is the lifecycle group itself or is referenced only from it"""
        F = self.F
        lc = lifecycle_root(F)
        if lc is None:
            return False
        if root == lc:
            return True
        refs = F.fn_refs(root)
        if not refs:
            return False
        for (b, bi, w) in refs:
            if F.root_of(b) != lc:
                return False
        return True

    def _oneshot_receiver(self, s):
        """receiver.await.unwrap() on a oneshot created in the same body: fails only if the sender is
        dropped unanswered.  Structural discharge: the sender operand flows into exactly one call (the
        add-listener), on every path from channel creation to the await (C06-P4), and the add-listener
        either sends or stores it (C06-P5)."""
        body = s.body
        F = self.F
        ch = [c for c in body.calls if c.name == "tokio::sync::oneshot::channel"]
        if len(ch) != 1:
            return False, "cannot identify the oneshot channel"
        # find calls taking the sender (type oneshot::Sender<...>) as argument
        sender_locals = set(body.locals_of_type(r"^tokio::sync::oneshot::Sender<"))
        takers = []
        for c in body.calls:
            for a in c.args:
                if a["k"] == "move" and a["pl"]["l"] in sender_locals and not a["pl"]["p"]:
                    takers.append(c)
        takers = [c for c in takers if c.name not in ("std::mem::drop",)]
        if not takers:
            return False, "oneshot sender is never handed to anyone"
        # every path from entry to the await of the receiver passes a taker or returns before
        await_bb = s.bb
        tb = {c.bb for c in takers}
        if await_bb in body.reach([0], removed_nodes=tb):
            return False, "a path reaches the receiver await without handing the sender on"
        # each taker must keep or answer the sender on all paths
        for c in takers:
            callee = c.resolved or c.name
            ok, why = sender_kept_or_answered(F, callee)
            if not ok:
                return False, "callee %s may drop the sender: %s" % (callee, why)
        return True, "sender is handed to %s on every path to the await; the callee sends on it or stores it in the listener list on every path" % ", ".join(sorted({c.name for c in takers}))

    # -- Buf reads
    def _d_bufread(self, s):
        c = s.call
        body = s.body
        m = c.mname
        recv = recv_root(body, c.args[0])
        if recv is None:
            return False, "cannot resolve the receiver"
        iv = Intervals(body)
        need_const = BUF_READS.get(m)
        # candidate remaining() calls on the same receiver that dominate the site with no consumer in between
        cands = []
        for r in body.calls:
            if not (r.fn.get("trait") and canon(r.fn["trait"]) == "bytes::Buf" and r.mname == "remaining"):
                continue
            if recv_root(body, r.args[0]) != recv:
                continue
            if not body.dominates(r.bb, s.bb) or r.bb == s.bb:
                continue
            if self._consumer_between(body, recv, r.bb, s.bb):
                continue
            cands.append(r)
        if m in BUF_LEN_ARG:
            arg = c.args[1] if len(c.args) > 1 else None
            if arg is None:
                return False, "length argument missing"
            # advance(self.remaining())
            d = lib.def_rvalue(body, arg)
            if d and d[0] == "call" and d[1].mname == "remaining" and recv_root(body, d[1].args[0]) == recv and not self._consumer_between(body, recv, d[1].bb, s.bb):
                return True, "length argument is remaining() of the same receiver"
            akey = lib.operand_key(body, arg)
            for r in cands:
                rkey = lib.operand_key(body, {"k": "copy", "pl": r.dest})
                for cnd, truth in lib.dominating_conditions(body, s.bb):
                    if cnd.kind != "cmp":
                        continue
                    ka, kb = lib.operand_key(body, cnd.a), lib.operand_key(body, cnd.b)
                    op = cnd.op
                    if not truth:
                        op = {"Lt": "Ge", "Le": "Gt", "Gt": "Le", "Ge": "Lt", "Eq": "Ne", "Ne": "Eq"}[op]
                    if ka == rkey and kb == akey and op in ("Ge", "Gt", "Eq"):
                        return True, "dominated by remaining() %s len on the same receiver" % op
                    if kb == rkey and ka == akey and op in ("Le", "Lt", "Eq"):
                        return True, "dominated by len %s remaining() on the same receiver" % op
                # the same test through `PartialOrd::ge(&remaining, &len)` (anyhow::ensure!, `.ge()`), `match a.cmp(&b)` ..
                ae = show(strip(self.X.operand(body, arg)))
                for ea, op, eb, _cb in lib.order_facts(body, self.X, s.bb):
                    ra = ea[0] == "call" and ea[3][1] == r.bb
                    rb_ = eb[0] == "call" and eb[3][1] == r.bb
                    if ra and show(eb) == ae and op in ("Ge", "Gt", "Eq"):
                        return True, "dominated by remaining() %s len on the same receiver" % op
                    if rb_ and show(ea) == ae and op in ("Le", "Lt", "Eq"):
                        return True, "dominated by len %s remaining() on the same receiver" % op
                # constant-bounded argument
                ai = iv.at(arg, s.bb)
                ri = iv.at({"k": "copy", "pl": r.dest}, s.bb)
                if ai and ri and ai[1] <= ri[0]:
                    return True, "len in %s <= remaining in %s" % (ai, ri)
            return False, "%s(len) not dominated by a remaining() >= len check on the same receiver" % m
        for r in cands:
            ri = iv.at({"k": "copy", "pl": r.dest}, s.bb)
            if ri and ri[0] >= need_const:
                return True, "dominated by remaining() >= %d (proved remaining in [%d, ..]) on the same receiver, no consuming call in between" % (need_const, ri[0])
        # has_remaining() / !is_empty() for single-byte reads
        if need_const == 1:
            for cnd, truth in lib.dominating_conditions(body, s.bb):
                if cnd.kind == "call" and cnd.call.mname in ("has_remaining",) and truth and recv_root(body, cnd.call.args[0]) == recv \
                        and not self._consumer_between(body, recv, cnd.call.bb, s.bb):
                    return True, "dominated by has_remaining()"
        return False, "bytes::Buf::%s needs %d byte(s) but no dominating remaining() >= %d check on the same receiver (panics on short input)" % (m, need_const, need_const)

    def _consumer_between(self, body, recv, frm, to):
        """is there a consuming call on receiver recv in a block on some path frm ->* to (exclusive)?"""
        after = body.reach_after([frm], removed_nodes=[to])
        # blocks that can reach `to`
        can = set()
        stack = [to]
        seen = {to}
        while stack:
            x = stack.pop()
            for p in body.pred[x]:
                if p not in seen:
                    seen.add(p)
                    stack.append(p)
        mid = (after & seen) - {to, frm}
        for c in body.calls:
            if c.bb in mid and c.mname in BUF_CONSUMERS and c.args and recv_root(body, c.args[0]) == recv:
                return True
            if c.bb in mid and c.args:
                # the receiver passed mutably to any other non-noise call
                for a in c.args[:1]:
                    if recv_root(body, a) == recv and c.mname not in ("remaining", "chunk", "has_remaining", "len", "is_empty") and not c.noise \
                            and c.name not in lib_transparent():
                        return True
        return False

    def _d_partial(self, s):
        c = s.call
        body = s.body
        n = c.name
        if n.endswith("<impl [T]>::windows") and len(c.args) > 1:
            k = lib.const_len(strip(self.X.operand(body, c.args[1])))
            if k is not None and k >= 1:
                return True, "window size %d > 0" % k
            iv = Intervals(body).at(c.args[1], s.bb)
            if iv and iv[0] >= 1:
                return True, "window size in %s" % (iv,)
            return False, "windows(0) panics: the window size is not proved positive"
        if n.endswith("<impl [T]>::split_at") and len(c.args) > 1:
            # `if b.remaining() < len { return Err(..) }  let (v, rest) = b.split_at(len)`: mid <= len by the dominating test
            recv = recv_root(body, c.args[0])
            akey = lib.operand_key(body, c.args[1])
            for r in body.calls:
                if r.mname not in ("remaining", "len") or not r.args or recv_root(body, r.args[0]) != recv:
                    continue
                if not body.dominates(r.bb, s.bb) or r.bb == s.bb or self._consumer_between(body, recv, r.bb, s.bb):
                    continue
                rkey = lib.operand_key(body, {"k": "copy", "pl": r.dest})
                for cnd, truth in lib.dominating_conditions(body, s.bb):
                    if cnd.kind != "cmp":
                        continue
                    ka, kb = lib.operand_key(body, cnd.a), lib.operand_key(body, cnd.b)
                    op = cnd.op if truth else {"Lt": "Ge", "Le": "Gt", "Gt": "Le", "Ge": "Lt", "Eq": "Ne", "Ne": "Eq"}[cnd.op]
                    if (ka == rkey and kb == akey and op in ("Ge", "Gt", "Eq")) or (kb == rkey and ka == akey and op in ("Le", "Lt", "Eq")):
                        return True, "split_at(mid) dominated by %s() >= mid on the same slice" % r.mname
            return False, "split_at(mid) not dominated by a length check on the same slice"
        if n == "std::vec::Vec::drain" and ("RangeFull" in c.full or (len(c.args) > 1 and "RangeFull" in show(strip(self.X.operand(body, c.args[1]))))):
            return True, "drain(..) over the full range never panics"
        if n in ("std::vec::Vec::remove", "std::vec::Vec::swap_remove"):
            # index = Some-payload of Iterator::position over an iterator of the same vector
            e = strip(self.X.operand(body, c.args[1]))
            recv = recv_root(body, c.args[0])
            for a in alts(e):
                okk = False
                if a[0] == "field" and a[3] == "Some":
                    inner = a[4]
                    for x in alts(inner):
                        if x[0] == "call" and x[1] in ("std::iter::Iterator::position", "std::iter::Iterator::rposition"):
                            okk = True
                if not okk:
                    return False, "index not provably in range: %s" % show(a)[:120]
            return True, "index is the Some payload of Iterator::position over the vector"
        if n in ("tokio::sync::mpsc::channel", "tokio::sync::broadcast::channel"):
            iv = Intervals(body).at(c.args[0], s.bb)
            if iv and iv[0] >= 1:
                return True, "capacity %s >= 1" % (iv,)
            return False, "channel capacity may be 0"
        if n.startswith("lightning_invoice::Bolt11Invoice::") and n.endswith("payee_pub_key"):
            recv = strip(self.X.operand(body, c.args[0]))
            # `if invoice.check_signature().is_err() { return }`, `match .. { Ok(..) => }`, `.map_err(..)?` alike
            for src, truth, _c in lib.variant_facts(body, self.X, s.bb):
                if truth != ("Ok",):
                    continue
                for a in alts(src):
                    if a[0] == "call" and a[1] == "lightning_invoice::Bolt11Invoice::check_signature" and a[2] and show(a[2][0]) == show(recv):
                        return True, "dominated by check_signature() == Ok on the same invoice"
            return False, "payee key recovery without a dominating successful check_signature()"
        return False, "partial call %s (%s)" % (n, PARTIAL_CALLS.get(n))

    def _d_index(self, s):
        c = s.call
        body = s.body
        ity = c.fn.get("targs", [])
        full = c.full
        if "std::ops::RangeFull" in full:
            return True, "full range"
        iv = Intervals(body)
        # array with RangeFrom{start}: start <= N
        m = re.search(r"<\[(\w+); (\d+)\] as std::ops::Index(Mut)?<std::ops::RangeFrom<usize>>>", full)
        if m:
            n = int(m.group(2))
            d = lib.def_rvalue(body, c.args[1])
            if d and d[0] == "rv" and d[1]["k"] == "agg":
                st = iv.at(d[1]["ops"][0], s.bb)
                if st and st[1] <= n:
                    return True, "start in %s <= %d" % (st, n)
                return False, "range start %s may exceed array length %d" % (st, n)
        # slice[..len-k] where len is len() of the same receiver
        if "std::ops::RangeTo<usize>" in full:
            e = strip(self.X.operand(body, c.args[1]))
            recv = strip(self.X.operand(body, c.args[0]))
            for a in alts(e):
                if a[0] == "agg" and a[3]:
                    end = a[3][0][1]
                    # Sub(len(x), const) pattern (possibly via WithOverflow tuple .0)
                    for x in walk(end):
                        if x[0] == "bin" and x[1].startswith("Sub"):
                            l = x[2]
                            if l[0] == "call" and l[1].endswith("::len"):
                                return True, "end = len() - k of the indexed value"
                    # frame = buf.split_to(n + k); &frame[..n]   (k >= 0): the frame has exactly n + k bytes
                    for rcv in alts(recv):
                        for y in walk(rcv):
                            if y[0] == "call" and y[1] in ("bytes::BytesMut::split_to", "bytes::Bytes::split_to") and len(y[2]) > 1:
                                n = y[2][1]
                                if n[0] == "field" and n[1] == "0" and n[4][0] == "bin" and n[4][1].startswith("Add"):
                                    n = n[4]
                                if show(n) == show(end):
                                    return True, "end = the length the value was split to"
                                if n[0] == "bin" and n[1].startswith("Add"):
                                    for p_, q_ in ((n[2], n[3]), (n[3], n[2])):
                                        k = lib.const_len(q_)
                                        if show(p_) == show(end) and k is not None and k >= 0:
                                            return True, "end = n of split_to(n + %d)" % k
            return False, "range end not provably within bounds"
        return False, "indexing may be out of bounds"

    def _d_timeop(self, s):
        return False, "time arithmetic may overflow/underflow and panic"


def lib_transparent():
    from mir import TRANSPARENT_CALLS
    return TRANSPARENT_CALLS


def fmt(iv):
    def f(x):
        if abs(x) < 10**6:
            return str(x)
        # nearest power of two rendering
        for p in (8, 16, 32, 63, 64, 96, 128):
            if x == 2**p - 1:
                return "2^%d-1" % p
            if x == 2**p:
                return "2^%d" % p
        return "%.3e" % x
    return "[%s, %s]" % (f(iv[0]), f(iv[1]))


# ---------------------------------------------------------------------------- shared anchors
def lifecycle_root(F):
    """LC: the group whose coroutine calls <_ as Datastore>::fetch_payment_info"""
    roots = set()
    for b, cs in F.bodies_calling(lambda c: c.is_trait_method("store::Datastore", "fetch_payment_info")):
        roots.add(F.root_of(b))
    roots = {r for r in roots if not r.startswith("<")}
    if len(roots) == 1:
        return next(iter(roots))
    return None


def sender_kept_or_answered(F, callee):
    """in fn `callee` (taking a oneshot::Sender param), on every path to Return the sender is either
    sent on (ANSWER) or pushed into a Vec<oneshot::Sender<..>> (stored)."""
    grp = F.group(callee)
    if not grp:
        return False, "unknown function"
    # body that uses the sender: the one with ANSWER or push calls
    for b in grp:
        uses = [c for c in b.calls if (c.name == "tokio::sync::oneshot::Sender::send") or (c.name == "std::vec::Vec::push" and "tokio::sync::oneshot::Sender" in c.full)]
        if not uses:
            continue
        ub = {c.bb for c in uses}
        rets = b.returns()
        left = b.reach([0], removed_nodes=ub)
        bad = [r for r in rets if r in left]
        if bad:
            return False, "path to return without send/push (bb%d)" % bad[0]
        return True, "all paths send or push"
    return False, "no send/push of the sender"
