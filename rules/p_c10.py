"""C10 - trampoline parameters only from a signed, unambiguous invoice (DESIGN 5/C10)."""
import rules_lc as R
import rules_hh as H
import rules_ext as E

EXPLANATION = (
    "Decides on the extractor's and classifier's MIR: (H) the hash gate (as C01-G); (S) TrampolineInfo is constructed only behind "
    "check_signature()==Ok on the stored invoice, the payee is get_payee_pub_key of that invoice (the explicit `n` field when present - the key check_signature verifies against - else the recovered key), bolt11 is the parsed string and comes "
    "from record 33001 inside record 16; (A) per reaching definition of the amount: the invoice amount only on arms (invoice Some, tlv None) or "
    "(Some, Some, equal), the declared amount only on (None, Some); an over-long amount field is treated as absent; (R) the route-hint gate "
    "compares the LAST hop of ANY hint with the local key and Trampoline classification is reachable only via `no such hint` or `allowed`; the "
    "other edge fails; (C) Err/None of the extractor lead to continue. lightning-invoice's parser and signature recovery are trusted."
)
ASSUMPTIONS = ["lightning-invoice parses and verifies signatures correctly", "get_tu64 (C18-U) decodes the amount field"]


def run(F, X, rep):
    C = R.Ctx.get(F, X)
    E.g_hash_gate(C, rep, "C10-H")
    E.s_signature_gate(C, rep, "C10-S")
    E.a_amount_table(C, rep, "C10-A")
    # "a well-formed accompanying amount field must agree": the field must be found wherever the sender put it
    H.g1_lookup_by_type(C, rep, "C10-L")
    E.x_info_built_from_request(C, rep, "C10-X")
    # "a well-formed accompanying amount field must agree": what counts as well formed is C18-U (0..8 bytes, the empty
    # field is the canonical zero)
    import p_c18
    p_c18.c18_u(F, X, rep, p_c18.tlv_bodies(F))
    # observed at "the pay RPC's bolt11+amount": the provider hands the node exactly the bolt11 and the amount the lifecycle computed (C03-R6, cited)
    import rules_provider as P
    P.r6_verbatim(C, rep, "C10-P")
    if H.need_hh(C, rep, "C10-R"):
        E.r_self_route_hint(C, rep, "C10-R")
        H.n2_forward_classification(C, rep, "C10-C")
        # "exactly the sender-declared amount": every part of a set declares the same amount to deliver - a part whose
        # info (amount included) differs is rejected by the whole-struct comparison, which must look at every field
        H.u3_reject_before_add(C, rep, "C10-E", which=("conflict",))
