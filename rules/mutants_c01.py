H = "src/htlc_manager.rs"
S = "src/store.rs"
P = "src/payment_provider.rs"
GATE = "        if invoice.payment_hash().to_byte_array().as_slice() != req.htlc.payment_hash.as_slice() {\n            return Err(anyhow!(\n                \"trampoline invoice payment hash does not match htlc payment hash\"\n            ));\n        }\n"
MUTANTS = [
    {"name": "revert-D1-no-hash-gate", "control": True, "expect": ["C01-G"], "edits": [(H, GATE, "")]},
    {"name": "gate-compares-htlc-with-itself", "control": True, "expect": ["C01-G"],
     "edits": [(H, "if invoice.payment_hash().to_byte_array().as_slice() != req.htlc.payment_hash.as_slice() {", "if { let _ = invoice.payment_hash(); req.htlc.payment_hash.as_slice() } != req.htlc.payment_hash.as_slice() {")]},
    {"name": "gate-wrong-polarity", "expect": ["C01-G"],
     "edits": [(H, "if invoice.payment_hash().to_byte_array().as_slice() != req.htlc.payment_hash.as_slice() {", "if invoice.payment_hash().to_byte_array().as_slice() == req.htlc.payment_hash.as_slice() && req.htlc.id == u64::MAX {")]},
    {"name": "gate-prefix-only", "expect": ["C01-G"],
     "edits": [(H, "if invoice.payment_hash().to_byte_array().as_slice() != req.htlc.payment_hash.as_slice() {", "if invoice.payment_hash().to_byte_array()[..4] != req.htlc.payment_hash[..4.min(req.htlc.payment_hash.len())] {")]},
    {"name": "gate-only-when-amount-present", "expect": ["C01-G"],
     "edits": [(H, "if invoice.payment_hash().to_byte_array().as_slice() != req.htlc.payment_hash.as_slice() {", "if invoice.amount_milli_satoshis().is_some() && invoice.payment_hash().to_byte_array().as_slice() != req.htlc.payment_hash.as_slice() {")]},
    {"name": "resolve-with-bolt11-bytes", "control": True, "expect": ["C01-P"],
     "edits": [(H, "                HtlcAcceptedResponse::Resolve {\n                    payment_key: preimage.clone(),\n                },", "                HtlcAcceptedResponse::Resolve {\n                    payment_key: if preimage.len() == 32 { preimage.clone() } else { trampoline.bolt11.clone().into_bytes() },\n                },")]},
    {"name": "table-keyed-by-htlc-hash", "expect": ["C01-K"],
     "edits": [(H, "                .entry(*trampoline.invoice.payment_hash())", "                .entry(<Hash as secp256k1::hashes::Hash>::from_slice(&req.htlc.payment_hash).unwrap_or(*trampoline.invoice.payment_hash()))")]},
    {"name": "wait-on-other-hash", "expect": ["C01-K"],
     "edits": [(H, "                .wait_payment(*trampoline.invoice.payment_hash())", "                .wait_payment(<Hash as secp256k1::hashes::Hash>::hash(trampoline.bolt11.as_bytes()))")]},
    {"name": "provider-complete-returns-hash", "expect": ["C01-P16"],
     "edits": [(P, "PayStatus::COMPLETE => return Ok(resp.payment_preimage.to_vec()),", "PayStatus::COMPLETE => return Ok(AsRef::<[u8]>::as_ref(&resp.payment_hash).to_vec()),")]},
]
from mutants_common import EQUIV_LC as EQUIV
