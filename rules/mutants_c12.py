"""C12 mutants (post-fix tree)."""
M = "src/messages.rs"
H = "src/htlc_manager.rs"
MUTANTS = [
    {"name": "revert-D3-unchecked-add", "control": True, "expect": ["C12-X1"],
     "edits": [(M, "        match invoice_msat.checked_add(fee_msat) {\n            Some(required_msat) => total_msat >= required_msat,\n            None => false,\n        }", "        total_msat >= invoice_msat + fee_msat")]},
    {"name": "wrapping-add", "expect": ["C12-X1", "C12-X2"],
     "edits": [(M, "        match invoice_msat.checked_add(fee_msat) {\n            Some(required_msat) => total_msat >= required_msat,\n            None => false,\n        }", "        total_msat >= invoice_msat.wrapping_add(fee_msat)")]},
    {"name": "saturating-mul", "control": True, "expect": ["C12-X1", "C12-X2"],
     "edits": [(M, "        let rate_part = match invoice_msat.checked_mul(self.fee_proportional_millionths as u64) {\n            Some(rate_part) => rate_part / 1_000_000,\n            None => return false,\n        };", "        let rate_part = invoice_msat.saturating_mul(self.fee_proportional_millionths as u64) / 1_000_000;")]},
    {"name": "divide-before-multiply", "expect": ["C12-X2"],
     "edits": [(M, "        let rate_part = match invoice_msat.checked_mul(self.fee_proportional_millionths as u64) {\n            Some(rate_part) => rate_part / 1_000_000,", "        let rate_part = match (invoice_msat / 1_000_000).checked_mul(self.fee_proportional_millionths as u64) {\n            Some(rate_part) => rate_part,")]},
    {"name": "divisor-1000001", "control": True, "expect": ["C12-X2"],
     "edits": [(M, "Some(rate_part) => rate_part / 1_000_000,", "Some(rate_part) => rate_part / 1_000_001,")]},
    {"name": "mul-overflow-returns-true", "expect": ["C12-X1", "C12-X2"],
     "edits": [(M, "            Some(rate_part) => rate_part / 1_000_000,\n            None => return false,", "            Some(rate_part) => rate_part / 1_000_000,\n            None => return true,")]},
    {"name": "base-fee-dropped-for-large", "expect": ["C12-X2"],
     "edits": [(M, "        let fee_msat = match (self.fee_base_msat as u64).checked_add(rate_part) {", "        let fee_msat = match (if invoice_msat > (1u64 << 40) { 0 } else { self.fee_base_msat as u64 }).checked_add(rate_part) {")]},
    {"name": "ppm-from-total", "expect": ["C12-X2"],
     "edits": [(M, "let rate_part = match invoice_msat.checked_mul(", "let rate_part = match total_msat.checked_mul(")]},
    {"name": "encode-delta-as-u8-widened", "expect": ["C12-F"],
     "edits": [(M, "s.extend_from_slice(&policy.cltv_expiry_delta.to_be_bytes());", "s.extend_from_slice(&(policy.cltv_expiry_delta as u8 as u16).to_be_bytes());")]},
    {"name": "encode-swap-fields", "expect": ["C12-F"],
     "edits": [(M, "                s.extend_from_slice(&policy.fee_base_msat.to_be_bytes());\n                s.extend_from_slice(&policy.fee_proportional_millionths.to_be_bytes());", "                s.extend_from_slice(&policy.fee_proportional_millionths.to_be_bytes());\n                s.extend_from_slice(&policy.fee_base_msat.to_be_bytes());")]},
    {"name": "encode-ppm-le", "expect": ["C12-F"],
     "edits": [(M, "policy.fee_proportional_millionths.to_be_bytes()", "policy.fee_proportional_millionths.to_le_bytes()")]},
    {"name": "policy-from-default-constant", "control": True, "expect": ["C12-P"],
     "edits": [(H, "        HtlcAcceptedResponse::trampoline_fee_or_expiry_insufficient(\n            self.params.routing_policy.clone(),\n        )", "        HtlcAcceptedResponse::trampoline_fee_or_expiry_insufficient(TrampolineRoutingPolicy {\n            fee_base_msat: 0,\n            fee_proportional_millionths: 5000,\n            cltv_expiry_delta: self.params.routing_policy.cltv_expiry_delta,\n        })")]},
    {"name": "type-ppm-u16", "expect": ["C12-T", "C12-F"],
     "edits": [(M, "    pub fee_proportional_millionths: u32,", "    pub fee_proportional_millionths: u16,")]},
]
EQUIV = [
    {"name": "eq-u128-arith", "edits": [(M, "        if total_msat < invoice_msat {\n            return false;\n        }\n", "")]},
    {"name": "eq-le-flipped", "edits": [(M, "Some(required_msat) => total_msat >= required_msat,", "Some(required_msat) => required_msat <= total_msat,")]},
    {"name": "eq-not-lt", "edits": [(M, "Some(required_msat) => total_msat >= required_msat,", "Some(required_msat) => !(total_msat < required_msat),")]},
    {"name": "eq-sum-order", "edits": [(M, "match invoice_msat.checked_add(fee_msat) {", "match fee_msat.checked_add(invoice_msat) {")]},
    {"name": "eq-sub-form", "edits": [(M, "        match invoice_msat.checked_add(fee_msat) {\n            Some(required_msat) => total_msat >= required_msat,\n            None => false,\n        }", "        total_msat - invoice_msat >= fee_msat")]},
]
