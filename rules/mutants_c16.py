P = "src/payment_provider.rs"
MUTANTS = [
    {"name": "pending-is-error", "control": True, "expect": ["C16-D"],
     "edits": [(P, "                warn!(\"payment is pending after pay returned\");\n                return match self.wait_payment(req.payment_hash).await? {\n                    Some(preimage) => Ok(preimage),\n                    None => Err(anyhow!(\"payment failed\")),\n                };", "                warn!(\"payment is pending after pay returned\");\n                return Err(anyhow!(\"payment pending\"));")]},
    {"name": "rpc-error-no-wait", "control": True, "expect": ["C16-D"],
     "edits": [(P, "                debug!(\"pay returned error {:?}\", e);\n                return match self.wait_payment(req.payment_hash).await? {\n                    Some(preimage) => Ok(preimage),\n                    None => Err(anyhow!(e.to_string())),\n                };", "                debug!(\"pay returned error {:?}\", e);\n                return Err(anyhow!(e.to_string()));")]},
    {"name": "complete-returns-empty", "control": True, "expect": ["C16-D"],
     "edits": [(P, "PayStatus::COMPLETE => return Ok(resp.payment_preimage.to_vec()),", "PayStatus::COMPLETE => return Ok(Vec::new()),")]},
    {"name": "partial-completion-ignored", "expect": ["C16-D"],
     "edits": [(P, "                if let Some(warning) = resp.warning_partial_completion {", "                if let Some(warning) = resp.warning_partial_completion.filter(|w| w.len() > 1000) {")]},
    {"name": "wait-other-hash", "expect": ["C16-D"],
     "edits": [(P, "            PayStatus::PENDING => {\n                warn!(\"payment is pending after pay returned\");\n                return match self.wait_payment(req.payment_hash).await? {", "            PayStatus::PENDING => {\n                warn!(\"payment is pending after pay returned\");\n                return match self.wait_payment(resp.payment_hash).await? {")]},
    {"name": "wait-none-is-ok-empty", "expect": ["C16-D"],
     "edits": [(P, "                    warn!(\"pay returned partial completion: {}\", warning);\n                    return match self.wait_payment(req.payment_hash).await? {\n                        Some(preimage) => Ok(preimage),\n                        None => Err(anyhow!(\"payment failed\")),", "                    warn!(\"pay returned partial completion: {}\", warning);\n                    return match self.wait_payment(req.payment_hash).await? {\n                        Some(preimage) => Ok(preimage),\n                        None => Ok(resp.payment_preimage.to_vec()),")]},
]
