"""Structural names: the crate's own types and variants that the rules refer to are found by their shape, not by
their spelling, so that renaming / moving them (or replacing a private enum by Result) leaves the rules in force.

  pstate      V of the payments table `HashMap<Sha256, V>` (a struct field of that shape)
  check types return types of the classification functions: a synchronous local fn taking `&HtlcAcceptedRequest`
              whose result is a two-way sum with one side carrying a TrampolineInfo and the other a ready-made
              HtlcAcceptedResponse (a private enum, or Result<TrampolineInfo, HtlcAcceptedResponse>); for each such
              type the name of the trampoline-carrying variant and of the response-carrying variant"""
import re
from mir import canon

TINFO = "messages::TrampolineInfo"
RESP = "messages::HtlcAcceptedResponse"
REQ = "messages::HtlcAcceptedRequest"


class Names:
    pass


def _split_top(s):
    """split `A, B` at top-level commas"""
    out, depth, cur = [], 0, ""
    for ch in s:
        if ch in "<([":
            depth += 1
        elif ch in ">)]":
            depth -= 1
        if ch == "," and depth == 0:
            out.append(cur.strip())
            cur = ""
        else:
            cur += ch
    if cur.strip():
        out.append(cur.strip())
    return out


def classify_sum(F, ty):
    """(trampoline variant, response variant) if `ty` is such a two-way sum, else None"""
    ty = ty.strip()
    m = re.match(r"^std::result::Result<(.*)>$", ty)
    if m:
        parts = _split_top(m.group(1))
        if len(parts) == 2:
            a, b = parts
            if TINFO in a and RESP in b and "Option<" not in a:
                return ("Ok", "Err")
            if TINFO in b and RESP in a:
                return ("Err", "Ok")
        return None
    adt = F.adts.get(canon(ty.split("<")[0]))
    if adt is None or adt.get("kind") != "enum":
        return None
    tv = rv = None
    for v in adt.get("variants", []):
        tys = " ".join(f.get("ty", "") for f in v.get("fields", []))
        if TINFO in tys:
            tv = v["n"]
        elif RESP in tys:
            rv = v["n"]
    if tv and rv:
        return (tv, rv)
    return None


def compute(F):
    import inline
    N = Names()
    N.pstate = inline.table_value_type(F) or "htlc_manager::PaymentState"
    N.check = {}
    for f in F.fns.values():
        if f.get("async"):
            continue
        sig = f.get("sig", "")
        m = re.match(r"^(?:for<[^>]*> )?fn\((.*)\) -> (.*)$", sig)
        if not m or REQ not in m.group(1):
            continue
        r = classify_sum(F, m.group(2))
        if r:
            N.check[m.group(2).strip()] = r
    return N


def of(F):
    n = getattr(F, "_names", None)
    if n is None:
        n = compute(F)
        F._names = n
    return n


_CURRENT = {"pstate": "htlc_manager::PaymentState"}


def set_current(F):
    """remember the structural names of the facts being analysed (one program at a time per process; the positive-control
    variants analysed concurrently are edits of the same tree and share them)"""
    try:
        _CURRENT["pstate"] = of(F).pstate
    except Exception:   # noqa
        pass


def PS():
    return _CURRENT["pstate"]
