"""C20 - chain height never decreases and catches up within one poll interval (DESIGN 5/C20)."""
import re
from mir import Call, canon, loc, strip, walk, alts, show
import lib
import model_lc as ml
import rules_hh as HHm
import rules_lc as R

EXPLANATION = (
    "Decides: (W) the height cell (Mutex<u32>) has a single write site in the crate; it is dominated by a comparison `new > *cell` (or writes max(*cell,new)), "
    "the written value is `new`, and compare and write lie in one guard region without a Yield; (S) every source reaches the cell only as the `new` "
    "argument of that function: the startup query and the periodic poll (getinfo.blockheight) and the block_added notification's height; the "
    "BlockProvider impl only reads; (L) the polling loop can return only through the select's shutdown arm, both arms of the poll result lead back to the "
    "select, each iteration awaits sleep(constant) before polling (the constant is reported), and the loop is spawned only after one successful initial "
    "poll; (H) the plugin subscribes `block_added` to a handler that decodes the notification and passes its height on. The wall-clock bound is not decided."
)
ASSUMPTIONS = ["tokio::sync::Mutex gives mutual exclusion", "the node delivers getinfo.blockheight truthfully"]

U32_GUARD = r"^tokio::sync::MutexGuard<'_, u32>"


def run(F, X, rep):
    w_single_guarded_writer(F, X, rep)
    s_sources(F, X, rep)
    l_poll_loop(F, X, rep)
    h_subscription(F, X, rep)
    c_one_cell(F, X, rep)
    import rules_provider as P
    P.g_getinfo_is_fresh(R.Ctx.get(F, X), rep, "C20-F")
    # a block notification is applied even when a hook reply wins the driver's select: handlers run in spawned tasks,
    # not inside the raced (cancellable) reader future
    import p_c17
    p_c17.r2(F, X, rep, "C20-H2")
    # the poll task lives until shutdown: nothing it runs through (its own code, the logging layer every log call passes
    # through) can panic
    p_c17.p(F, X, rep, "C20-P", extra_files=("src/block_watcher.rs",))


POLL_BOUND_SECS = 60        # the property's anchor: "poll every 60 s plus block_added subscription"


def _num(e):
    """value of a constant integer expression (literals, named constants, + - * / of those), else None"""
    e = strip(e)
    if e[0] == "const":
        return e[2] if isinstance(e[2], (int, float)) else None
    if e[0] == "cast":
        return _num(e[4])
    if e[0] == "field" and e[1] == "0" and strip(e[4])[0] == "bin":
        return _num(e[4])                         # (a * b).0 of the overflow-checked form
    if e[0] == "bin":
        x, y = _num(e[2]), _num(e[3])
        if x is None or y is None:
            return None
        op = e[1].replace("WithOverflow", "").replace("Unchecked", "")
        return {"Mul": lambda: x * y, "Add": lambda: x + y, "Sub": lambda: x - y, "Div": lambda: (x // y if y else None)}.get(op, lambda: None)()
    return None


def _duration_secs(e):
    """seconds of a constant std::time::Duration expression, else None"""
    e = strip(e)
    if e[0] != "call" or not e[1].startswith("std::time::Duration::"):
        return None
    m = e[1].split("::")[-1]
    unit = {"from_secs": 1.0, "from_millis": 1e-3, "from_micros": 1e-6, "from_nanos": 1e-9, "from_mins": 60.0, "from_hours": 3600.0}.get(m)
    if unit is not None and len(e[2]) == 1:
        v = _num(e[2][0])
        return None if v is None else v * unit
    if m == "new" and len(e[2]) == 2:
        a, b = _num(e[2][0]), _num(e[2][1])
        return None if a is None or b is None else a + b * 1e-9
    return None


def c_one_cell(F, X, rep, rid="C20-C"):
    rep.rule(rid, "there is ONE height cell: the Arc<Mutex<u32>> is created at one site and the field holding it is never re-assigned - the poll task, the notification handler and the reader all share it (a second cell splits the sources: the poll would raise a cell nobody reads)")
    news = []
    for b in F.code_bodies():
        if "src/block_watcher.rs" not in b.span.get("f", ""):
            continue
        for c in b.calls:
            if c.name == "tokio::sync::Mutex::new" and "Mutex<u32>" in c.full.replace(" ", "") or (c.name in ("tokio::sync::Mutex::new", "std::sync::Mutex::new") and c.t.get("rty", "").replace(" ", "").endswith("Mutex<u32>")):
                news.append(c)
            elif c.name.split("::")[-1] in ("default", "const_new", "from") and not c.noise and re.search(r"(^|<)(tokio::sync::|std::sync::)Mutex<u32>>?$", c.t.get("rty", "").replace(" ", "")):
                news.append(c)                    # `Arc::default()` / `Mutex::default()` / `Mutex::from(0)`
    sites = sorted({c.loc for c in news})
    rep.anchor(rid, "constructions of the Mutex<u32> height cell", len(sites), 1)
    rep.ob(rid, len(sites) == 1, "block_watcher", "the height cell is created once", where=sites[1] if len(sites) > 1 else (sites[0] if sites else ""), how="%d site(s)" % len(sites),
           detail="" if len(sites) == 1 else "%d height cells are created: the sources (startup query, poll, notifications) and the reader may not share one" % len(sites))
    # the struct field holding the cell
    n = 0
    for name, adt in F.adts.items():
        if not adt.get("variants") or "block_watcher" not in name:
            continue
        for f in adt["variants"][0]["fields"]:
            if re.search(r"Arc<tokio::sync::Mutex<u32>>|Arc<std::sync::Mutex<u32>>", f["ty"]):
                n += 1
                writes, borrows = HHm.field_writes(F, canon(name), f["n"])
                rep.ob(rid, not writes and not borrows, name, "field %s is never re-assigned" % f["n"], where=loc(writes[0][2]["sp"]) if writes else (loc(borrows[0][2]["sp"]) if borrows else ""), how="no write / &mut borrow of the field",
                       detail="" if not (writes or borrows) else "the field holding the height cell is replaced at %s: clones taken earlier (the poll task's) keep the old cell" % (loc((writes or borrows)[0][2]["sp"])))
    rep.anchor(rid, "struct field holding the height cell", n, 1)


def cell_writes(F, X):
    """writes through a guard of Mutex<u32>: [(body, bb, stmt, region)]"""
    out = []
    regions = []
    for b in F.code_bodies():
        if not b.locals_of_type(U32_GUARD):
            continue
        for r in HHm.guard_regions(F, b, U32_GUARD):
            regions.append((b, r))
            for bi in sorted(r.blocks):
                for s in b.blocks[bi]["s"]:
                    if s["k"] == "assign" and any(p["k"] == "deref" for p in s["lhs"]["p"]) and b.local_ty(s["lhs"]["l"]).endswith("u32"):
                        e = strip(X.local(b, s["lhs"]["l"]))
                        if any(x[0] == "await" and x[1][0] == "call" and x[1][1] == "tokio::sync::Mutex::lock" for x in walk(e)) or s["lhs"]["l"] == r.local:
                            out.append((b, bi, s, r))
    return out, regions


def w_single_guarded_writer(F, X, rep, rid="C20-W"):
    rep.rule(rid, "single write site of the height cell, behind `new > current`, writing `new`, compare+write in one guard region without await")
    writes, regions = cell_writes(F, X)
    rep.anchor(rid, "guard regions of the Mutex<u32> height cell", len(regions), 2)
    rep.anchor(rid, "writes through the height cell's guard", len(writes), 1)
    usites = sorted({loc(w[2]["sp"]) for w in writes})
    rep.notes.append("%s: %d write site(s) of the height cell after splicing helpers into their callers (%d distinct source location(s): %s); every one must be monotone"
             % (rid, len(writes), len(usites), ", ".join(usites)))
    for b, r in regions:
        ys = [y for y in b.yields() if y in r.blocks]
        rep.ob(rid, not ys, F.root_of(b), "no await while the height guard is held", where=loc(b.term(r.def_blocks[0])["sp"]), how="no Yield in region", detail="" if not ys else "height guard held across an await")
    for b, bi, s, r in writes:
        fn = F.root_of(b)
        val = strip(X.rvalue(b, s["rv"], (b.cdef, bi, ""), 0))
        ok = False
        why = "the height is overwritten with %s without a `new > current` guard: a stale notification or poll can decrease it" % show(val)[:60]
        # max idiom
        if val[0] == "call" and val[1] in ("std::cmp::max", "std::cmp::Ord::max"):
            args = val[2]
            cur = [a for a in args if _is_cell_read(a)]
            new = [a for a in args if not _is_cell_read(a)]
            ok = len(cur) == 1 and len(new) == 1
            if not ok:
                why = "height written as %s" % show(val)[:80]
        else:
            for ea, op, eb, cbb in lib.order_facts(b, X, bi):
                if _is_cell_read(eb) and show(ea) == show(val) and op in ("Gt", "Ge"):
                    ok = True
                elif _is_cell_read(ea) and show(eb) == show(val) and op in ("Lt", "Le"):
                    ok = True
                elif _is_cell_read(ea) or _is_cell_read(eb):
                    why = "the write is guarded by `%s %s %s`, which does not imply new >= current" % (show(ea)[:30], op, show(eb)[:30])
                if ok:
                    # the compared cell read happens through the very guard that is written through
                    cell = eb if _is_cell_read(eb) else ea
                    gsite = _lock_sites(strip(X.local(b, r.local)))
                    ok = cbb in r.blocks and _lock_sites(cell) == gsite and len(gsite) == 1
                    if not ok:
                        why = "the comparison reads the cell under a different lock acquisition than the write"
                    break
        rep.ob(rid, ok, fn, "write is monotone", where=loc(s["sp"]), how="dominated by new > *cell in the same guard region", detail="" if ok else why)


def _is_cell_read(e):
    return any(x[0] == "await" and x[1][0] == "call" and x[1][1] == "tokio::sync::Mutex::lock" for x in walk(e))


def _is_plain_cell_read(e):
    """exactly the guarded value (deref/copy stripped), nothing computed from it"""
    return all(a[0] == "await" and a[1][0] == "call" and a[1][1] == "tokio::sync::Mutex::lock" for a in alts(e))


def _lock_sites(e):
    return sorted({x[1][3][1] for x in walk(e) if x[0] == "await" and x[1][0] == "call" and x[1][1] == "tokio::sync::Mutex::lock"})


def _height_kind(F, X, e, depth=0):
    """classify the provenance of a written height: every alternative must be a reported height"""
    import model_msgs as mm
    kinds = set()
    for x in alts(e):
        if x[0] == "field" and x[1] == "blockheight" and any(y[0] == "call" and y[1] == "rpc::ClnRpc::get_info" for y in walk(x)):
            kinds.add("getinfo.blockheight")
        elif x[0] == "field" and x[1] == "height" and x[2] == "messages::BlockAdded":
            kinds.add("block_added.height")
        elif x[0] == "call" and x[1] in ("std::cmp::max", "std::cmp::Ord::max") and len(x[2]) == 2 and any(_is_plain_cell_read(a) for a in x[2]):
            for a in x[2]:
                if not _is_plain_cell_read(a):
                    kinds |= _height_kind(F, X, a, depth + 1)
        elif x[0] == "param" and depth < 4:
            # a parameter of a function that is called from elsewhere: every caller's argument
            sites = [c for c in F.callers.get(x[1], []) if not c.noise]
            root = x[1]
            if not sites and "::{closure" in root:
                root = root[:root.index("::{closure")]
                sites = [c for c in F.callers.get(root, []) if not c.noise]
            if not sites:
                kinds.add(None)
            for c in sites:
                if x[2] - 1 < len(c.args):
                    kinds |= _height_kind(F, X, strip(X.operand(c.body, c.args[x[2] - 1])), depth + 1)
                else:
                    kinds.add(None)
        else:
            kinds.add(None)
    return kinds


def s_sources(F, X, rep):
    rid = "C20-S"
    rep.rule(rid, "every value written to the cell is a reported height (getinfo.blockheight of the startup query / periodic poll, or block_added.height); both sources are wired; the provider impl only reads")
    writes, regions = cell_writes(F, X)
    if not rep.anchor(rid, "writes through the height cell's guard", len(writes), 1):
        return
    kinds = set()
    for b, bi, s_, r in writes:
        val = strip(X.rvalue(b, s_["rv"], (b.cdef, bi, ""), 0))
        ks = _height_kind(F, X, val)
        okk = None not in ks and bool(ks)
        rep.ob(rid, okk, F.root_of(b), "written value is a reported height", where=loc(s_["sp"]), how=str(sorted(k for k in ks if k)), detail="" if okk else "the height cell is updated with %s" % show(val)[:80])
        kinds |= {k for k in ks if k}
    # a notified height is never dropped: in the body that writes block_added.height, every path passes the compare-and-
    # write region (no branch that answers the notification some other way, e.g. by re-querying instead)
    for b, bi, s_, r in writes:
        val = strip(X.rvalue(b, s_["rv"], (b.cdef, bi, ""), 0))
        if "block_added.height" not in _height_kind(F, X, val):
            continue
        rets = b.returns()
        esc = [x for x in rets if x in b.reach([0], removed_nodes=list(r.def_blocks))]
        rep.ob(rid, not esc, F.root_of(b), "every block_added notification is compared with the cell", where=loc(b.term(r.def_blocks[0])["sp"]), how="no return reachable without taking the height guard",
               detail="" if not esc else "a block_added notification can be handled without its height reaching the cell (return at %s bypasses the update): the height is no longer the maximum of what the plugin was told" % loc(b.term(esc[0])["sp"]))
    ok = kinds == {"getinfo.blockheight", "block_added.height"}
    rep.ob(rid, ok, "crate", "both sources feed the cell", how=str(sorted(kinds)), detail="" if ok else "height sources wired to the cell: %s" % sorted(kinds))
    # BlockProvider impl: returns the cell's value
    n = 0
    for imp in F.impls:
        if imp.get("trait") and canon(imp["trait"]) == "block_watcher::BlockProvider":
            for it in imp["items"]:
                for b in F.group(canon(it)):
                    if not b.coroutine:
                        continue
                    n += 1
                    r = strip(X.local(b, 0))
                    okr = _is_plain_cell_read(r)
                    rep.ob(rid, okr, canon(it), "current_height returns the cell's value", where=loc(b.span), how=show(r)[:60], detail="" if okr else "current_height returns %s" % show(r)[:80])
    rep.anchor(rid, "BlockProvider impl body", n, 1)


def l_poll_loop(F, X, rep, rid="C20-L"):
    rep.rule(rid, "the poll loop returns only via the shutdown arm; poll errors continue; sleep(constant) precedes each poll; spawned after one successful poll")
    loops = []
    for b in F.code_bodies():
        if not b.coroutine:
            continue
        sels = ml.selects(b, X)
        gi = [c for c in b.calls if not c.noise and _height_call(F, c)]
        if sels and gi and any(f is not None and f.name == "tokio::time::sleep" for s in sels for f in (s.futures or [])):
            loops.append((b, sels[0], gi))
    if not rep.anchor(rid, "polling loop (select over sleep / shutdown + poll call)", len(loops), 1):
        return
    b, sel, polls = loops[0]
    fn = F.root_of(b)
    sl = ml.select_arm_of(sel, lambda f: f.name == "tokio::time::sleep")
    sh = ml.select_arm_of(sel, lambda f: f.name == "tokio::sync::mpsc::Receiver::recv")
    rep.anchor(rid, "sleep arm", 1 if sl else 0, fn=fn)
    rep.anchor(rid, "shutdown arm", 1 if sh else 0, fn=fn)
    if not sl or not sh:
        return
    rets = b.returns()
    for r in rets:
        ok = r not in b.reach([0], removed_nodes=[sh[1]])
        rep.ob(rid, ok, fn, "return only through the shutdown arm", where=loc(b.term(r)["sp"]), how="unreachable with the shutdown arm removed",
               detail="" if ok else "the poll loop can end without a shutdown request (e.g. on a failed poll): the height stops catching up when notifications are lost")
    # in a loop: the select is reachable from itself
    ok = sel.switch_bb in b.reach_after([sel.switch_bb])
    rep.ob(rid, ok, fn, "select is inside a loop", where=loc(b.term(sel.switch_bb)["sp"]), how="reachable from itself", detail="" if ok else "the poll is not repeated")
    for p in polls:
        ok = p.bb in b.reach([sl[1]]) and p.bb not in b.reach([0], removed_nodes=[sl[1]])
        rep.ob(rid, ok, fn, "poll happens exactly after the timer arm", where=p.loc, how="dominated by the sleep arm", detail="" if ok else "the poll is not tied to the timer arm")
        skip = sel.switch_bb in b.reach([sl[1]], removed_nodes=[p.bb])
        rep.ob(rid, not skip, fn, "every timer expiry polls the node", where=p.loc, how="select unreachable from the timer arm without the poll",
               detail="" if not skip else "an iteration of the poll loop can skip the getinfo poll: lost notifications are not repaired within one interval")
        # whatever the poll (and everything after it) yields, control returns to the select: no return is reachable
        # from the poll without passing the select again
        esc = [r for r in rets if r in b.reach([p.bb], removed_nodes=[sel.switch_bb])]
        okk = sel.switch_bb in b.reach([p.bb]) and not esc
        rep.ob(rid, okk, fn, "every poll outcome continues the loop", where=p.loc, how="select reachable, no return before it",
               detail="" if okk else "a poll outcome ends the loop (return at %s reachable without passing the select)" % (loc(b.term(esc[0])["sp"]) if esc else "?"))
    slc = sel.futures[sl[0]]
    e = strip(X.operand(b, slc.args[0]))
    secs = _duration_secs(e)
    ok = secs is not None and secs > 0
    rep.ob(rid, ok, fn, "poll interval is a positive constant", where=slc.loc, how="%s s" % secs, detail="" if ok else "poll interval is %s" % show(e)[:60])
    # "within one poll interval": the property's anchor names the interval ("poll every 60 s"); a longer constant leaves the height stale
    # for longer than the bound a user of the property relies on (a shorter one only polls more often)
    okb = secs is not None and secs <= POLL_BOUND_SECS
    rep.ob(rid, okb, fn, "poll interval is at most the %d s the property names" % POLL_BOUND_SECS, where=slc.loc, how="%s s" % secs,
           detail="" if okb else "the poll interval is %s: lost notifications are repaired only after %s, not within the %d s poll interval the property names" % (show(e)[:60], ("%g s" % secs) if secs is not None else "an unknown time", POLL_BOUND_SECS))
    # spawn after one successful initial poll
    for bb in F.code_bodies():
        for c in bb.calls:
            if c.name == "tokio::spawn" and c.args:
                ee = strip(X.operand(bb, c.args[0]))
                if any(x[0] == "call" and x[1] == fn for x in walk(ee)):
                    first = [x for x in bb.calls if not x.noise and x.bb != c.bb and _height_call(F, x) and bb.dominates(x.bb, c.bb)]
                    okk = False
                    for x in first:
                        for fe, truth, cc in R.dom_enum_facts(bb, X, c.bb):
                            for a in alts(fe):
                                if a[0] == "call" and a[1] == "std::ops::Try::branch" and truth == ("Continue",) and any(y[0] == "call" and y[3][1] == x.bb for y in walk(a)):
                                    okk = True
                            if R.is_await_of(fe, x) and truth == ("Ok",):
                                okk = True
                    rep.ob(rid, okk, F.root_of(bb), "loop spawned after a successful initial poll", where=c.loc, how="dominated by the Ok/Continue arm of the initial poll", detail="" if okk else "the poll loop is started without a successful initial height query")


def _height_call(F, c):
    """a call that queries the node for its height: the RPC itself or a local function that (transitively) does"""
    if "HEIGHT" in lib.call_effects(c) and not c.is_trait_method("block_watcher::BlockProvider"):
        return True
    cal = c.resolved or c.name
    return cal in F.fns and bool(lib.may_effects(F, cal).get("HEIGHT"))


def h_subscription(F, X, rep):
    rid = "C20-H"
    rep.rule(rid, "block_added is subscribed to a handler that decodes BlockAddedNotification and passes block_added.height to the update")
    subs = [(b, c) for b in F.code_bodies() for c in b.calls if c.name == "cln_plugin::Builder::subscribe"]
    rep.anchor(rid, "Builder::subscribe call", len(subs), 1)
    for b, c in subs:
        topic = strip(X.operand(b, c.args[1]))
        ok = topic[0] == "const" and topic[1] == '"block_added"'
        rep.ob(rid, ok, F.root_of(b), "topic is block_added", where=c.loc, how=show(topic), detail="" if ok else "subscribed topic is %s" % show(topic))
        h = strip(X.operand(b, c.args[2]))
        hn = h[1] if h[0] == "fnitem" else None
        rep.ob(rid, hn is not None, F.root_of(b), "handler is a function item", where=c.loc, how=str(hn), detail="" if hn else "handler is %s" % show(h)[:60])
        if hn:
            eff = lib.may_effects(F, hn)
            writes, _ = cell_writes(F, X)
            upds = {F.root_of(w[0]) for w in writes}
            reach = any(_reaches(F, hn, u) for u in upds)
            rep.ob(rid, reach, hn, "handler reaches the update function", how="call graph", detail="" if reach else "the block_added handler never updates the height")
            dec = any("BlockAddedNotification" in c2.full and (c2.name == "serde_json::from_value" or any(c3.name == "serde_json::from_value" for g2 in F.group(c2.resolved or c2.name) for c3 in g2.calls))
                      for g in F.group(hn) for c2 in g.calls)
            rep.ob(rid, dec, hn, "handler decodes BlockAddedNotification", how="serde_json::from_value::<BlockAddedNotification>", detail="" if dec else "handler does not decode the notification", nontrivial=False)
    # the init reply / hook registration also lists the htlc_accepted hook (C06 relies on it)
    hooks = [(b, c) for b in F.code_bodies() for c in b.calls if c.name == "cln_plugin::Builder::hook"]
    for b, c in hooks:
        t = strip(X.operand(b, c.args[1]))
        ok = t[0] == "const" and t[1] == '"htlc_accepted"'
        rep.ob(rid, ok, F.root_of(b), "htlc_accepted hook registered", where=c.loc, how=show(t), detail="" if ok else "hook name is %s" % show(t), nontrivial=False)


def _reaches(F, root, target, seen=None):
    if target is None:
        return False
    seen = seen or set()
    if root in seen:
        return False
    seen.add(root)
    if root == target:
        return True
    for b in F.group(root):
        for c in b.calls:
            callee = c.resolved or c.name
            if callee == target:
                return True
            if callee in F.fns and _reaches(F, callee, target, seen):
                return True
    return False
