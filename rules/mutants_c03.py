H = "src/htlc_manager.rs"
P = "src/payment_provider.rs"
MUTANTS = [
    {"name": "revert-D6-plus-equals", "control": True, "expect": ["C03-R3"],
     "edits": [(H, "        self.amount_received_msat = self\n            .amount_received_msat\n            .saturating_add(req.htlc.amount_msat);", "        self.amount_received_msat += req.htlc.amount_msat;")]},
    {"name": "budget-is-whole-sum", "control": True, "expect": ["C03-R4"],
     "edits": [(H, "        let max_fee_msat = payment\n            .amount_received_msat\n            .saturating_sub(trampoline.amount_msat);", "        let max_fee_msat = payment\n            .amount_received_msat;")]},
    {"name": "budget-operands-swapped", "expect": ["C03-R4"],
     "edits": [(H, "        let max_fee_msat = payment\n            .amount_received_msat\n            .saturating_sub(trampoline.amount_msat);", "        let max_fee_msat = trampoline.amount_msat.saturating_sub(payment.amount_received_msat).max(payment.amount_received_msat.saturating_sub(trampoline.amount_msat));")]},
    {"name": "amount-always-some", "control": True, "expect": ["C03-R5"],
     "edits": [(H, "        Some(_) => None,\n        None => Some(trampoline.amount_msat),", "        Some(_) => Some(trampoline.amount_msat),\n        None => Some(trampoline.amount_msat),")]},
    {"name": "ready-on-declared-total", "expect": ["C03-R2"],
     "edits": [(H, "                .fee_sufficient(self.amount_received_msat, self.trampoline.amount_msat)", "                .fee_sufficient(req.onion.total_msat.unwrap_or(self.amount_received_msat), self.trampoline.amount_msat)")]},
    {"name": "ready-ignores-fail-request", "expect": ["C03-R2"],
     "edits": [(H, "        if !self.is_ready\n            && !self.is_fail_requested\n            && self", "        if !self.is_ready\n            && self")]},
    {"name": "exemptfee-set", "expect": ["C03-R6"],
     "edits": [(P, "                maxdelay: Some(req.max_cltv_delta),\n                exemptfee: None,\n                localinvreqid: None,\n                exclude: None,\n                maxfee: Some(Amount::from_msat(req.max_fee_msat)),\n                description: None,\n            }\n        } else {", "                maxdelay: Some(req.max_cltv_delta),\n                exemptfee: Some(Amount::from_msat(5000)),\n                localinvreqid: None,\n                exclude: None,\n                maxfee: Some(Amount::from_msat(req.max_fee_msat)),\n                description: None,\n            }\n        } else {")]},
    {"name": "xpay-forgets-maxdelay", "expect": ["C03-R6"],
     "edits": [(P, "                retry_for: Some(self.retry_for),\n                maxdelay: Some(req.max_cltv_delta),\n                exemptfee: None,\n                localinvreqid: None,\n                exclude: None,\n                maxfee: Some(Amount::from_msat(req.max_fee_msat)),\n                description: None,\n            }\n        } else {", "                retry_for: Some(self.retry_for),\n                maxdelay: None,\n                exemptfee: None,\n                localinvreqid: None,\n                exclude: None,\n                maxfee: Some(Amount::from_msat(req.max_fee_msat)),\n                description: None,\n            }\n        } else {")]},
    {"name": "count-then-return-before-push", "expect": ["C03-R3"],
     "edits": [(H, "        self.cltv_expiry = std::cmp::min(req.htlc.cltv_expiry, self.cltv_expiry);\n        self.htlcs.push(sender);", "        self.cltv_expiry = std::cmp::min(req.htlc.cltv_expiry, self.cltv_expiry);\n        if req.htlc.amount_msat == 0 { let _ = sender.send(HtlcAcceptedResponse::temporary_node_failure()); return; }\n        self.htlcs.push(sender);")]},
    {"name": "pay-without-ready", "expect": ["C03-R1"],
     "edits": [(H, "        _ = tokio::time::sleep(time_left) => {\n            debug!(\"Payment timed out waiting for htlcs.\");\n            resolve(&payments, &trampoline, HtlcAcceptedResponse::temporary_trampoline_failure()).await;\n            return;", "        _ = tokio::time::sleep(time_left) => {\n            debug!(\"Payment timed out waiting for htlcs.\");\n            if params.cltv_delta != 7 {\n            resolve(&payments, &trampoline, HtlcAcceptedResponse::temporary_trampoline_failure()).await;\n            return; }")]},
    {"name": "second-sum-write", "expect": ["C03-R3"],
     "edits": [(H, "        if !self.is_fail_requested {\n            self.is_ready = false;", "        if !self.is_fail_requested {\n            self.amount_received_msat = self.amount_received_msat.saturating_add(1);\n            self.is_ready = false;")]},
]
from mutants_common import EQUIV_LC as EQUIV
