"""Anchor resolution for the payment lifecycle coroutine (LC), the handler (HH) and the helper
functions around the payments table.  Only type/trait/effect based anchors - never local fn names."""
import re
import names as NM
from mir import Call, canon, loc, strip, walk, alts, show
import lib

def table_ty():
    return r"std::collections::HashMap<[^,]*[Ss]ha256[^,]*, " + re.escape(NM.PS()) + ">"


def guard_ty():
    return r"^tokio::sync::MutexGuard<'_, " + table_ty()
ONESHOT_SENDER = "tokio::sync::oneshot::Sender<messages::HtlcAcceptedResponse>"


class Anchors:
    pass


def _groups_with(F, pred):
    roots = {}
    for b in F.code_bodies():
        for c in b.calls:
            if not c.noise and pred(c):
                roots.setdefault(F.root_of(b), []).append(c)
    return roots


def resolve_anchors(F, X, rep=None, rid="anchors"):
    """returns an Anchors object; missing anchors are None (callers fail closed via rep.anchor)"""
    A = Anchors()
    # --- helper functions by effect
    g = _groups_with(F, lambda c: c.name == "std::collections::HashMap::remove" and NM.PS() in c.full)
    A.resolve_fns = sorted(g)           # fns removing the table entry ("resolve")
    g = _groups_with(F, lambda c: c.name in ("std::vec::Vec::pop", "std::vec::Vec::drain") and ONESHOT_SENDER in c.full)
    A.drain_fns = sorted(g)
    g = _groups_with(F, lambda c: c.name == "std::vec::Vec::push" and ONESHOT_SENDER in c.full)
    A.add_listener_fns = sorted(g)
    SENDS = ("tokio::sync::mpsc::Sender::send", "tokio::sync::mpsc::Sender::try_send", "tokio::sync::mpsc::Sender::send_timeout", "tokio::sync::mpsc::Sender::blocking_send")
    g = _groups_with(F, lambda c: c.name in SENDS and "Sender::<messages::HtlcAcceptedResponse>" in c.full)
    A.fail_requester_fns = sorted(g)
    g = _groups_with(F, lambda c: c.name in SENDS and "Sender::<()>" in c.full)
    A.ready_sender_fns = sorted(g)
    g = _groups_with(F, lambda c: c.name == "tokio::sync::oneshot::Sender::send" and "HtlcAcceptedResponse" in c.full)
    A.answer_fns = sorted(g)
    # --- LC
    lcs = []
    for b in F.code_bodies():
        cs = [c for c in b.calls if c.is_trait_method("store::Datastore", "fetch_payment_info")]
        if cs and not b.cdef.startswith("<"):
            lcs.append(b)
    A.lc = lcs[0] if len(lcs) == 1 else None
    A.lc_candidates = lcs
    A.lc_root = F.root_of(A.lc) if A.lc else None
    # --- HH
    hhs = []
    for b in F.code_bodies():
        cs = [c for c in b.calls if c.name == "std::collections::HashMap::entry" and NM.PS() in c.full]
        if cs:
            hhs.append(b)
    A.hh = hhs[0] if len(hhs) == 1 else None
    A.hh_candidates = hhs
    A.hh_root = F.root_of(A.hh) if A.hh else None
    return A


# ---------------------------------------------------------------------------- enum switches on awaited / returned values
def enum_switches(body, X):
    """[(bb, cond, expr_of_matched_place)] for every enum switch of the body (non-noise)"""
    out = []
    for bb in sorted(body.reachable):
        t = body.term(bb)
        if t["k"] != "switch":
            continue
        c = lib.decode_switch(body, bb)
        if c is None or c.kind != "enum":
            continue
        e = strip(X.place(body, c.place))
        out.append((bb, c, e))
    return out


def arms_of_result(body, X, call, cache=None):
    """for a call whose (awaited) result is matched: dict variant->target of the first enum switch whose
    matched expression is await(call)/call/try(...) of exactly this call site.  None if not found."""
    sw = cache if cache is not None else enum_switches(body, X)
    for bb, c, e in sw:
        for a in alts(e):
            x = a
            if x[0] == "await":
                x = x[1]
            if x[0] == "call" and x[3][1] == call.bb and x[3][0] == body.cdef:
                t = body.term(bb)
                arms = {}
                for v, tg in t["arms"]:
                    arms[c.variants.get(v, v)] = lib.skip_false_edges(body, tg)
                # otherwise
                covered = set(arms)
                rest = [n for n in c.variants.values() if n not in covered]
                if len(rest) == 1 and body.term(t["otherwise"])["k"] != "unreachable":
                    arms[rest[0]] = lib.skip_false_edges(body, t["otherwise"])
                return bb, arms
    return None


def arms_of_place_switch(body, X, pred):
    """first enum switch whose matched expression satisfies pred(expr) -> (bb, arms dict)"""
    for bb, c, e in enum_switches(body, X):
        if pred(e):
            t = body.term(bb)
            arms = {}
            for v, tg in t["arms"]:
                arms[c.variants.get(v, v)] = lib.skip_false_edges(body, tg)
            covered = set(arms)
            rest = [n for n in c.variants.values() if n not in covered]
            if len(rest) == 1 and body.term(t["otherwise"])["k"] != "unreachable":
                arms[rest[0]] = lib.skip_false_edges(body, t["otherwise"])
            return bb, arms, c
    return None


# ---------------------------------------------------------------------------- select!
class Select:
    pass


def selects(body, X):
    """tokio::select! instances of a body: the futures tuple, the Out-enum switch and arm targets"""
    out = []
    for bb, c, e in enum_switches(body, X):
        ty = getattr(c, "enum_ty", "")
        if "__tokio_select_util::Out<" not in ty or "Disabled" not in c.variants.values():
            continue
        s = Select()
        s.switch_bb = bb
        t = body.term(bb)
        s.arms = {}
        for v, tg in t["arms"]:
            s.arms[c.variants.get(v, v)] = lib.skip_false_edges(body, tg)
        # futures tuple: a tuple aggregate inside the select expansion whose operands are locals defined by calls
        s.futures = None
        best = None
        for bi in sorted(body.reachable):
            for st in body.blocks[bi]["s"]:
                if st["k"] == "assign" and st["rv"]["k"] == "agg" and st["rv"]["ak"] == "tuple" and len(st["rv"]["ops"]) >= 2:
                    macs = [m for m in st["sp"].get("mac", [])]
                    if not any(m.endswith("select") for m in macs):
                        continue
                    lt = body.local_ty(st["lhs"]["l"])
                    if bb in body.reach([bi]) and body.dominates(bi, bb):
                        if best is None or bi > best[0]:
                            best = (bi, st)
        if best:
            bi, st = best
            s.futures_bb = bi
            s.futures = []
            for o in st["rv"]["ops"]:
                d = lib.def_rvalue(body, o)
                if d and d[0] == "call":
                    s.futures.append(d[1])
                else:
                    # async block / other future: keep the expression
                    s.futures.append(None)
        out.append(s)
    return out


def select_arm_of(sel, pred):
    """arm target whose future call satisfies pred; returns (index, target) or None"""
    if sel.futures is None:
        return None
    for i, f in enumerate(sel.futures):
        if f is not None and pred(f):
            tg = sel.arms.get("_%d" % i)
            if tg is not None:
                return i, tg
    return None


# ---------------------------------------------------------------------------- lifecycle events
class LC:
    pass


def lifecycle(F, X, A):
    """event sites of the lifecycle coroutine"""
    b = A.lc
    L = LC()
    L.body = b
    L.fn = F.root_of(b)
    cs = [c for c in b.calls if not c.noise]
    L.store_r = [c for c in cs if c.is_trait_method("store::Datastore", "fetch_payment_info")]
    L.wait = [c for c in cs if c.is_trait_method("payment_provider::PaymentProvider", "wait_payment")]
    L.pay = [c for c in cs if c.is_trait_method("payment_provider::PaymentProvider", "pay")]
    L.add_attempt = [c for c in cs if c.is_trait_method("store::Datastore", "add_payment_attempt")]
    L.mark_failed = [c for c in cs if c.is_trait_method("store::Datastore", "mark_failed")]
    L.mark_succeeded = [c for c in cs if c.is_trait_method("store::Datastore", "mark_succeeded")]
    L.store_w = L.add_attempt + L.mark_failed + L.mark_succeeded
    L.height = [c for c in cs if c.is_trait_method("block_watcher::BlockProvider", "current_height")]
    L.notify = [c for c in cs if c.is_trait_method("email::NotificationService", "notify_payment_failed")]
    L.sleep = [c for c in cs if c.name == "tokio::time::sleep"]
    L.recv = [c for c in cs if re.match(r"^tokio::sync::mpsc::(Receiver|UnboundedReceiver)::(recv|try_recv|recv_many|blocking_recv|poll_recv)$", c.name)]
    L.recv_fail = [c for c in L.recv if "HtlcAcceptedResponse" in c.full]
    L.recv_ready = [c for c in L.recv if "Receiver::<()>" in c.full]
    L.lock = [c for c in cs if c.name == "tokio::sync::Mutex::lock"]
    # ANSWER events: calls to functions that (transitively) remove the table entry and answer
    L.answers = []
    for c in cs:
        if c.name.endswith("Future::poll"):
            continue
        callee = c.resolved or c.name
        if callee in F.fns or F.group(callee):
            eff = lib.may_effects(F, callee)
            if "TABLE_REM" in eff and "ANSWER" in eff:
                L.answers.append(c)
        if "ANSWER" in lib.call_effects(c):
            L.answers.append(c)
    L.selects = selects(b, X)
    L._sw = enum_switches(b, X)
    L.state_switch = arms_of_place_switch(b, X, _is_state_expr)
    return L


def _is_state_expr(e):
    """expression denotes the Ok payload of the awaited fetch_payment_info call"""
    for a in alts(e):
        x = a
        if x[0] == "try":
            x = ("field", "0", "", "Ok", x[1])
        if not (x[0] == "field" and x[3] == "Ok"):
            return False
        x = x[4]
        if x[0] != "await":
            return False
        x = x[1]
        if not (x[0] == "call" and x[1] == "store::Datastore::fetch_payment_info"):
            return False
    return True


def response_arg(F, X, body, call):
    """expression of the HtlcAcceptedResponse argument of an ANSWER-effect call (last arg of that type)"""
    for a in reversed(call.args):
        e = strip(X.operand(body, a))
        return e
    return None
