"""C09 - no crash point or failed write leaves a payment hash permanently unpayable (DESIGN 5/C09)."""
import rules_lc as R
import rules_store as S

EXPLANATION = (
    "From every Datastore impl the ordered write records (key kind, mode, generation guard, payload variant, `?` exits) of "
    "add_payment_attempt / mark_failed / mark_succeeded are extracted from MIR. Over the abstract stored images state in {absent, Free, "
    "Pending, Succeeded} x attempt-record in {absent, open, closed} a fixed point is computed in which a crash, a rejected write or an "
    "applied-but-reported-failed write may follow any prefix of any method. For every reachable image the fault-free recovery call "
    "(add_payment_attempt on absent/Free, mark_failed on Pending) must find each of its writes' mode preconditions satisfied "
    "(must-replace needs the key, must-create needs it fresh, a generation-conditional write needs the state key); an image on which a "
    "recovery write cannot succeed is a permanent wedge and is reported with the write. Also: must-create attempt keys are clock-derived "
    "(fresh), and the generation carried by the generation-conditional Free write is the one observed with the Pending record (C09-G). "
    " (E) every lifecycle path, failed-write exits included, answers exactly once and thereby removes the table entry (C06-P2) - an orphaned entry would make the hash unpayable until restart. The lifecycle-side facts this relies on (which call runs on which stored state) are C02-S2/S4 and C05-A2, cited."
)
ASSUMPTIONS = ["CLN datastore mode semantics (must-create, must-replace, create-or-replace, generation compare)", "attempt ids derived from the nanosecond clock do not repeat"]


def run(F, X, rep):
    C = R.Ctx.get(F, X)
    if not R.need_lc(C, rep, "C09-M"):
        return
    S.m_modes_vs_images(C, rep, "C09-M")
    # a generation-conditional recovery write can only succeed if it carries the generation that was observed
    # together with the Pending record (the image model assumes it does)
    S.s7_generation_guard(C, rep, "C09-G")
    # reading the image back must not itself fail or misreport on an image an interrupted run can leave
    S.w4_fetch_mapping(C, rep, "C09-F")
    S.rt_records_roundtrip(C, rep, "C09-R")
    # lifecycle side of the recovery protocol
    R.s4_mark_failed_guards(C, rep, "C09-L")
    R.a2_pending_pay_only_after_none(C, rep, "C09-L")
    # in-memory side: every lifecycle path - the failed-write exits included - ends by answering, which removes the table
    # entry; an entry left behind without a lifecycle would swallow every later HTLC of that hash until restart
    R.p2_exactly_one_answer(C, rep, "C09-E")
    # the recovery path (stored Pending) hangs on wait_payment: a failed part must not turn into an Err there (the
    # lifecycle has no way to recover from it: D7), nor into `nothing pending` while a part is alive
    import rules_provider as P
    P.v_wait_payment(C, rep, "C09-V")
    # a lifecycle that cannot take the table lock never answers and never removes its entry: nothing may block while the
    # lock is held (replayed HTLCs that all request failure would wedge the plugin again after every restart)
    import rules_hh as H
    if H.need_hh(C, rep, "C09-B"):
        H.p6_no_blocking_under_lock(C, rep, "C09-B")
