H = "src/htlc_manager.rs"
T = "src/tlv.rs"
MUTANTS = [
    {"name": "swap-remove", "control": True, "expect": ["C13-R2"],
     "edits": [(T, "            self.entries.remove(position);", "            self.entries.swap_remove(position);")]},
    {"name": "also-remove-8", "control": True, "expect": ["C13-R1"],
     "edits": [(H, "                payload.remove(TLV_PAYMENT_METADATA);", "                payload.remove(TLV_PAYMENT_METADATA);\n                payload.remove(8);")]},
    {"name": "rpc-before-check", "control": True, "expect": ["C13-N1"],
     "edits": [(H, "        let trampoline = match self.check_htlc(req) {", "        let _h = self.params.block_provider.current_height().await;\n        let trampoline = match self.check_htlc(req) {")]},
    {"name": "lock-before-check", "expect": ["C13-N1"],
     "edits": [(H, "        let trampoline = match self.check_htlc(req) {", "        let _n = self.payments.lock().await.len();\n        let trampoline = match self.check_htlc(req) {")]},
    {"name": "rewrite-always", "expect": ["C13-R1"],
     "edits": [(H, "            if payment_metadata.get(TLV_TRAMPOLINE_INVOICE).is_some()\n                || payment_metadata.get(TLV_TRAMPOLINE_AMOUNT).is_some()\n            {", "            if payment_metadata.get(TLV_TRAMPOLINE_INVOICE).is_some()\n                || payment_metadata.get(TLV_TRAMPOLINE_AMOUNT).is_some() || payment_metadata.get(1).is_none()\n            {")]},
    {"name": "forward-inspected", "expect": ["C13-N2"],
     "edits": [(H, "        if req.onion.short_channel_id.is_some() {", "        if req.onion.short_channel_id.is_some() && req.onion.total_msat.is_none() {")]},
    {"name": "remove-wrong-predicate", "expect": ["C13-R2"],
     "edits": [(T, "if let Some(position) = self.entries.iter().position(|e| e.typ == typ) {", "if let Some(position) = self.entries.iter().position(|e| e.typ >= typ) {")]},
    {"name": "encoder-rev", "expect": ["C18-L1"],
     "edits": [(T, "for e in s.entries.iter() {", "for e in s.entries.iter().rev() {")]},
    {"name": "missing-forward-msat-fails", "expect": ["C13-N1"],
     "edits": [(H, "                trace!(\"onion missing forward_msat, skipping\");\n                return default_response(req);", "                trace!(\"onion missing forward_msat, skipping\");\n                return HtlcAcceptedResponse::temporary_node_failure();")]},
]
from mutants_common import EQUIV_LC as EQUIV
