"""C08 - write-ahead: the durable record never understates the outgoing payment (DESIGN 5/C08)."""
import rules_lc as R
import rules_store as S

EXPLANATION = (
    "Decides the ordering/typestate clauses of C08: (W1) in the lifecycle, pay is reachable only through the Ok arm of the awaited "
    "add_payment_attempt, and in every Datastore impl add_payment_attempt returns Ok only after its awaited state-key write of a "
    "Pending record succeeded, that write coming first; (W2) the Free marker is constructed only in mark_failed, which the "
    "lifecycle calls only after wait_payment==Ok(None) or pay==Err, and it is written generation-guarded; (W3) mark_succeeded stores "
    "exactly its preimage parameter under the state key (unconditional write, first), and the lifecycle passes the very value it "
    "settled with; (W4) fetch_payment_info reports Free only when no entry is listed and maps each persisted variant to itself; "
    "(W5) nothing deletes datastore records and every write is keyed by the invoice's payment hash. Crash images at the node "
    "and overlapping lifecycles are not enumerated."
)
ASSUMPTIONS = ["CLN applies a datastore RPC atomically and in the order the awaited calls complete", "C15/C16 for the meaning of wait_payment/pay results"]


def run(F, X, rep):
    C = R.Ctx.get(F, X)
    if not R.need_lc(C, rep, "C08-W1"):
        return
    R.w1_intent_before_pay(C, rep, "C08-W1")
    S.w1_impl_pending_written_first(C, rep, "C08-W1")
    S.w2_free_only_in_mark_failed(C, rep, "C08-W2")
    R.s4_mark_failed_guards(C, rep, "C08-W2")
    S.s7_generation_guard(C, rep, "C08-W2")
    S.w3_succeeded_holds_preimage(C, rep, "C08-W3")
    S.w4_fetch_mapping(C, rep, "C08-W4")
    S.rt_records_roundtrip(C, rep, "C08-W4")
    S.w5_no_deletion_and_keys(C, rep, "C08-W5")
    # "a free marker is written only when nothing is pending or complete": mark_failed is confined to wait==Ok(None) /
    # pay==Err (W2), which mean `nothing pending or complete` only if the provider honours C15-V* / C16-D
    import rules_provider as P
    import rules_hh as H
    if H.need_hh(C, rep, "C08-X"):
        # the protocol above is per lifecycle: one lifecycle per hash, whose table entry is removed only by its own final answer
        R.a3_one_lifecycle_per_entry(C, rep, "C08-X")
        H.p3_answer_reaches_everyone(C, rep, "C08-X")
    P.v_wait_payment(C, rep, "C08-W6")
    P.d_dispatch(C, rep, "C08-W6")
