"""C04 - the outgoing payment expires safely before the incoming HTLCs (DESIGN 5/C04)."""
import rules_lc as R
import rules_hh as H
import rules_pay as PY
import rules_provider as P

EXPLANATION = (
    "Decides: (E) the operator tree of PaymentRequest.max_cltv_delta is min(clamp_u16(satsub(satsub(E,H),D)), P) with E the minimum expiry read "
    "from the table entry, H the awaited BlockProvider::current_height, D the widened configured cltv_delta and P the policy delta; the clamp is "
    "try_into with u16::MAX fallback (never a wrapping cast); (T) height and E are read after the ready arm, E under the table lock; (M) the "
    "stored expiry has one write e = min(htlc.cltv_expiry, e) on the paths that store the listener, initial u32::MAX; (F) the provider forwards "
    "maxdelay verbatim; (G) the relative-expiry gate `cltv_expiry_relative < policy delta` requests failure before the HTLC is added, which "
    "permanently disables readiness. Numeric results for all inputs follow from E; they are not enumerated."
)
ASSUMPTIONS = ["C20: current_height is the monotone maximum of reported heights", "u32 saturating_sub / try_into semantics"]


def run(F, X, rep):
    C = R.Ctx.get(F, X)
    if not (R.need_lc(C, rep, "C04-E") and H.need_hh(C, rep, "C04-G")):
        return
    PY.e_maxdelay(C, rep, "C04-E")
    PY.t_read_at_pay_time(C, rep, "C04-T")
    H.m_min_expiry(C, rep, "C04-M")
    P.r6_verbatim(C, rep, "C04-F")
    H.u3_reject_before_add(C, rep, "C04-G", which=("expiry",))
    # "chain height known at that time" is the height cell's value: it must be the best height the node has reported,
    # i.e. the cell never moves backwards (C20-W)
    H.q_request_fields_verbatim(C, rep, "C04-Q")
    import p_c20
    p_c20.w_single_guarded_writer(F, X, rep, "C04-H")
    # "chain height known at that time": initialised by a successful query before the manager runs, refreshed by the poll loop
    p_c20.l_poll_loop(F, X, rep, "C04-L")
    # "configured safety delta", "the policy's CLTV delta": the options are what reaches params.cltv_delta / the policy
    import p_c19
    mb = p_c19.main_body(F)
    if rep.anchor("C04-W", "main coroutine", 1 if mb else 0):
        p_c19.w_wiring(F, X, rep, mb, F.root_of(mb), rid="C04-W")
