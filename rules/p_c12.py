"""C12 - fee predicate exact; rejection carries the configured policy (DESIGN 5/C12)."""
import re
from mir import Call, canon, loc, strip, walk, alts, show
import lib
import panics
import model_msgs as mm
from lib import INT_RANGES

EXPLANATION = (
    "Decides C12's structural clauses on MIR: (X1) every arithmetic operation of the fee predicate is discharged by "
    "interval analysis over the full type ranges of its four inputs (checked_* ops contribute exact results on their Some "
    "payload), in the overflow-checking build (quick) and also the wrapping build (thorough); each None arm returns false; "
    "(X2) the operator tree of the returned boolean, with checked ops read as exact +/x on their Some paths and widening "
    "casts as identity, is flattened and compared with total >= amount + base + floor(amount*ppm/10^6); (T) field widths "
    "u32/u32/u16 from the ADT table; (F) the failure encoder's per-variant byte layout is extracted from its MIR and compared "
    "with 0x20,26 || be(base) || be(ppm) || be(delta) and the two constant codes; (P) every construction of the policy-"
    "carrying failure has its payload rooted in HtlcManagerParams::routing_policy; (G) the declared-total and relative-expiry "
    "gates in the handler send exactly that failure before the HTLC is added. Exactness for all u64 x u64 x u32 x u32 follows "
    "from X1 (no wrap, exact sub-terms) + X2 (the formula); it is not enumerated."
)
ASSUMPTIONS = [
    "core::num checked_add/checked_mul return Some(exact result) iff it fits, integer Div is floor for unsigned operands",
    "the normal form accepts only cmp(total, sum-of-terms) and cmp(total - amount, sum) shapes; other algebraically equal shapes are reported",
    "BOLT/trampoline failure codes 0x2002, 0x2019, 0x201a are the reference constants (property anchor)",
]


def find_fee_predicate(F):
    """inherent method of the policy ADT: (&self, u64, u64) -> bool reading both fee fields"""
    out = []
    for b in F.code_bodies():
        if b.kind != "AssocFn" or b.ret_ty != "bool" or b.arg_count != 3:
            continue
        if "TrampolineRoutingPolicy" not in b.local_ty(1):
            continue
        if b.local_ty(2) != "u64" or b.local_ty(3) != "u64":
            continue
        out.append(b)
    return out


def run(F, X, rep):
    preds = find_fee_predicate(F)
    rep.anchor("C12-X1", "fee predicate fn (&TrampolineRoutingPolicy, u64, u64) -> bool", len(preds))
    for b in preds[:1]:
        c12_x1(F, X, rep, b)
        c12_x2(F, X, rep, b)
    c12_t(F, X, rep)
    c12_f(F, X, rep)
    c12_p(F, X, rep)
    c12_g(F, X, rep)
    # "(non-zero MPP timeout)": the rejection queued by the gates is delivered only if the lifecycle enters its select;
    # for a payment without stored state the time to wait is the configured timeout itself, so non-zero means entered
    import rules_lc as R
    C = R.Ctx.get(F, X)
    # the gates are reached by every classified trampoline HTLC that has a forward amount (nothing else turns it away
    # with `continue` before them)
    import rules_hh as HHn
    import rules_lc as Rn
    Cn = Rn.Ctx.get(F, X)
    if HHn.need_hh(Cn, rep, "C12-N"):
        HHn.n1_continue_paths_effect_free(Cn, rep, "C12-N")
    # "the first HTLC of a payment with no earlier attempt": every lifecycle path ends by answering and removing its entry -
    # a stale entry would answer the next first HTLC with whatever the old lifecycle said
    if Rn.need_lc(Cn, rep, "C12-E"):
        Rn.p2_exactly_one_answer(Cn, rep, "C12-E")
    import p_c19
    import rules_hh as HHq
    import rules_lc as Rq
    HHq.q_request_fields_verbatim(Rq.Ctx.get(F, X), rep, "C12-Q")
    p_c19.i_params_immutable(F, X, rep, "C12-P")
    # "the node's configured base fee, proportional fee and CLTV delta": the three policy options are what reaches the policy
    mb = p_c19.main_body(F)
    if rep.anchor("C12-W", "main coroutine", 1 if mb else 0):
        p_c19.w_wiring(F, X, rep, mb, F.root_of(mb), rid="C12-W")
    if R.need_lc(C, rep, "C12-L"):
        R.t1_timer_value(C, rep, "C12-L")
        R.t4_not_before(C, rep, "C12-L")


def c12_x1(F, X, rep, b):
    rep.rule("C12-X1", "no arithmetic op of the fee predicate can wrap or panic (interval analysis, full input ranges); None arms return false")
    fn = F.root_of(b)
    sites = panics.enumerate_sites(F, [b])
    D = panics.Discharger(F, X)
    ar = [s for s in sites if s.kind in ("arith", "assert")]
    for s in sites:
        ok, how = D.discharge(s)
        rep.ob("C12-X1", ok, fn, s.what, where=s.where, how=how if ok else "", detail="" if ok else how)
    # non-exact integer helpers are not acceptable in the predicate
    for c in b.calls:
        m = re.match(r"core::num::<impl \w+>::(saturating|wrapping|overflowing|unchecked)_(add|sub|mul|pow|div)$", c.name)
        if m:
            rep.ob("C12-X1", False, fn, "inexact arithmetic helper", where=c.loc, detail="%s silently changes the mathematical result when it does not fit" % c.name)
    chk = [c for c in b.calls if re.match(r"core::num::<impl \w+>::checked_(add|sub|mul)$", c.name)]
    # whenever a checked op overflows (None) the predicate is false: every way of producing a result other than the
    # constant `false` uses only checked results that are known to be Some where that result is produced
    # (match arms, `?`-style early returns and Option combinator chains alike)
    defs = mm.def_alternatives(F, X, b, {"k": "move", "pl": {"l": 0, "p": []}})
    rep.anchor("C12-X1", "definitions of the predicate's result", len(defs), 1, fn=fn)
    for e, vfacts, cfacts, wh in defs:
        if e[0] == "const" and e[1] == "false":
            continue
        used = {x[3][1]: x for x in walk(e) if x[0] == "call" and re.match(r"core::num::<impl \w+>::checked_(add|sub|mul)$", x[1])}
        known = set()
        for fe, truth in vfacts:
            if truth == ("Some",):
                for a in alts(fe):
                    if a[0] == "call" and a[3][1] in used:
                        known.add(a[3][1])
        where = loc(b.term(wh[1])["sp"]) if wh and wh[1] is not None and wh[0] == b.cdef else loc(b.span)
        for bbk, x in sorted(used.items()):
            ok = bbk in known
            rep.ob("C12-X1", ok, fn, "None arm of %s returns false" % x[1].split("::")[-1], where=where, how="result produced only where the checked result is Some",
                   detail="" if ok else "a result other than `false` (%s) is produced although %s may have overflowed" % (show(e)[:60], x[1]))
    for c in chk:
        # the checked result is not unwrapped blindly
        pass


def _return_values_from(b, X, start):
    """set of textual return values assigned to _0 in blocks reachable from start"""
    vals = set()
    for bi in b.reach([start]):
        for s in b.blocks[bi]["s"]:
            if s["k"] == "assign" and s["lhs"]["l"] == 0 and not s["lhs"]["p"]:
                ro = lib.root_operand(b, s["rv"]["op"]) if s["rv"]["k"] == "use" else None
                if ro is not None and ro["k"] == "const":
                    vals.add(ro["v"])
                else:
                    vals.add("<expr>")
    return vals


# ---------------------------------------------------------------------------- X2
def norm(e, roles):
    """normal form: ('sum', terms) | ('mul', factors) | ('div', num, k) | ('leaf', name) | ('const', n) | ('bad', text)"""
    e = _peel(e)
    h = e[0]
    if h == "param":
        return ("leaf", roles.get(("param", e[2]), "param%d" % e[2]))
    if h == "const" and e[2] is not None:
        return ("const", e[2])
    if h == "try":
        # `a.checked_add(b)?` in an Option-returning helper: the exact sum (the None case leaves the helper)
        inner = _peel(e[1])
        if inner[0] == "call":
            m = re.match(r"core::num::<impl \w+>::checked_(add|sub|mul|div)$", inner[1])
            if m:
                return _nop({"add": "Add", "sub": "Sub", "mul": "Mul", "div": "Div"}[m.group(1)], inner[2][0], inner[2][1], roles)
        return ("bad", show(e)[:60])
    if h == "field":
        # Some payload of a checked op / .0 of WithOverflow tuple
        inner = _peel(e[4])
        if e[1] == "0" and e[3] == "Some" and inner[0] == "call":
            m = re.match(r"core::num::<impl \w+>::checked_(add|sub|mul|div)$", inner[1])
            if m:
                return _nop({"add": "Add", "sub": "Sub", "mul": "Mul", "div": "Div"}[m.group(1)], inner[2][0], inner[2][1], roles)
        if e[1] == "0" and inner[0] == "bin" and inner[1].endswith("WithOverflow"):
            return _nop(inner[1][:-len("WithOverflow")], inner[2], inner[3], roles)
        if e[1] == "0" and e[3] == "Ok" and inner[0] == "call" and inner[1] in ("std::convert::TryFrom::try_from", "std::convert::TryInto::try_into") and inner[2]:
            return norm(inner[2][0], roles)        # where the narrowing succeeded the value is unchanged
        if e[1] in ("fee_base_msat", "fee_proportional_millionths", "cltv_expiry_delta"):
            return ("leaf", e[1])
        return ("bad", show(e)[:60])
    if h == "bin" and e[1] in ("Add", "Sub", "Mul", "Div"):
        return _nop(e[1], e[2], e[3], roles)
    if h == "call":
        return ("bad", "call " + e[1])
    return ("bad", show(e)[:60])


def _nop(op, a, b, roles):
    na, nb = norm(a, roles), norm(b, roles)
    if op == "Add":
        terms = []
        for x in (na, nb):
            terms += list(x[1]) if x[0] == "sum" else [x]
        return ("sum", tuple(sorted(terms, key=repr)))
    if op == "Mul":
        fs = []
        for x in (na, nb):
            fs += list(x[1]) if x[0] == "mul" else [x]
        return ("mul", tuple(sorted(fs, key=repr)))
    if op == "Div":
        return ("div", na, nb)
    if op == "Sub":
        return ("sub", na, nb)
    return ("bad", op)


def _peel(e):
    for _ in range(8):
        if e[0] == "cast" and e[1].startswith("IntToInt") and e[2] in INT_RANGES and e[3] in INT_RANGES and \
                INT_RANGES[e[3]][0] <= INT_RANGES[e[2]][0] and INT_RANGES[e[2]][1] <= INT_RANGES[e[3]][1]:
            e = e[4]
        elif e[0] == "call" and e[1] in ("std::convert::From::from", "std::convert::Into::into") and e[2]:
            e = e[2][0]
        else:
            break
    return e


def c12_x2(F, X, rep, b):
    rep.rule("C12-X2", "returned boolean equals total >= amount + base + floor(amount*ppm/10^6) (operator-tree normal form)")
    fn = F.root_of(b)
    r = strip(X.local(b, 0))
    # the required amount may be computed by a same-file helper (`fn required_msat(&self, amount) -> Option<u64>`)
    bfile = b.span.get("f")
    keep = lambda n: F.by_cdef.get(n) is None or F.by_cdef[n].span.get("f") != bfile or n.startswith("<")   # noqa: E731
    r = strip(mm.inline_pure(F, X, r, depth=2, keep=keep))
    cmps = [a for a in alts(r) if a[0] in ("bin", "un")]
    consts = [a for a in alts(r) if a[0] == "const"]
    other = [a for a in alts(r) if a[0] not in ("bin", "un", "const")]
    branch_form = None
    if not cmps and not other and {c[1] for c in consts} == {"true", "false"}:
        # `matches!(self.required(amount), Some(r) if total >= r)`: the result is a constant per branch; it is `true`
        # exactly where the conditions of its one `true` assignment hold
        branch_form = _branch_form(F, X, b, keep)
        if branch_form is not None:
            cmps, consts = [branch_form[0]], [c for c in consts if c[1] == "false"]
    rep.ob("C12-X2", len(cmps) == 1 and not other, fn, "one comparison decides the predicate", where=loc(b.span), how=show(r)[:160],
           detail="" if len(cmps) == 1 and not other else "return value is %s" % show(r)[:200])
    for c in consts:
        ok = c[1] == "false"
        rep.ob("C12-X2", ok, fn, "constant results are `false`", where=loc(b.span), how="const %s" % c[1], detail="" if ok else "predicate can return constant %s" % c[1])
    if len(cmps) != 1:
        return
    c = cmps[0]
    neg = False
    while c[0] == "un" and c[1] == "Not":
        neg = not neg
        c = c[2]
    if c[0] != "bin" or c[1] not in ("Ge", "Le", "Lt", "Gt"):
        rep.ob("C12-X2", False, fn, "comparison operator", where=loc(b.span), detail="predicate is decided by %s" % show(c)[:100])
        return
    op, lhs, rhs = c[1], c[2], c[3]
    if neg:
        op = {"Ge": "Lt", "Le": "Gt", "Lt": "Ge", "Gt": "Le"}[op]
    if op == "Le":
        op, lhs, rhs = "Ge", rhs, lhs
    if op == "Gt" or op == "Lt":
        rep.ob("C12-X2", False, fn, "comparison is >=", where=loc(b.span), detail="predicate uses a strict comparison (%s)" % c[1])
        return
    # roles: total = the parameter on the large side
    big = _peel(lhs)
    sub_amount = None
    if big[0] == "bin" and big[1].startswith("Sub"):
        sub_amount = _peel(big[3])
        big = _peel(big[2])
    if big[0] == "field" and big[1] == "0" and _peel(big[4])[0] == "bin" and _peel(big[4])[1].startswith("Sub"):
        inner = _peel(big[4])
        sub_amount = _peel(inner[3])
        big = _peel(inner[2])
    if big[0] != "param":
        rep.ob("C12-X2", False, fn, "left side is the offered total", where=loc(b.span), detail="left side is %s" % show(lhs)[:100])
        return
    total_i = big[2]
    amount_i = 5 - total_i  # params 2 and 3
    roles = {("param", total_i): "total", ("param", amount_i): "amount"}
    n = norm(rhs, roles)
    if sub_amount is not None:
        if not (sub_amount[0] == "param" and sub_amount[2] == amount_i):
            rep.ob("C12-X2", False, fn, "subtracted term is the amount", where=loc(b.span), detail="total - %s" % show(sub_amount)[:60])
            return
        terms = list(n[1]) if n[0] == "sum" else [n]
        terms.append(("leaf", "amount"))
        n = ("sum", tuple(sorted(terms, key=repr)))
    ref = ("sum", tuple(sorted([("leaf", "amount"), ("leaf", "fee_base_msat"),
                                ("div", ("mul", tuple(sorted([("leaf", "amount"), ("leaf", "fee_proportional_millionths")], key=repr))), ("const", 1000000))], key=repr)))
    ok = n == ref
    rep.ob("C12-X2", ok, fn, "normal form equals the reference predicate", where=loc(b.span), how=_shown(n),
           detail="" if ok else "predicate computes total >= %s, expected %s" % (_shown(n), _shown(ref)))
    prod = ("mul", tuple(sorted([("leaf", "amount"), ("leaf", "fee_proportional_millionths")], key=repr)))
    if branch_form is not None:
        # `false` is every other branch: besides the comparison itself only `total < amount` and "the required amount is
        # None" lead there; the required amount may be None only where the reference sum (or a part of it, or the
        # amount*ppm product - the checked_mul of the reference) exceeds u64
        _c, guards, helpers = branch_form
        for ga, gop, gb in guards:
            pa, pb = _peel(strip(ga)), _peel(strip(gb))
            okg = pa[0] == "param" and pb[0] == "param" and ((pa[2], gop, pb[2]) in ((total_i, "Ge", amount_i), (amount_i, "Le", total_i)))
            rep.ob("C12-X2", okg, fn, "extra condition of `true` is total >= amount", where=loc(b.span), how="%s %s %s" % (show(ga)[:30], gop, show(gb)[:30]),
                   detail="" if okg else "the predicate also requires %s %s %s" % (show(ga)[:60], gop, show(gb)[:60]))
        refterms = list(ref[1])
        for he in helpers:
            for ha, vf, cf in mm.alternatives_with_facts(F, X, he, depth=2, keep=keep, with_cmp=True):
                if not (ha[0] == "agg" and ha[2] == "None"):
                    continue
                good, why = False, ""
                for fe, truth in vf:
                    for a in alts(strip(fe)):
                        a = _peel(a)
                        if truth == ("None",) and a[0] == "call" and re.match(r"core::num::<impl \w+>::checked_(add|mul)$", a[1]):
                            good, why = True, "None arm of a checked op"
                        if truth == ("Err",) and a[0] == "call" and a[1] in ("std::convert::TryFrom::try_from", "std::convert::TryInto::try_into") and a[2]:
                            n2 = norm(a[2][0], roles)
                            t2 = list(n2[1]) if n2[0] == "sum" else [n2]
                            rest = list(refterms)
                            sub = True
                            for t in t2:
                                if t in rest:
                                    rest.remove(t)
                                else:
                                    sub = False
                            if sub or n2 == prod:
                                good, why = True, "a part of the required sum does not fit in u64"
                for ea_, o3, eb_ in cf:
                    for big, lim, o4 in ((ea_, eb_, o3), (eb_, ea_, {"Gt": "Lt", "Lt": "Gt", "Ge": "Le", "Le": "Ge"}.get(o3, o3))):
                        pl_ = _peel(strip(lim))
                        if norm(strip(big), roles) == prod and pl_[0] == "const" and pl_[2] == 2 ** 64 - 1 and o4 == "Gt":
                            good, why = True, "amount*ppm exceeds u64::MAX (the checked product would be None)"
                where = loc(F.by_cdef[ha[4][0]].term(ha[4][1])["sp"]) if isinstance(ha[4], tuple) and ha[4][0] in F.by_cdef else loc(b.span)
                rep.ob("C12-X2", good, fn, "`None` required amount is implied by the predicate", where=where, how=why,
                       detail="" if good else "the required amount is None (so the predicate false) on a path not implied by the reference predicate")
        return
    # early exits: every `false` constant is guarded by a None arm of a checked op or by total < amount
    for bi in sorted(b.reachable):
        for s in b.blocks[bi]["s"]:
            if s["k"] == "assign" and s["lhs"]["l"] == 0 and s["rv"]["k"] == "use":
                ro = lib.root_operand(b, s["rv"]["op"])
                if ro["k"] == "const" and ro.get("v") == "false":
                    good = False
                    why = ""
                    for cnd, truth in lib.dominating_conditions(b, bi):
                        if cnd.kind == "enum" and truth == ("None",):
                            good = True
                            why = "None arm of a checked op"
                        if cnd.kind == "cmp":
                            # `amount * ppm > u64::MAX` computed in a wider type: the same event as checked_mul == None
                            ea_, eb_ = strip(X.operand(b, cnd.a)), strip(X.operand(b, cnd.b))
                            o3 = cnd.op if truth else {"Lt": "Ge", "Le": "Gt", "Gt": "Le", "Ge": "Lt", "Eq": "Ne", "Ne": "Eq"}[cnd.op]
                            prod = ("mul", tuple(sorted([("leaf", "amount"), ("leaf", "fee_proportional_millionths")], key=repr)))
                            for big, lim, o4 in ((ea_, eb_, o3), (eb_, ea_, {"Gt": "Lt", "Lt": "Gt", "Ge": "Le", "Le": "Ge"}.get(o3, o3))):
                                pl_ = _peel(lim)
                                if norm(big, roles) == prod and pl_[0] == "const" and pl_[2] == 2 ** 64 - 1 and o4 == "Gt":
                                    good = True
                                    why = "amount*ppm exceeds u64::MAX (the checked product would be None)"
                            ka, kb = lib.operand_key(b, cnd.a), lib.operand_key(b, cnd.b)
                            o2 = cnd.op if truth else {"Lt": "Ge", "Le": "Gt", "Gt": "Le", "Ge": "Lt", "Eq": "Ne", "Ne": "Eq"}[cnd.op]
                            kt, km = ("place", total_i), ("place", amount_i)
                            if (ka, kb) == (kt, km) and o2 == "Lt" or (ka, kb) == (km, kt) and o2 == "Gt":
                                good = True
                                why = "total < amount"
                    rep.ob("C12-X2", good, fn, "early `false` is implied by the predicate", where=loc(s["sp"]), how=why,
                           detail="" if good else "returns false on a path not implied by the reference predicate")


def _branch_form(F, X, b, keep):
    """(comparison, other comparison facts, helper calls whose Some payload the comparison uses) of the one `true` branch"""
    defs = mm.def_alternatives(F, X, b, {"k": "move", "pl": {"l": 0, "p": []}})
    trues = [d for d in defs if d[0][0] == "const" and d[0][1] == "true"]
    if len(trues) != 1 or any(d[0][0] != "const" for d in defs):
        return None
    e, vfacts, cfacts, wh = trues[0]
    deciding, guards = [], []
    for a, op, c in cfacts:
        pa, pc = _peel(strip(a)), _peel(strip(c))
        if pa[0] == "param" and pc[0] == "param":
            guards.append((a, op, c))
        else:
            deciding.append((a, op, c))
    if len(deciding) != 1:
        return None
    a, op, c = deciding[0]
    cmp_raw = ("bin", op, strip(a), strip(c), None)
    helpers = []
    for fe, truth in vfacts:
        # every Option/Result the branch depends on is one whose payload the comparison reads
        if truth not in (("Some",), ("Ok",)):
            return None
        used = any(show(strip(fe)) in show(x) for x in (strip(a), strip(c)))
        if not used:
            return None
        helpers.append(strip(fe))
    cmp_in = ("bin", op, strip(mm.inline_pure(F, X, strip(a), depth=2, keep=keep)), strip(mm.inline_pure(F, X, strip(c), depth=2, keep=keep)), None)
    return cmp_in, guards, helpers


def _shown(n):
    h = n[0]
    if h == "sum":
        return " + ".join(_shown(x) for x in n[1])
    if h == "mul":
        return "*".join(_shown(x) for x in n[1])
    if h == "div":
        return "floor(%s / %s)" % (_shown(n[1]), _shown(n[2]))
    if h == "sub":
        return "(%s - %s)" % (_shown(n[1]), _shown(n[2]))
    if h == "leaf":
        return n[1]
    if h == "const":
        return str(n[1])
    return "<%s>" % (n[1],)


# ---------------------------------------------------------------------------- T
def c12_t(F, X, rep):
    rep.rule("C12-T", "policy field widths: base u32, ppm u32, delta u16")
    adt = F.adts.get(mm.POLICY_ADT)
    rep.anchor("C12-T", "ADT " + mm.POLICY_ADT, 1 if adt else 0)
    if not adt:
        return
    fs = {f["n"]: f["ty"] for f in adt["variants"][0]["fields"]}
    for n, t in (("fee_base_msat", "u32"), ("fee_proportional_millionths", "u32"), ("cltv_expiry_delta", "u16")):
        ok = fs.get(n) == t
        rep.ob("C12-T", ok, mm.POLICY_ADT, "field %s: %s" % (n, t), how="declared %s" % fs.get(n), detail="" if ok else "field %s has type %s" % (n, fs.get(n)), nontrivial=False)


# ---------------------------------------------------------------------------- F
REF_CODES = {2: "temporary_node_failure", 25: "temporary_trampoline_failure", 26: "trampoline_fee_or_expiry_insufficient"}


def c12_f(F, X, rep):
    rep.rule("C12-F", "failure encoding: 0x20,26 || be32(base) || be32(ppm) || be16(delta); constant codes 0x2002 / 0x2019")
    eb, table = mm.encode_table(F, X)
    rep.anchor("C12-F", "failure encoder (match on HtlcFailReason -> Vec<u8>)", 1 if table else 0)
    if not table:
        return
    fn = F.root_of(eb)
    variants = mm.reason_variants(F)
    pol = [v for v, tys in variants.items() if tys == [mm.POLICY_ADT]]
    unit = [v for v, tys in variants.items() if not tys]
    rep.anchor("C12-F", "failure variant carrying the routing policy", len(pol))
    for v in pol:
        toks = table.get(v)
        want = [("bytes", [0x20, 26]), ("be", "fee_base_msat", "u32"), ("be", "fee_proportional_millionths", "u32"), ("be", "cltv_expiry_delta", "u16")]
        ok = toks == want
        rep.ob("C12-F", ok, fn, "policy failure layout", where=loc(eb.span), how=str(toks), detail="" if ok else "fee-or-expiry-insufficient is encoded as %s, expected %s" % (toks, want))
    got = sorted(tuple(table.get(v)[0][1]) if table.get(v) and len(table[v]) == 1 and table[v][0][0] == "bytes" else ("?",) for v in unit)
    want = sorted([(0x20, 2), (0x20, 25)])
    ok = got == want
    rep.ob("C12-F", ok, fn, "constant failure codes", where=loc(eb.span), how=str(got), detail="" if ok else "payload-free failures encode as %s, expected %s" % (got, want))


# ---------------------------------------------------------------------------- P
def c12_p(F, X, rep):
    rep.rule("C12-P", "every fee-or-expiry-insufficient failure carries HtlcManagerParams::routing_policy")
    variants = mm.reason_variants(F)
    pol = [v for v, tys in variants.items() if tys == [mm.POLICY_ADT]]
    n = 0
    for v in pol:
        for b, bi, s in F.aggregates(mm.REASON_ADT, v):
            n += 1
            e = strip(X.operand(b, s["rv"]["ops"][0]))
            e = mm.expand_params(F, X, e, depth=4)
            bad = []
            for a in alts(e):
                # the payload must *be* the configured policy (a field read), not something built from parts
                good = a[0] == "field" and a[1] == "routing_policy" and a[2] == "htlc_manager::HtlcManagerParams"
                if not good:
                    bad.append(a)
            rep.ob("C12-P", not bad, F.root_of(b), "policy payload provenance", where=loc(s["sp"]), how=show(e)[:120],
                   detail="" if not bad else "failure carries %s instead of the configured policy" % show(bad[0])[:120])
    rep.anchor("C12-P", "constructions of the policy-carrying failure", n)


# ---------------------------------------------------------------------------- G
def c12_g(F, X, rep):
    import rules_hh
    rep.rule("C12-G", "the declared-total gate and the relative-expiry gate answer with fee_or_expiry_insufficient(configured policy) before the HTLC is added")
    rules_hh.gate_rules(F, X, rep, "C12-G", which=("expiry", "total"))
