"""Clauses about the htlc_accepted handler (HH), the payments-table lock, PaymentState bookkeeping
(add-listener / fail-requester / drain), and the continue paths."""
import re
from mir import Call, canon, loc, strip, walk, alts, show, is_noise_span, TRANSPARENT_CALLS
import lib
import panics
import model_lc as ml
import model_msgs as mm
import rules_lc as R
import names as NM



class HH:
    pass


def handler(C):
    if hasattr(C, "_hh"):
        return C._hh
    F, X, A = C.F, C.X, C.A
    b = A.hh
    H = HH()
    H.body = b
    H.fn = F.root_of(b) if b else None
    if b is None:
        C._hh = None
        return None
    cs = [c for c in b.calls if not c.noise]
    H.lock = [c for c in cs if c.name == "tokio::sync::Mutex::lock" and NM.PS() in c.full]
    H.entry = [c for c in cs if c.name == "std::collections::HashMap::entry" and NM.PS() in c.full]
    H.or_insert = [c for c in cs if c.name == "std::collections::hash_map::Entry::or_insert_with"]
    H.names = NM.of(F)
    H.check = [c for c in cs if c.t.get("rty") in H.names.check]
    H.tramp_variant = H.names.check[H.check[0].t["rty"]][0] if H.check else "Trampoline"
    H.resp_variant = H.names.check[H.check[0].t["rty"]][1] if H.check else "Response"
    H.fail_calls = [c for c in cs if (c.resolved or c.name) in A.fail_requester_fns]
    H.add_calls = [c for c in cs if (c.resolved or c.name) in A.add_listener_fns]
    H.oneshot = [c for c in cs if c.name == "tokio::sync::oneshot::channel"]
    H.unwrap_recv = [c for c in cs if c.name in panics.UNWRAPS]
    H._sw = ml.enum_switches(b, X)
    C._hh = H
    return H


def _is_check_agg(H, rv):
    """aggregate constructing a value of the classification result type"""
    if rv.get("ak") != "adt":
        return False
    for ty, (tv, pv) in H.names.check.items():
        if ty.startswith("std::result::Result<"):
            if canon(rv.get("adt") or "") == "std::result::Result" and rv.get("variant") in (tv, pv):
                return True
        elif canon(rv.get("adt") or "") == canon(ty.split("<")[0]):
            return True
    return False


def need_hh(C, rep, rid):
    ok = rep.anchor(rid, "handler coroutine (the one calling HashMap<Sha256,PaymentState>::entry)", len(C.A.hh_candidates), 1)
    if len(C.A.hh_candidates) > 1:
        rep.ob(rid, False, "-", "anchor:unique handler", detail="anchor-ambiguous: %d bodies call entry() on the payments table" % len(C.A.hh_candidates))
        return False
    return ok and handler(C) is not None


# ---------------------------------------------------------------------------- lock regions
class Region:
    pass


def guard_regions(F, body, guard_rx=r"^(tokio::sync::MutexGuard|std::sync::MutexGuard|tokio::sync::OwnedMutexGuard|tokio::sync::RwLock(Read|Write)Guard)<"):
    """live regions of every lock-guard typed local of a body"""
    out = []
    gl = [l for l in body.locals_of_type(guard_rx)]
    # temporaries holding a guard (e.g. `*x.lock().await`) count as well
    for g in gl:
        defs = [d for d in body.defs.get(g, []) if not d[2]]
        if not defs:
            continue
        drops = [bi for bi in body.reachable if body.term(bi)["k"] == "drop" and body.term(bi)["pl"]["l"] == g and not body.term(bi)["pl"]["p"]]
        deads = [bi for bi in body.reachable if any(s["k"] == "dead" and s["l"] == g for s in body.blocks[bi]["s"])]
        # moved into another guard local / into a call?
        moved = []
        for bi in body.reachable:
            t = body.term(bi)
            if t["k"] == "call":
                for a in t["args"]:
                    if a["k"] == "move" and a["pl"]["l"] == g and not a["pl"]["p"]:
                        c = Call(body, bi, t)
                        if c.name not in ("std::mem::drop",):
                            moved.append(c)
                        else:
                            drops.append(bi)
        r = Region()
        r.local = g
        r.ty = body.local_ty(g)
        r.def_blocks = [d[0] for d in defs]
        ends = set(drops) | set(deads)
        r.end_blocks = ends
        blocks = set()
        for d in defs:
            start = d[0]
            blocks |= body.reach([start], removed_nodes=ends - {start})
        r.blocks = blocks | (ends & body.reach(r.def_blocks))
        r.moved = moved
        # a guard that is only a moved-from temporary (`_142 = move _x`) : track moves between guard locals
        out.append(r)
    # merge: if a guard local is defined by moving another guard local, the source's region ends there (StorageDead)
    return out


def polls_in(body, blocks):
    return [c for c in body.calls if c.bb in blocks and c.name.endswith("Future::poll")]


def awaited_future_of_poll(body, X, poll):
    e = strip(X.operand(body, poll.args[0]))
    return e


# ---------------------------------------------------------------------------- field writes
def field_writes(F, adt, field):
    """assignment statements whose place ends in adt::field, and &mut borrows of it"""
    writes, borrows = [], []
    for b in F.code_bodies():
        for bi, blk in enumerate(b.blocks):
            if blk.get("cleanup"):
                continue
            for s in blk["s"]:
                if s["k"] != "assign":
                    continue
                p = s["lhs"]["p"]
                fs = [x for x in p if x["k"] == "field"]
                if fs and fs[-1]["n"] == field and canon(fs[-1].get("o", "")) == adt and p[-1]["k"] == "field":
                    writes.append((b, bi, s))
                rv = s["rv"]
                if rv["k"] == "ref" and rv.get("mut"):
                    fs2 = [x for x in rv["pl"]["p"] if x["k"] == "field"]
                    if fs2 and fs2[-1]["n"] == field and canon(fs2[-1].get("o", "")) == adt and rv["pl"]["p"][-1]["k"] == "field":
                        borrows.append((b, bi, s))
    return writes, borrows


def const_bool_of(b, s):
    rv = s["rv"]
    if rv["k"] == "use":
        ro = lib.root_operand(b, rv["op"])
        if ro["k"] == "const" and ro.get("v") in ("true", "false"):
            return ro["v"] == "true"
    return None


def bool_guards_at(b, bb):
    """{field name: truth} for dominating bool conditions that read a PaymentState bool field"""
    out = {}
    for c, truth in lib.dominating_conditions(b, bb):
        if c.kind == "bool" and c.place is not None:
            fs = [x for x in c.place["p"] if x["k"] == "field"]
            if fs and canon(fs[-1].get("o", "")) == NM.PS():
                out[fs[-1]["n"]] = truth
    return out


# ============================================================================ C13
def n1_continue_paths_effect_free(C, rep, rid):
    rep.rule(rid, "every handler path that does not take the payments lock is await-free and calls only effect-free non-async functions; the lock is taken only for a classified trampoline HTLC with forward_msat")
    F, X = C.F, C.X
    H = handler(C)
    b = H.body
    if not rep.anchor(rid, "table lock acquisition in the handler", len(H.lock), 1, fn=H.fn):
        return
    lk = H.lock[0]
    r0 = b.reach([0], removed_nodes=[lk.bb])
    ys = [y for y in b.yields() if y in r0]
    rep.ob(rid, not ys, H.fn, "no await before the lock", where=loc(b.term(ys[0])["sp"]) if ys else lk.loc, how="no Yield reachable without passing the lock acquisition",
           detail="" if not ys else "the handler awaits at %s before knowing that the HTLC is a trampoline payment" % loc(b.term(ys[0])["sp"]))
    seen = set()
    for c in b.calls:
        if c.bb not in r0 or c.noise or c.name in TRANSPARENT_CALLS:
            continue
        eff = lib.call_effects(c)
        eff = [e for e in eff if e not in ()]
        callee = c.resolved or c.name
        if callee in seen:
            continue
        seen.add(callee)
        if eff:
            rep.ob(rid, False, H.fn, "effect primitive before classification", where=c.loc, detail="%s (%s) is called before the HTLC is classified as a trampoline payment" % (c.name, ",".join(eff)))
            continue
        if callee in F.fns or F.group(callee):
            sub = lib.may_effects(F, callee)
            sub = {k: v for k, v in sub.items()}
            isasync = (F.fns.get(callee) or {}).get("async") or lib.has_yield(F, callee)
            ok = not sub and not isasync
            rep.ob(rid, ok, H.fn, "callee %s is effect-free and synchronous" % callee.split("::")[-1], where=c.loc, how="MAY-effect summary empty, no Yield",
                   detail="" if ok else "%s, called on the pass-through path, %s" % (callee, ("has effects " + ",".join("%s@%s" % (k, v[0].loc) for k, v in sub.items())) if sub else "is async"))
    # the lock is taken only under arm(Trampoline) and forward_msat = Some
    facts = R.dom_enum_facts(b, X, lk.bb)
    tr = any(any(a[0] == "call" and a[3][1] == c.bb for a in alts(e)) and truth == (H.tramp_variant,) for e, truth, _c in facts for c in H.check)
    rep.ob(rid, tr, H.fn, "lock only for HtlcCheckResult::Trampoline", where=lk.loc, how="dominated by that arm of the classification result",
           detail="" if tr else "the payments lock can be taken for an HTLC that was not classified as trampoline")
    fw = any(e[0] == "field" and e[1] == "forward_msat" and truth == ("Some",) for e, truth, _c in facts)
    rep.ob(rid, fw, H.fn, "lock only when forward_msat is present", where=lk.loc, how="dominated by the Some arm", detail="" if fw else "lock taken without forward_msat check", nontrivial=False)
    # what the pass-through paths return
    r = strip(X.local(b, 0))
    for a in alts(r):
        site = None
        if a[0] == "call":
            site = a[3]
        if site is not None and site[1] in r0:
            vals = mm.eval_response(F, X, a, C.enc_table)
            for v in vals:
                ok = v[0] == "Continue"
                rep.ob(rid, ok, H.fn, "pass-through result is continue", where=site[2], how=v[0], detail="" if ok else "a non-classified HTLC is answered with %s" % v[0])


def n2_forward_classification(C, rep, rid):
    rep.rule(rid, "a plain forward (short_channel_id present) and unusable metadata only reach the default continue response; Fail only behind the route-hint gate")
    F, X = C.F, C.X
    H = handler(C)
    if not rep.anchor(rid, "classification call (returns HtlcCheckResult)", len(H.check), 1, fn=H.fn):
        return
    callee = H.check[0].resolved or H.check[0].name
    cb = F.by_cdef.get(callee)
    if cb is None:
        rep.anchor(rid, "classification fn body", 0)
        return
    fn = F.root_of(cb)
    aggs = [(bi, s) for bi in sorted(cb.reachable) for s in cb.blocks[bi]["s"] if s["k"] == "assign" and s["rv"]["k"] == "agg" and _is_check_agg(H, s["rv"])]
    rep.anchor(rid, "HtlcCheckResult constructions", len(aggs), 2, fn=fn)
    sc = [c for c in cb.calls if c.name == "std::option::Option::is_some" and any(x[0] == "field" and x[1] == "short_channel_id" for x in walk(strip(X.operand(cb, c.args[0]))))]
    rep.anchor(rid, "short_channel_id.is_some() test", len(sc), 1, fn=fn)
    ext = [c for c in cb.calls if c.t.get("rty", "").startswith("std::result::Result<std::option::Option<messages::TrampolineInfo>")]
    rep.anchor(rid, "extractor call", len(ext), 1, fn=fn)
    if sc:
        ft = lib.bool_edge_targets(cb, sc[0].target) if sc[0].target is not None else None
        if ft:
            r = cb.reach([ft[1]]) - cb.reach([ft[0]])
            for bi, s in aggs:
                if bi in r:
                    e = strip(X.operand(cb, s["rv"]["ops"][0]))
                    vals = mm.eval_response(F, X, e, C.enc_table) if s["rv"]["variant"] == H.resp_variant else [("Trampoline",)]
                    ok = all(v[0] == "Continue" for v in vals)
                    rep.ob(rid, ok, fn, "forward => continue", where=loc(s["sp"]), how=str([v[0] for v in vals]), detail="" if ok else "an HTLC with short_channel_id is classified as %s" % [v[0] for v in vals])
            for c in ext:
                ok = c.bb not in cb.reach([0], removed_edges=[(sc[0].target, ft[0])])
                rep.ob(rid, ok, fn, "metadata is inspected only for non-forwards", where=c.loc, how="extractor dominated by the is_some()==false edge",
                       detail="" if ok else "the trampoline extractor runs for plain forwards")
    # Err / None of the extractor => continue
    for c in ext:
        ar = ml.arms_of_result(cb, X, c)
        if not ar:
            rep.ob(rid, False, fn, "extractor result is matched", where=c.loc, detail="anchor-missing: match on the extractor result")
            continue
        err = ar[1].get("Err")
        oksw = ml.arms_of_place_switch(cb, X, lambda e: R.is_ok_payload_of(e, c))
        none = oksw[1].get("None") if oksw else None
        for name, tg in (("Err", err), ("Ok(None)", none)):
            if tg is None:
                rep.ob(rid, False, fn, "extractor %s arm" % name, where=c.loc, detail="anchor-missing: %s arm" % name)
                continue
            r = cb.reach([tg])
            others = [x for x in (err, none, oksw[1].get("Some") if oksw else None) if x is not None and x != tg]
            own = {bi for bi in r if all(bi not in cb.reach([o]) for o in others)}
            n = 0
            for bi, s in aggs:
                if bi in own:
                    n += 1
                    e = strip(X.operand(cb, s["rv"]["ops"][0]))
                    vals = mm.eval_response(F, X, e, C.enc_table) if s["rv"]["variant"] == H.resp_variant else [("Trampoline",)]
                    ok = all(v[0] == "Continue" for v in vals)
                    rep.ob(rid, ok, fn, "extractor %s => continue" % name, where=loc(s["sp"]), how=str([v[0] for v in vals]),
                           detail="" if ok else "unusable trampoline metadata (%s) is answered with %s instead of continue" % (name, [v[0] for v in vals]))
            rep.ob(rid, n >= 1, fn, "extractor %s arm returns a response" % name, where=c.loc, how="%d" % n, detail="" if n else "no response on the %s arm" % name, nontrivial=False)


def r1_rewrite(C, rep, rid):
    rep.rule(rid, "the only payload rewrite is: clone of the onion payload with record 16 removed, re-serialised; guarded by parsed metadata containing 33001 or 33003")
    F, X = C.F, C.X
    aggs = F.aggregates(mm.RESP_ADT, "Continue")
    rep.anchor(rid, "constructions of HtlcAcceptedResponse::Continue", len(aggs), 1)
    nsome = 0
    for b0, bi0, s in aggs:
        e = strip(X.operand(b0, s["rv"]["ops"][0]))
        if not all(a[0] == "agg" and a[2] in ("None", "Some") for a in alts(e)):
            # the optional payload is computed by a same-file helper (`Continue { payload: stripped_payload(req) }`):
            # the rewrite discipline is checked where the payload is made
            bfile = b0.span.get("f")
            e = strip(mm.inline_pure(F, X, e, depth=2, keep=lambda n, bfile=bfile: F.by_cdef.get(n) is None or F.by_cdef[n].span.get("f") != bfile or n.startswith("<")))
        for a in alts(e):
            if a[0] == "agg" and a[2] == "None":
                continue
            if a[0] == "call" and a[1] == "std::ops::FromResidual::from_residual":
                continue                  # `?` in an Option-returning helper: None
            nsome += 1
            b, bi = b0, bi0
            if a[0] == "agg" and a[2] == "Some" and len(a) > 4 and isinstance(a[4], tuple) and a[4][0] in F.by_cdef and isinstance(a[4][1], int) and a[4][1] >= 0:
                b, bi = F.by_cdef[a[4][0]], a[4][1]
            fn = F.root_of(b)
            x = a[3][0][1] if a[0] == "agg" and a[2] == "Some" and a[3] else a
            ok = x[0] == "call" and x[1] == "tlv::ToBytes::to_bytes"
            src = x[2][0] if ok and x[2] else None
            ok = ok and src is not None and src[0] == "field" and src[1] == "payload" and any(y[0] == "param" for y in walk(src))
            rep.ob(rid, ok, fn, "rewritten payload = to_bytes(clone of req.onion.payload)", where=loc(s["sp"]), how=show(x)[:90],
                   detail="" if ok else "continue carries payload %s" % show(x)[:120])
            # mutations of the clone: only remove(16)
            clone_calls = [c for c in b.calls if c.name == "std::clone::Clone::clone" and "tlv::SerializedTlvStream" in c.full]
            muts = [c for c in b.calls if c.self_ty == "tlv::SerializedTlvStream" and c.mname not in ("get", "clone", "to_bytes") and c.args and any(
                cl.dest["l"] == (panics.recv_root(b, c.args[0]) or (None,))[0] for cl in clone_calls)]
            okm = len(muts) == 1 and muts[0].mname == "remove"
            if okm:
                k = strip(X.operand(b, muts[0].args[1]))
                okm = k[0] == "const" and k[2] == 16
            rep.ob(rid, okm, fn, "the clone is modified only by remove(16)", where=muts[0].loc if muts else loc(s["sp"]), how="1 mutation: remove(payment_metadata)",
                   detail="" if okm else "rewritten payload is mutated by %s" % [(m.mname, show(strip(X.operand(b, m.args[1])))[:20] if len(m.args) > 1 else "") for m in muts])
            # guard: metadata parsed (Ok arm of try_into/try_from/from_bytes) and is_some() of get(33001) or get(33003)
            conds = lib.dominating_conditions(b, bi)
            parsed = any(c.kind == "enum" and t == ("Ok",) for c, t in conds) or any(t == ("Ok",) for _fe, t, _c in lib.variant_facts(b, X, bi))
            gets = []
            for c in b.calls:
                if c.self_ty == "tlv::SerializedTlvStream" and c.mname == "get" and len(c.args) > 1:
                    k = strip(X.operand(b, c.args[1]))
                    if k[0] == "const":
                        gets.append(k[2])
            # a presence accessor of the stream type (`fn contains(&self, typ) -> bool` = `entries.iter().any(|e| e.typ == typ)`)
            # is the same test as `get(typ).is_some()`
            pres = []
            for c in b.calls:
                cal = c.resolved or c.name
                cb_ = F.by_cdef.get(cal)
                if cb_ is not None and cb_.kind == "AssocFn" and cb_.arg_count == 2 and cb_.local_ty(1) == "&tlv::SerializedTlvStream" and cb_.local_ty(2) == "u64" and cb_.ret_ty == "bool" and len(c.args) > 1:
                    grp_ = F.group(cal)
                    anyc = [x for g_ in grp_ for x in g_.calls if x.name in ("std::iter::Iterator::any",)]
                    eqs = [s_ for g_ in grp_ for bi_ in sorted(g_.reachable) for s_ in g_.blocks[bi_]["s"] if s_["k"] == "assign" and s_["rv"]["k"] == "bin" and s_["rv"]["op"] == "Eq"
                           and any("typ" in show(strip(X.operand(g_, s_["rv"][k_]))) for k_ in ("a", "b"))]
                    if anyc and eqs:
                        k = strip(X.operand(b, c.args[1]))
                        if k[0] == "const":
                            gets.append(k[2])
                            pres.append(c)
            okg = parsed and 33001 in gets and 33003 in gets
            # neither-present path must not reach the rewrite: remove both is_some true-edges -> rewrite unreachable
            iss = [c for c in b.calls if c.name in ("std::option::Option::is_some", "std::option::Option::is_none")] + pres
            edges = []
            for c in iss:
                present_is_true = c.name.endswith("is_some") or c in pres          # the edge on which the record is present
                ft = lib.bool_edge_targets(b, c.target) if c.target is not None and b.term(c.target)["k"] == "switch" else None
                if ft:
                    cw0 = lib.decode_switch(b, c.target)
                    neg0 = bool(cw0 is not None and cw0.negated)
                    edges.append((c.target, ft[1] if (present_is_true != neg0) else ft[0]))
                    continue
                # the test's result is not branched on directly but returned / moved (`a.is_some() || b.is_some()` as the
                # value of a predicate helper): the branch is the later switch whose operand can be this very result
                for W in sorted(b.reachable):
                    if b.term(W)["k"] != "switch":
                        continue
                    cw = lib.decode_switch(b, W)
                    if cw is None or cw.kind != "bool" or cw.place is None:
                        continue
                    srcs = lib.bool_sources_of_place(b, cw.place)
                    if srcs and (None, c.bb) in srcs:
                        ftw = lib.bool_edge_targets(b, W)
                        if ftw and ftw[0] != ftw[1]:
                            edges.append((W, ftw[1] if (present_is_true != bool(cw.negated)) else ftw[0]))
            unreachable = bi not in b.reach([0], removed_edges=edges) if edges else False
            rep.ob(rid, okg and unreachable, fn, "rewrite only when parsed metadata has 33001 or 33003", where=loc(s["sp"]), how="guards: Ok(parse) and is_some(get(33001)) or is_some(get(33003))",
                   detail="" if okg and unreachable else "payload rewrite is not confined to metadata that parsed and contains a trampoline record")
    rep.ob(rid, nsome <= 1, "crate", "single rewrite site", how="%d" % nsome, detail="" if nsome <= 1 else "%d sites attach a payload to continue" % nsome, nontrivial=False)


def r2_order_preserving_removal(C, rep, rid):
    rep.rule(rid, "SerializedTlvStream::remove removes by Vec::remove(position(typ == ..)) or retain - never reorders")
    F, X = C.F, C.X
    bodies = [b for b in F.code_bodies() if b.span.get("f", "").endswith("src/tlv.rs")]
    n = 0
    for b in bodies:
        if not (b.kind == "AssocFn" and b.arg_count == 2 and b.local_ty(1) == "&mut tlv::SerializedTlvStream"):
            continue
        n += 1
        fn = F.root_of(b)
        bad = [c for c in b.calls if (c.name.startswith("std::vec::Vec::") or c.name.startswith("core::slice::<impl [T]>::")) and c.mname in
               ("swap_remove", "sort", "sort_by", "sort_by_key", "sort_unstable", "sort_unstable_by", "sort_unstable_by_key", "reverse", "dedup", "dedup_by", "dedup_by_key", "swap", "rotate_left", "rotate_right", "insert", "push", "truncate", "clear", "drain", "pop", "split_off")]
        rep.ob(rid, not bad, fn, "no reordering / unrelated mutation", where=bad[0].loc if bad else loc(b.span), how="only remove/retain",
               detail="" if not bad else "%s changes the order or content of the remaining records" % bad[0].name)
        rm = [c for c in b.calls if c.name in ("std::vec::Vec::remove", "std::vec::Vec::retain")]
        rep.ob(rid, len(rm) == 1, fn, "one removal call", where=rm[0].loc if rm else loc(b.span), how="%d" % len(rm), detail="" if len(rm) == 1 else "%d removal calls" % len(rm))
        # the predicate closure compares e.typ with the parameter
        for g in F.group(fn):
            if g is b:
                continue
            cm = [s for bi in sorted(g.reachable) for s in g.blocks[bi]["s"] if s["k"] == "assign" and s["rv"]["k"] == "bin" and s["rv"]["op"] in ("Eq", "Ne")]
            ok = False
            for s in cm:
                ea = strip(X.operand(g, s["rv"]["a"]))
                eb = strip(X.operand(g, s["rv"]["b"]))
                t = [show(ea), show(eb)]
                if any("typ" in x for x in t) and any("param:typ" in x or "upvar:typ" in x for x in t):
                    ok = True
                    want = "Eq" if rm and rm[0].name.endswith("remove") else "Ne"
                    ok = s["rv"]["op"] == want
            rep.ob(rid, ok, fn, "predicate compares the record type with the requested type", where=loc(g.span), how="e.typ == typ",
                   detail="" if ok else "removal predicate is not `e.typ == typ`")
    rep.anchor(rid, "SerializedTlvStream mutator taking a type", n, 1)


def g1_lookup_by_type(C, rep, rid):
    rep.rule(rid, "SerializedTlvStream::get(typ) finds a record by type equality over the whole record list: it assumes no ordering of the (sender-controlled) records (no binary search, no early stop on a larger type)")
    F, X = C.F, C.X
    n = 0
    for b in F.code_bodies():
        if not b.span.get("f", "").endswith("src/tlv.rs"):
            continue
        if not (b.kind == "AssocFn" and b.arg_count == 2 and b.local_ty(1) == "&tlv::SerializedTlvStream" and b.local_ty(2) == "u64" and b.ret_ty.startswith("std::option::Option<")):
            continue
        n += 1
        fn = F.root_of(b)
        grp = F.group(fn)
        bad = [c for g in grp for c in g.calls if c.mname in ("binary_search", "binary_search_by", "binary_search_by_key", "partition_point", "take_while", "skip_while", "map_while", "is_sorted", "is_sorted_by", "is_sorted_by_key")
               and not c.noise]
        rep.ob(rid, not bad, fn, "no order-dependent search", where=bad[0].loc if bad else loc(b.span), how="linear scan",
               detail="" if not bad else "%s assumes the records are sorted by type, which the decoder does not enforce: a record that is present is not found when the sender orders the records differently" % bad[0].name)
        eq, order = [], []
        for g in grp:
            for bi in sorted(g.reachable):
                for s in g.blocks[bi]["s"]:
                    if s["k"] == "assign" and s["rv"]["k"] == "bin" and s["rv"]["op"] in ("Eq", "Ne", "Lt", "Le", "Gt", "Ge"):
                        t = [show(strip(X.operand(g, s["rv"]["a"]))), show(strip(X.operand(g, s["rv"]["b"])))]
                        if any("TlvEntry::typ" in x or ".typ" in x for x in t) and any("param:typ" in x or "upvar:typ" in x or "param:" in x or "upvar:" in x for x in t):
                            (eq if s["rv"]["op"] in ("Eq", "Ne") else order).append((g, s))
        rep.ob(rid, len(eq) >= 1, fn, "records are selected by `e.typ == typ`", where=loc(b.span), how="%d equality test(s)" % len(eq), detail="" if eq else "the lookup does not compare the record type with the requested type")
        rep.ob(rid, not order, fn, "no ordering comparison on record types", where=loc(order[0][1]["sp"]) if order else loc(b.span), how="none",
               detail="" if not order else "the lookup compares record types by order (early stop / skip): it assumes sorted records")
    rep.anchor(rid, "SerializedTlvStream lookup by type (&self, u64) -> Option<..>", n, 1)


# ============================================================================ C06 P3..P6 / C07
def p3_answer_reaches_everyone(C, rep, rid):
    rep.rule(rid, "the removed table entry is drained: the drain loop ends only when pop() returns None and every iteration sends the (cloned) response")
    F, X, A = C.F, C.X, C.A
    rep.anchor(rid, "fn removing the table entry", len(A.resolve_fns), 1)
    rep.anchor(rid, "drain fn (Vec<oneshot::Sender>::pop)", len(A.drain_fns), 1)
    for rf in A.resolve_fns:
        for b in F.group(rf):
            rem = [c for c in b.calls if c.name == "std::collections::HashMap::remove" and NM.PS() in c.full]
            if not rem:
                continue
            dr = [c for c in b.calls if (c.resolved or c.name) in A.drain_fns]
            if not dr and rf in A.drain_fns:
                # the drain loop is written out in the removing function itself: its pop() is the drain point
                dr = [c for c in b.calls if c.name == "std::vec::Vec::pop" and ml.ONESHOT_SENDER in c.full]
            ok = len(dr) >= 1
            rep.ob(rid, ok, rf, "removed entry is drained", where=rem[0].loc, how="drain call present", detail="" if ok else "the table entry is removed but its listeners are never answered")
            for d in dr:
                e = strip(X.operand(b, d.args[0]))
                okk = any(x[0] == "call" and x[3][1] == rem[0].bb for x in walk(e))
                rep.ob(rid, okk, rf, "the drained state is the removed entry", where=d.loc, how=show(e)[:80], detail="" if okk else "drain is applied to %s, not the removed entry" % show(e)[:80])
                rets = b.returns()
                okd = all(b.node_cut({d.bb}, r) for r in rets) and b.dominates(rem[0].bb, d.bb)
                rep.ob(rid, okd, rf, "every path after removal drains", where=d.loc, how="drain on all paths to return", detail="" if okd else "a path removes the entry without draining it")
    for df in A.drain_fns:
        for b in F.group(df):
            pops = [c for c in b.calls if c.name == "std::vec::Vec::pop" and ml.ONESHOT_SENDER in c.full]
            if not pops:
                # `for l in self.listeners.drain(..)` (possibly .rev()): the loop's Iterator::next plays the role of pop()
                drains = [c for c in b.calls if c.name == "std::vec::Vec::drain" and ml.ONESHOT_SENDER in c.full]
                if not drains:
                    continue
                full = "RangeFull" in drains[0].full or (len(drains[0].args) > 1 and "RangeFull" in show(strip(X.operand(b, drains[0].args[1]))))
                rep.ob(rid, full, df, "the whole listener list is drained", where=drains[0].loc, how="drain(..)", detail="" if full else "only a part of the listener list is drained")
                nxs = [c for c in b.calls if c.name in ("std::iter::Iterator::next", "std::iter::DoubleEndedIterator::next_back") and
                       any(x[0] == "call" and x[3][1] == drains[0].bb for x in walk(strip(X.operand(b, c.args[0]))))]
                bad_adapt = [x[1] for c in nxs for x in walk(strip(X.operand(b, c.args[0]))) if x[0] == "call" and x[1].startswith("std::iter::Iterator::") and
                             x[1].split("::")[-1] in ("filter", "take", "skip", "step_by", "take_while", "skip_while", "filter_map", "nth")]
                rep.ob(rid, len(nxs) == 1 and not bad_adapt, df, "one loop over every drained listener", where=drains[0].loc, how="Iterator::next over drain(..)",
                       detail="" if len(nxs) == 1 and not bad_adapt else "the drained listeners are iterated through %s" % (bad_adapt or "%d loops" % len(nxs)))
                if len(nxs) != 1:
                    continue
                pops = nxs
            p = pops[0]
            sw = p.target
            some = lib.enum_arm_target(b, sw, "Some") if sw is not None else None
            none = lib.enum_arm_target(b, sw, "None") if sw is not None else None
            ok = some is not None and none is not None
            rep.ob(rid, ok, df, "pop() result is matched", where=p.loc, how="Some/None arms", detail="" if ok else "anchor-missing: match on pop()")
            if not ok:
                continue
            sends = [c for c in b.calls if c.name == "tokio::sync::oneshot::Sender::send"]
            # every path from Some back to the pop passes a send
            sb = {c.bb for c in sends}
            back = p.bb in b.reach([some], removed_nodes=sb)
            rep.ob(rid, not back, df, "each iteration sends", where=p.loc, how="pop unreachable from the Some arm without a send",
                   detail="" if not back else "a popped listener can be dropped without being answered")
            # loop exits: returns reachable from Some arm without passing pop again must not exist (break)
            rets = [r for r in b.returns() if r in b.reach([some], removed_nodes=[p.bb])]
            rep.ob(rid, not rets, df, "the loop ends only on None", where=p.loc, how="no return from the Some arm that bypasses pop", detail="" if not rets else "the drain loop can stop before the listener list is empty")
            # sent value = clone of the response parameter
            for snd in sends:
                e = strip(X.operand(b, snd.args[1]))
                okk = all(a[0] == "param" for a in alts(e))
                rep.ob(rid, okk, df, "sent value is the (cloned) response parameter", where=snd.loc, how=show(e)[:60],
                       detail="" if okk else "listeners are answered with %s" % show(e)[:100])
                # sender is the popped one
                es = strip(X.operand(b, snd.args[0]))
                oks = any(x[0] == "call" and x[1] in ("std::vec::Vec::pop", "std::vec::Vec::drain") for x in walk(es))
                rep.ob(rid, oks, df, "the answered sender is the popped listener", where=snd.loc, how=show(es)[:60], detail="" if oks else "send on %s" % show(es)[:80], nontrivial=False)
            # the response parameter is never reassigned
            for i in range(1, b.arg_count + 1):
                if "HtlcAcceptedResponse" in b.local_ty(i):
                    ws = [d for d in b.defs.get(i, [])]
                    rep.ob(rid, not ws, df, "response parameter is not reassigned", where=loc(b.span), how="no assignment", detail="" if not ws else "the response is modified inside the drain")
    # who writes the listener field
    writers = set()
    for b in F.code_bodies():
        for c in b.calls:
            if c.name.startswith("std::vec::Vec::") and ml.ONESHOT_SENDER in c.full and c.mname not in ("new", "len", "is_empty", "iter", "with_capacity"):
                writers.add((F.root_of(b), c.mname, c.loc))
    for root, m, w in sorted(writers):
        ok = (m == "push" and root in A.add_listener_fns) or (m in ("pop", "drain") and root in A.drain_fns)
        rep.ob(rid, ok, root, "listener list mutation", where=w, how=m, detail="" if ok else "the listener list is mutated by %s in %s" % (m, root))


def p4_p5_register_or_return(C, rep, rid):
    rep.rule(rid, "after taking the lock every handler path hands the oneshot sender to the add-listener before awaiting the receiver; the add-listener answers or stores it on every path")
    F, X, A = C.F, C.X, C.A
    H = handler(C)
    b = H.body
    rep.anchor(rid, "add-listener call in the handler", len(H.add_calls), 1, fn=H.fn)
    rep.anchor(rid, "oneshot channel in the handler", len(H.oneshot), 1, fn=H.fn)
    if not H.add_calls or not H.lock:
        return
    # receiver await: the unwrap site on the awaited receiver, or the poll of the receiver
    rx = [c for c in polls_in(b, b.reachable) if any(x[0] == "field" and x[1] == "1" and x[4][0] == "call" and x[4][1] == "tokio::sync::oneshot::channel" for x in walk(awaited_future_of_poll(b, X, c)))]
    rep.anchor(rid, "await of the oneshot receiver", len(rx), 1, fn=H.fn)
    for r in rx:
        ab = {c.bb for c in H.add_calls}
        ok = r.bb not in b.reach([H.lock[0].bb], removed_nodes=ab)
        rep.ob(rid, ok, H.fn, "receiver awaited only after the add-listener call", where=r.loc, how="unreachable from the lock with the add-listener call removed",
               detail="" if ok else "a path awaits the response without having registered the sender: the hook call hangs forever")
    for a in H.add_calls:
        aw = lib.await_of_call(b, a)
        rep.ob(rid, aw is not None, H.fn, "add-listener future is awaited", where=a.loc, how="awaited", detail="" if aw else "unawaited-effect: add-listener future dropped")
        e = [strip(X.operand(b, x)) for x in a.args]
        oks = any(any(y[0] == "field" and y[1] == "0" and y[4][0] == "call" and y[4][1] == "tokio::sync::oneshot::channel" for y in walk(x)) for x in e)
        rep.ob(rid, oks, H.fn, "the handler's own sender is registered", where=a.loc, how="channel().0", detail="" if oks else "add-listener is not given this call's sender")
    for f in A.add_listener_fns:
        ok, why = panics.sender_kept_or_answered(F, f)
        rep.ob(rid, ok, f, "add-listener answers or stores the sender on every path", where="", how=why, detail="" if ok else "add-listener may drop the sender: %s" % why)


def p4b_answer_only_via_lifecycle(C, rep, rid):
    rep.rule(rid, "once the handler has taken the payments lock (HTLC classified as trampoline), its only exit is the awaited oneshot receiver: the response always comes from the lifecycle, which alone knows whether a payment is in flight")
    F, X, A = C.F, C.X, C.A
    H = handler(C)
    b = H.body
    if not H.lock:
        rep.anchor(rid, "table lock acquisition", 0, fn=H.fn)
        return
    rx = [c for c in polls_in(b, b.reachable) if any(x[0] == "field" and x[1] == "1" and x[4][0] == "call" and x[4][1] == "tokio::sync::oneshot::channel" for x in walk(awaited_future_of_poll(b, X, c)))]
    if not rep.anchor(rid, "await of the oneshot receiver", len(rx), 1, fn=H.fn):
        return
    aw = lib.await_of_call(b, H.lock[0])
    start = aw["ready"] if aw and aw["ready"] is not None else H.lock[0].bb
    cut = {r.bb for r in rx}
    bad = [r for r in b.returns() if r in b.reach([start], removed_nodes=cut)]
    # name the offending exit: the value assigned to the return place on that path
    where = ""
    if bad:
        r0 = b.reach([start], removed_nodes=cut)
        for bi in sorted(r0):
            for st in b.blocks[bi]["s"]:
                if st["k"] == "assign" and st["lhs"]["l"] == 0 and not st["lhs"]["p"]:
                    where = loc(st["sp"])
            t = b.term(bi)
            if t["k"] == "call" and t["dest"]["l"] == 0 and not t["dest"]["p"] and not is_noise_span(t["sp"]):
                where = loc(t["sp"])
    rep.ob(rid, not bad, H.fn, "no handler exit between the lock and the receiver await", where=where or H.lock[0].loc, how="every Return reachable from the lock passes the receiver await",
           detail="" if not bad else "the handler answers a classified trampoline HTLC directly at %s, without registering it with the payment lifecycle: after a restart (empty table, stored Pending/Succeeded) or while a payment is in flight it would be failed although the outgoing payment can still succeed" % (where or "?"))
    # and the returned value on the main path is the received response
    r = strip(X.local(b, 0))
    for a in alts(r):
        site = a[3] if a[0] == "call" else (a[4] if a[0] == "agg" else None)
        if site is not None and site[1] in b.reach([start]):
            ok = any(x[0] == "await" for x in walk(a)) and any(x[0] == "call" and x[1] == "tokio::sync::oneshot::channel" for x in walk(a))
            rep.ob(rid, ok, H.fn, "response after the lock is the lifecycle's", where=site[2], how=show(a)[:70], detail="" if ok else "after the lock the handler returns %s" % show(a)[:100])


def q_request_fields_verbatim(C, rep, rid):
    rep.rule(rid, "the amounts, expiries and declared total of an HTLC are the values of the hook's JSON: the generated Deserialize code of HtlcAcceptedRequest / Htlc / Onion calls no hand-written conversion (`deserialize_with`, `from`, `try_from`, `default = ..`) for a numeric field")
    F = C.F
    rx = re.compile(r"Deserialize<'de> for messages::(Onion|Htlc|HtlcAcceptedRequest)>")
    bodies = [b for k, b in F.by_cdef.items() if rx.search(k)]
    rep.anchor(rid, "generated Deserialize bodies of the request types", len(bodies), 9)
    bad = []
    for b in bodies:
        for c in b.calls:
            n = c.resolved or c.name
            if "_serde" in n or "::_::" in n or n.startswith("<"):
                continue
            if n.split("::")[0] in ("messages", "htlc_manager", "tlv", "plugin") and (n in F.by_cdef or n in F.fns):
                cb = F.by_cdef.get(n)
                if cb is not None and (cb.span.get("mac") or []):
                    continue
                bad.append((b, c, n))
    rep.ob(rid, not bad, "messages", "request fields are deserialised as they are", where=bad[0][1].loc if bad else "", how="no hand-written conversion in the generated code",
           detail="" if not bad else "the field deserialiser calls %s: the value the gates see (amount, expiry, declared total) is not the one in the hook's JSON" % bad[0][2])
    # the numeric fields keep serde's plain types
    a_on, a_ht = F.adts.get("messages::Onion"), F.adts.get("messages::Htlc")
    n = 0
    for a in (a_on, a_ht):
        if a and a.get("variants"):
            for f in a["variants"][0]["fields"]:
                if re.match(r"^(std::option::Option<)?[ui](8|16|32|64)>?$", f["ty"]):
                    n += 1
    rep.anchor(rid, "numeric fields of Onion / Htlc", n, 4)


def u5_no_individual_rejection(C, rep, rid):
    rep.rule(rid, "a failure answered to one HTLC directly (by the classification or by the handler before the table entry is taken) does not depend on that HTLC's own amount, expiry or declared total: such rejections go through the set's fail request so that every held part receives it")
    F, X, A = C.F, C.X, C.A
    H = handler(C)
    b = H.body
    if not rep.anchor(rid, "classification call in the handler", len(H.check), 1, fn=H.fn):
        return
    # the per-HTLC numeric fields of the request (amount, expiry, relative expiry, id; forward / total amount of the onion)
    per = set()
    radts = []
    for name, adt in F.adts.items():
        if name.endswith("::HtlcAcceptedRequest") and adt.get("variants"):
            for f in adt["variants"][0]["fields"]:
                radts.append(canon(f["ty"]))
    for rn in radts:
        adt = F.adts.get(rn)
        if not adt or not adt.get("variants"):
            continue
        for f in adt["variants"][0]["fields"]:
            if re.match(r"^(std::option::Option<)?[ui](8|16|32|64)>?$", f["ty"]):
                per.add((rn, f["n"]))
    rep.anchor(rid, "per-HTLC numeric fields of the request (amount, expiries, forward/total amount)", len(per), 4)
    sites = []
    callee = H.check[0].resolved or H.check[0].name
    cb = F.by_cdef.get(callee)
    bodies = [b] + ([cb] if cb is not None and cb is not b else [])
    for body in bodies:
        for bi in sorted(body.reachable):
            for st in body.blocks[bi]["s"]:
                if st["k"] == "assign" and st["rv"]["k"] == "agg" and _is_check_agg(H, st["rv"]) and st["rv"].get("variant") == H.resp_variant and st["rv"]["ops"]:
                    sites.append((body, bi, strip(X.operand(body, st["rv"]["ops"][0])), loc(st["sp"])))
    if H.lock:
        r0 = b.reach([0], removed_nodes=[H.lock[0].bb])
        for al in alts(strip(X.local(b, 0))):
            site = al[3] if al[0] == "call" else (al[4] if al[0] == "agg" else None)
            if isinstance(site, tuple) and site[0] == b.cdef and site[1] in r0:
                sites.append((b, site[1], al, site[2]))
    rep.anchor(rid, "direct answers (classification responses / handler returns before the lock)", len(sites), 3)

    def per_reads(e):
        out = []
        for y in walk(e):
            if y[0] == "field" and (canon(y[2] or ""), y[1]) in per:
                out.append("%s.%s" % (canon(y[2]).split("::")[-1], y[1]))
        return out
    nfail = 0
    for body, bi, e, where in sites:
        vals = mm.eval_response(F, X, e, C.enc_table)
        if not any(v[0] in ("Fail", "Opaque", "Resolve") for v in vals):
            continue
        nfail += 1
        reads = []
        for cnd, truth in lib.dominating_conditions(body, bi):
            es = []
            if cnd.kind == "cmp":
                es = [strip(X.operand(body, cnd.a)), strip(X.operand(body, cnd.b))]
            elif cnd.place is not None:
                es = [strip(X.place(body, cnd.place))]
            for x in es:
                x = strip(mm.inline_getters(F, X, x))
                reads += per_reads(x)
        ok = not reads
        rep.ob(rid, ok, F.root_of(body), "direct failure does not depend on the individual HTLC", where=where, how="conditions read no per-HTLC amount/expiry field; answer %s" % sorted({v[0] for v in vals}),
               detail="" if ok else "an HTLC is answered %s directly, depending on its own %s: the other parts held for the same payment do not receive that answer (and a part of a payment already in flight would be failed while the rest is settled)" % (sorted({v[0] for v in vals}), ", ".join(sorted(set(reads)))))
    rep.anchor(rid, "direct failure answers examined", nfail, 1)


def latch_info(C):
    """for each mpsc send on a PaymentState channel field: guards, latch flag, set-before-send"""
    F, X, A = C.F, C.X, C.A
    out = []
    for b in F.code_bodies():
        for c in b.calls:
            if c.name not in ("tokio::sync::mpsc::Sender::send", "tokio::sync::mpsc::Sender::try_send", "tokio::sync::mpsc::Sender::blocking_send", "tokio::sync::mpsc::Sender::send_timeout") or c.noise:
                continue
            e = strip(X.operand(b, c.args[0]))
            if not (e[0] == "field" and canon(e[2]) == NM.PS()):
                continue
            guards = bool_guards_at(b, c.bb)
            # flags set true on every path from entry to the send, after their guard
            sets = {}
            for bi in b.dom.get(c.bb, ()):
                for s in b.blocks[bi]["s"]:
                    if s["k"] == "assign":
                        fs = [x for x in s["lhs"]["p"] if x["k"] == "field"]
                        if fs and canon(fs[-1].get("o", "")) == NM.PS() and s["lhs"]["p"][-1]["k"] == "field":
                            v = const_bool_of(b, s)
                            if v is not None:
                                sets[fs[-1]["n"]] = v
            out.append({"body": b, "call": c, "field": e[1], "guards": guards, "sets": sets})
    return out


def p6_no_blocking_under_lock(C, rep, rid, all_regions=False):
    rep.rule(rid, "while the payments-table guard is live only latched (single-shot, capacity>=1) channel sends are awaited; no second lock, no RPC")
    F, X, A = C.F, C.X, C.A
    allowed = set(A.fail_requester_fns) | set(A.add_listener_fns)
    nreg = 0
    for b in F.code_bodies():
        if not b.locals_of_type(ml.guard_ty()):
            continue
        for r in guard_regions(F, b, ml.guard_ty()):
            nreg += 1
            fn = F.root_of(b)
            where = loc(b.term(r.def_blocks[0])["sp"])
            if r.moved:
                rep.ob(rid, False, fn, "guard is not handed to another function", where=r.moved[0].loc, detail="the table guard is moved into %s; its scope cannot be bounded" % r.moved[0].name)
                continue
            rep.ob(rid, bool(r.end_blocks), fn, "guard scope is bounded", where=where, how="drop/StorageDead found", detail="" if r.end_blocks else "no end of the guard's scope found", nontrivial=False)
            for p in polls_in(b, r.blocks):
                e = awaited_future_of_poll(b, X, p)
                names = {x[1] for a in alts(e) for x in ([a] if a[0] == "call" else []) }
                inner = [a for a in alts(e)]
                ok = all(a[0] == "call" and ((a[4].resolved or a[1]) in allowed) for a in inner)
                rep.ob(rid, ok, fn, "await under the table lock", where=p.loc, how="awaits %s" % sorted(names),
                       detail="" if ok else "while the payments lock is held the task awaits %s: every other payment hash is blocked meanwhile" % show(e)[:120])
            for c in b.calls:
                if c.bb in r.blocks and c.bb not in r.def_blocks and not c.noise:
                    if c.name in ("tokio::sync::Mutex::lock", "std::sync::Mutex::lock", "tokio::sync::RwLock::read", "tokio::sync::RwLock::write", "tokio::sync::Semaphore::acquire"):
                        # the lock call producing this very guard precedes the region
                        rep.ob(rid, False, fn, "no second lock under the table lock", where=c.loc, detail="%s is called while the payments lock is held (lock order / deadlock)" % c.name)
                    eff = [e2 for e2 in lib.call_effects(c) if e2 in ("PAY", "WAIT", "STORE_R", "STORE_W", "HEIGHT", "NOTIFY", "SLEEP", "OUT", "RPCCONN")]
                    if eff:
                        rep.ob(rid, False, fn, "no RPC/sleep under the table lock", where=c.loc, detail="%s (%s) is invoked while the payments lock is held" % (c.name, ",".join(eff)))
    rep.anchor(rid, "payments-table guard regions", nreg, 3)
    # awaited local coroutines: their own awaits are mpsc sends only, no locks
    for f in sorted(allowed):
        for b in F.group(f):
            for p in polls_in(b, b.reachable):
                e = awaited_future_of_poll(b, X, p)
                ok = all(a[0] == "call" and a[1] == "tokio::sync::mpsc::Sender::send" for a in alts(e))
                rep.ob(rid, ok, f, "awaits only a channel send", where=p.loc, how=show(e)[:60], detail="" if ok else "%s (awaited under the table lock) itself awaits %s" % (f, show(e)[:100]))
            for c in b.calls:
                if c.name in ("tokio::sync::Mutex::lock", "std::sync::Mutex::lock") and not c.noise:
                    rep.ob(rid, False, f, "no lock inside functions awaited under the table lock", where=c.loc, detail="%s takes a lock while the caller holds the payments lock" % f)
    # latch rule
    li = latch_info(C)
    rep.anchor(rid, "mpsc sends on PaymentState channel fields", len(li), 2)
    never_reset = {}
    for info in li:
        b, c = info["body"], info["call"]
        fn = F.root_of(b)
        g = info["guards"]
        false_guards = {k for k, v in g.items() if v is False}
        latch = [k for k in false_guards if info["sets"].get(k) is True]
        ok = bool(latch)
        rep.ob(rid, ok, fn, "send on %s is guarded by a flag that is false and set before sending" % info["field"], where=c.loc, how="guards %s, set %s" % (sorted(false_guards), sorted(k for k, v in info["sets"].items() if v)),
               detail="" if ok else "the bounded-channel send on %s at %s is not single-shot: a second send blocks forever while the payments lock is held" % (info["field"], c.loc))
        info["latch"] = latch
        info["false_guards"] = false_guards
    # resets of latch flags
    for info in li:
        for flag in info.get("latch", []):
            writes, borrows = field_writes(F, NM.PS(), flag)
            for (wb, wbi, ws) in writes:
                v = const_bool_of(wb, ws)
                if v is True:
                    continue
                # a reset (false / non-constant): needs a co-guard G of the same send that is set true on every path here and never reset
                cog = [g2 for g2 in info["false_guards"] if g2 != flag]
                ok = False
                why = ""
                for g2 in cog:
                    gw, _gb = field_writes(F, NM.PS(), g2)
                    resets = [x for x in gw if const_bool_of(x[0], x[2]) is not True]
                    if resets:
                        why = "co-guard %s is itself reset at %s" % (g2, loc(resets[0][2]["sp"]))
                        continue
                    setblocks = {x[1] for x in gw if x[0] is wb and const_bool_of(x[0], x[2]) is True}
                    if wbi in setblocks or any(wb.dominates(sb, wbi) for sb in setblocks) or (setblocks and all(wb.node_cut(setblocks, r) for r in wb.returns() if r in wb.reach([wbi]))):
                        ok = True
                        why = "reset is accompanied by %s = true, which also guards the send and is never reset" % g2
                        break
                    why = "co-guard %s is not set on every path through the reset" % g2
                rep.ob(rid, ok, F.root_of(wb), "reset of latch flag %s" % flag, where=loc(ws["sp"]), how=why,
                       detail="" if ok else "latch flag %s is reset at %s (%s): the single-shot send on %s can happen twice and block under the lock" % (flag, loc(ws["sp"]), why or "no permanent co-guard", info["field"]))
            for (wb, wbi, ws) in borrows:
                rep.ob(rid, False, F.root_of(wb), "latch flag %s is not mutably borrowed" % flag, where=loc(ws["sp"]), detail="&mut %s escapes; it may be reset elsewhere" % flag)
    # capacities
    for b in F.code_bodies():
        for c in b.calls:
            if c.name == "tokio::sync::mpsc::channel" and not c.noise and ("HtlcAcceptedResponse" in c.full or "channel::<()>" in c.full):
                iv = lib.Intervals(b).at(c.args[0], c.bb)
                ok = iv is not None and iv[0] >= 1
                rep.ob(rid, ok, F.root_of(b), "channel capacity >= 1", where=c.loc, how=str(iv), detail="" if ok else "channel capacity %s" % (iv,))


def u3_reject_before_add(C, rep, rid, which=("conflict", "expiry", "total")):
    rep.rule(rid, "policy rejections request failure before the HTLC is added; their guards and responses are the stated ones; a fail request permanently disables readiness")
    F, X, A = C.F, C.X, C.A
    H = handler(C)
    b = H.body
    rep.anchor(rid, "fail-requester calls in the handler", len(H.fail_calls), 1, fn=H.fn)
    rep.anchor(rid, "add-listener call in the handler", len(H.add_calls), 1, fn=H.fn)
    if not H.add_calls:
        return
    add = H.add_calls[0]
    found = {}
    nrej = 0
    for f in H.fail_calls:
        ok = f.bb not in b.reach_after([add.bb]) and b.dominates(f.bb, add.bb) is False or f.bb not in b.reach_after([add.bb])
        rep.ob(rid, ok, H.fn, "fail request precedes add", where=f.loc, how="not reachable from the add-listener call",
               detail="" if ok else "a rejection at %s is issued after the HTLC was already counted: the set may have been declared ready" % f.loc)
        aw = lib.await_of_call(b, f)
        rep.ob(rid, aw is not None, H.fn, "fail request is awaited", where=f.loc, how="awaited", detail="" if aw else "unawaited-effect: fail request future dropped", nontrivial=False)
        # add must still be reached afterwards (late HTLCs of an in-flight payment must be registered)
        ok2 = add.bb in b.reach_after([f.bb])
        rep.ob(rid, ok2, H.fn, "rejected HTLC is still registered", where=f.loc, how="add-listener reachable after the fail request",
               detail="" if ok2 else "a rejected HTLC is never registered: it would not be answered")
        # one rejection per place where the response handed to the fail request is made: three `fail(resp)` calls each
        # under its own condition, or one `if let Some(resp) = first_violation(..) { fail(resp) }` whose three
        # responses are built under the three conditions, are the same three rejections
        sites = []
        for e, _vf, _cf, wh in mm.def_alternatives(F, X, b, f.args[-1]):
            sbb = wh[1] if wh and wh[0] == b.cdef and wh[1] is not None else f.bb
            sites.append((e, sbb))
        if not sites:
            sites = [(strip(X.operand(b, f.args[-1])), f.bb)]
        for e, sbb in sites:
            nrej += 1
            kind = classify_gate(C, b, sbb)
            if kind[0] == "?" and sbb != f.bb:
                kind = classify_gate(C, b, f.bb)
            found.setdefault(kind[0], []).append((f, kind, e, sbb))
    rep.anchor(rid, "rejections (fail request x place where its response is made)", nrej, 3, fn=H.fn)
    for k in which:
        gs = found.get(k, [])
        rep.ob(rid, len(gs) >= 1, H.fn, "gate `%s` exists" % k, where=gs[0][0].loc if gs else "", how="%d" % len(gs),
               detail="" if gs else "the %s gate is missing: no fail request is guarded by that condition" % k)
        for f, kind, e, sbb in gs:
            resp = mm.eval_response(F, X, e, C.enc_table)
            if k == "conflict":
                ok = all(v[0] == "Fail" and v[2] == [("bytes", [0x20, 25])] for v in resp)
                rep.ob(rid, ok, H.fn, "conflicting info => temporary_trampoline_failure", where=f.loc, how=str([v[:3] for v in resp])[:100], detail="" if ok else "conflict gate answers %s" % [v[:3] for v in resp])
            else:
                ok = all(v[0] == "Fail" and v[1] is not None and v[2] and v[2][0] == ("bytes", [0x20, 26]) for v in resp)
                pl_ok = True
                for v in resp:
                    pe = mm.expand_params(F, X, v[3], depth=3) if v[0] == "Fail" and v[3] is not None else None
                    if pe is None or not all(a[0] == "field" and a[1] == "routing_policy" and a[2] == "htlc_manager::HtlcManagerParams" for a in alts(pe)):
                        pl_ok = False
                rep.ob(rid, ok and pl_ok, H.fn, "%s gate => fee_or_expiry_insufficient(configured policy)" % k, where=f.loc, how="0x201a + params.routing_policy",
                       detail="" if ok and pl_ok else "%s gate answers %s" % (k, [v[:3] for v in resp]))
    if "conflict" in which:
        # `trampoline != payment_state.trampoline` means what it says only if the comparison looks at every field
        # (amount to deliver included - for amountless invoices it comes from the HTLC's own amount record)
        _eq_compares_all_fields(F, rep, rid, "messages::TrampolineInfo")
    unknown = found.get("?", [])
    for f, kind, _e, _sbb in unknown:
        rep.ob(rid, False, H.fn, "unrecognised rejection", where=f.loc, detail="a fail request at %s is guarded by an unrecognised condition (%s)" % (f.loc, kind[1]))
    # fail-requester: sets the flag before its send (latch) - and readiness requires the flag false
    li = latch_info(C)
    fr = [i for i in li if "HtlcAcceptedResponse" in i["call"].full]
    rd = [i for i in li if "Sender::<()>" in i["call"].full]
    for i in fr:
        flags = [k for k, v in i["sets"].items() if v is True and i["guards"].get(k) is False]
        rep.ob(rid, bool(flags), F.root_of(i["body"]), "fail request sets its flag before sending", where=i["call"].loc, how=str(flags), detail="" if flags else "fail requester does not record the request")
        for fl in flags:
            ws, _bs = field_writes(F, NM.PS(), fl)
            resets = [w for w in ws if const_bool_of(w[0], w[2]) is not True]
            rep.ob(rid, not resets, F.root_of(i["body"]), "the fail flag is never cleared", where=loc(resets[0][2]["sp"]) if resets else i["call"].loc, how="only `= true` writes",
                   detail="" if not resets else "flag %s can be cleared again at %s: a rejected set can become payable" % (fl, loc(resets[0][2]["sp"])))
        for r in rd:
            ok = any(r["guards"].get(fl) is False for fl in flags)
            rep.ob(rid, ok, F.root_of(r["body"]), "readiness requires no fail request", where=r["call"].loc, how="ready send guarded by !%s" % flags,
                   detail="" if ok else "a set for which failure was requested can still be declared ready and paid")
    rep.anchor(rid, "ready send site", len(rd), 1)


def _fields_read(b, adt):
    out = set()

    def pl(p):
        for x in p.get("p", []):
            if x["k"] == "field" and canon(x.get("o") or "") == adt:
                out.add(x["n"])
    for bi in sorted(b.reachable):
        blk = b.blocks[bi]
        for s in blk["s"]:
            if s["k"] != "assign":
                continue
            rv = s["rv"]
            if "pl" in rv:
                pl(rv["pl"])
            for key in ("op", "a", "b"):
                if isinstance(rv.get(key), dict) and "pl" in rv[key]:
                    pl(rv[key]["pl"])
            for o in rv.get("ops", []) or []:
                if isinstance(o, dict) and "pl" in o:
                    pl(o["pl"])
        t = blk["t"]
        if t["k"] == "call":
            for a in t["args"]:
                if "pl" in a:
                    pl(a["pl"])
        if t["k"] == "switch" and "pl" in t.get("op", {}):
            pl(t["op"]["pl"])
    return out


def _eq_compares_all_fields(F, rep, rid, adt):
    name = "<%s as std::cmp::PartialEq>::eq" % adt
    b = F.by_cdef.get(name)
    if not rep.anchor(rid, "PartialEq::eq of %s" % adt.split("::")[-1], 1 if b is not None else 0, 1):
        return
    a = F.adts.get(adt)
    allf = {f["n"] for f in a["variants"][0]["fields"]} if a and a.get("variants") else set()
    derived = "Derive:PartialEq" in (b.span.get("mac") or [])
    read = set()
    for g in F.group(name):
        read |= _fields_read(g, adt)
    ok = derived or (allf and read >= allf)
    missing = sorted(allf - read)
    rep.ob(rid, ok, name, "equality of %s compares every field" % adt.split("::")[-1], where=loc(b.span), how="derived" if derived else "reads %s" % sorted(read),
           detail="" if ok else "the hand-written equality of %s ignores %s: two HTLCs that differ there (e.g. in the amount to deliver declared for an amountless invoice) are treated as one consistent set" % (adt.split("::")[-1], ", ".join(missing) or "some fields"))
    # nested local structs compared through their own PartialEq
    if a and a.get("variants"):
        for f in a["variants"][0]["fields"]:
            t = canon(f["ty"])
            if t in F.adts and t != adt and ("<%s as std::cmp::PartialEq>::eq" % t) in F.by_cdef:
                nb = F.by_cdef["<%s as std::cmp::PartialEq>::eq" % t]
                na = F.adts[t]
                nall = {x["n"] for x in na["variants"][0]["fields"]} if na.get("variants") else set()
                nder = "Derive:PartialEq" in (nb.span.get("mac") or [])
                nread = _fields_read(nb, t)
                nok = nder or (nall and nread >= nall)
                rep.ob(rid, nok, nb.cdef, "equality of %s compares every field" % t.split("::")[-1], where=loc(nb.span), how="derived" if nder else "reads %s" % sorted(nread),
                       detail="" if nok else "the hand-written equality of %s ignores %s" % (t.split("::")[-1], ", ".join(sorted(nall - nread))))


def classify_gate(C, b, fbb):
    """which condition guards the rejection made at block fbb.  Every recognised gate condition that is forced on the way
    is classified with its polarity; with a chain of early returns a later rejection is also dominated by the *passed*
    earlier gates - the rejection belongs to the innermost gate taken in its rejecting direction."""
    X = C.X
    if not isinstance(fbb, int):
        fbb = fbb.bb
    rejecting = []
    odd = []
    for c, truth in lib.dominating_conditions(b, fbb):
        if c.kind == "call":
            n = c.call.name
            if n in ("std::cmp::PartialEq::ne", "std::cmp::PartialEq::eq") and "messages::TrampolineInfo" in c.call.full:
                want = (n.endswith("ne") and truth) or (n.endswith("eq") and not truth)
                xa = strip(mm.inline_getters(C.F, X, strip(X.operand(b, c.call.args[0]))))     # getters are the fields they return
                xb = strip(mm.inline_getters(C.F, X, strip(X.operand(b, c.call.args[1]))))

                def is_entry(y):
                    return y[0] == "field" and y[1] == "trampoline" and canon(y[2]) == NM.PS()

                def is_new(y):
                    return not is_entry(y) and any(z[0] == "call" and z[4].t.get("rty") in NM.of(C.F).check for z in walk(y))
                both = (is_entry(xa) and is_new(xb)) or (is_entry(xb) and is_new(xa))
                if both and want:
                    rejecting.append((len(b.dom.get(c.bb, ())), ("conflict", "trampoline != payment_state.trampoline")))
                elif not both:
                    odd.append((len(b.dom.get(c.bb, ())), ("?", "TrampolineInfo comparison with unexpected operands")))
                continue
            if n == "messages::TrampolineRoutingPolicy::fee_sufficient":
                if truth:
                    continue                       # gate passed
                ea = strip(X.operand(b, c.call.args[1]))
                eb = strip(X.operand(b, c.call.args[2]))
                sa, sb = show(ea), show(eb)
                # the compared amount is the onion's declared total, falling back to the onion's forward amount - nothing else
                # (accessors / helpers are looked through: `req.total_msat()` is what it returns)
                e1 = strip(mm.inline_pure(C.F, X, ea))
                fnames = {x[1] for x in walk(e1) if x[0] == "field" and x[1] != "0"}
                ok_a = "total_msat" in fnames and fnames <= {"total_msat", "forward_msat", "onion"} and not any(x[0] == "call" and x[1].startswith("core::num::") for x in walk(e1)) \
                    and not any(x[0] in ("bin", "un") for x in walk(e1)) and not any(a[0] == "const" for a in alts(e1))
                sa = show(e1)
                ok_b = "amount_msat" in sb and "trampoline" in sb.lower() or "TrampolineInfo::amount_msat" in sb
                ok_p = "routing_policy" in show(strip(X.operand(b, c.call.args[0])))
                if ok_a and ok_b and ok_p:
                    rejecting.append((len(b.dom.get(c.bb, ())), ("total", "!fee_sufficient(total_msat|forward_msat, trampoline.amount_msat)")))
                else:
                    rejecting.append((len(b.dom.get(c.bb, ())), ("?", "fee_sufficient(%s, %s)" % (sa[:40], sb[:40]))))
                continue
        if c.kind == "cmp":
            ea = strip(X.operand(b, c.a))
            eb = strip(X.operand(b, c.b))
            sa, sb = show(ea), show(eb)
            op = c.op if truth else {"Lt": "Ge", "Le": "Gt", "Gt": "Le", "Ge": "Lt", "Eq": "Ne", "Ne": "Eq"}[c.op]

            def widened_field(e, fname, owner_part):
                x = e
                for _ in range(4):
                    if x[0] == "cast" and x[1].startswith("IntToInt") and x[2] in lib.INT_RANGES and x[3] in lib.INT_RANGES and \
                            lib.INT_RANGES[x[3]][0] <= lib.INT_RANGES[x[2]][0] and lib.INT_RANGES[x[2]][1] <= lib.INT_RANGES[x[3]][1]:
                        x = x[4]
                    elif x[0] == "call" and x[1] in ("std::convert::From::from", "std::convert::Into::into") and x[2]:
                        x = x[2][0]
                    else:
                        break
                return x[0] == "field" and x[1] == fname and owner_part in show(x)
            d = len(b.dom.get(c.bb, ()))
            if widened_field(ea, "cltv_expiry_relative", "Htlc") and widened_field(eb, "cltv_expiry_delta", "routing_policy"):
                if op == "Lt":
                    rejecting.append((d, ("expiry", "cltv_expiry_relative < policy delta")))
                elif op != "Ge":
                    rejecting.append((d, ("?", "relative expiry compared as %s %s %s" % (sa[:40], op, sb[:40]))))
                continue
            if widened_field(eb, "cltv_expiry_relative", "Htlc") and widened_field(ea, "cltv_expiry_delta", "routing_policy"):
                if op == "Gt":
                    rejecting.append((d, ("expiry", "policy delta > cltv_expiry_relative")))
                elif op != "Le":
                    rejecting.append((d, ("?", "relative expiry compared as %s %s %s" % (sa[:40], op, sb[:40]))))
                continue
            if "cltv_expiry_relative" in sa + sb:
                rejecting.append((d, ("?", "relative expiry compared as %s %s %s" % (sa[:40], op, sb[:40]))))
    if rejecting:
        return sorted(rejecting, key=lambda x: x[0])[-1][1]
    if odd:
        return odd[-1][1]
    return ("?", "no recognised guard")


def gate_rules(F, X, rep, rid, which=("expiry", "total")):
    C = R.Ctx.get(F, X)
    if not need_hh(C, rep, rid):
        return
    u3_reject_before_add(C, rep, rid, which)


# ============================================================================ C03-R2/R3, C04-M
def r2_ready_behind_predicate(C, rep, rid):
    rep.rule(rid, "the ready signal is sent from one site, behind fee_sufficient(held sum, amount to deliver) == true and no fail request")
    F, X, A = C.F, C.X, C.A
    li = [i for i in latch_info(C) if "Sender::<()>" in i["call"].full]
    ok = rep.anchor(rid, "ready send site", len(li), 1)
    rep.ob(rid, len(li) == 1, "crate", "single ready send site", how="%d" % len(li), detail="" if len(li) == 1 else "%d sites signal readiness" % len(li), nontrivial=False)
    for i in li:
        b, c = i["body"], i["call"]
        fn = F.root_of(b)
        good = False
        detail = "the ready signal is not guarded by the fee predicate"
        for cnd, truth in lib.dominating_conditions(b, c.bb):
            if cnd.kind == "call" and cnd.call.name == "messages::TrampolineRoutingPolicy::fee_sufficient":
                ea = strip(X.operand(b, cnd.call.args[1]))
                eb = strip(X.operand(b, cnd.call.args[2]))
                oka = ea[0] == "field" and ea[1] == "amount_received_msat" and canon(ea[2]) == NM.PS()
                okb = eb[0] == "field" and eb[1] == "amount_msat" and eb[2] == "messages::TrampolineInfo" and eb[4][0] == "field" and eb[4][1] == "trampoline" and canon(eb[4][2]) == NM.PS()
                if truth and oka and okb:
                    good = True
                else:
                    detail = "readiness is decided by fee_sufficient(%s, %s) == %s" % (show(ea)[:50], show(eb)[:50], truth)
        rep.ob(rid, good, fn, "ready only if fee_sufficient(amount_received_msat, trampoline.amount_msat)", where=c.loc, how="true edge of the predicate on the held sum", detail="" if good else detail)
        okf = i["guards"].get("is_fail_requested") is False
        rep.ob(rid, okf, fn, "ready only if no fail request", where=c.loc, how="!is_fail_requested", detail="" if okf else "readiness ignores a pending fail request")
        # the signalled channel is the one the lifecycle's ready arm waits on: same PaymentState field given to the lifecycle at spawn (types tie them: Sender<()>)


def r3_sum_discipline(C, rep, rid):
    rep.rule(rid, "the held sum is written only by `sum = sum (+) htlc.amount_msat` with checked/saturating/proved addition, exactly on the paths that also store the listener")
    F, X, A = C.F, C.X, C.A
    writes, borrows = field_writes(F, NM.PS(), "amount_received_msat")
    rep.anchor(rid, "writes of PaymentState::amount_received_msat", len(writes), 1)
    rep.ob(rid, len(writes) == 1, "crate", "single write site of the held sum", how="%d" % len(writes), where=loc(writes[1][2]["sp"]) if len(writes) > 1 else "",
           detail="" if len(writes) == 1 else "the held sum is written at %d sites" % len(writes))
    for (b, bi, s) in borrows:
        rep.ob(rid, False, F.root_of(b), "held sum is not mutably borrowed", where=loc(s["sp"]), detail="&mut amount_received_msat escapes")
    for (b, bi, s) in writes:
        fn = F.root_of(b)
        e = strip(X.rvalue(b, s["rv"], (b.cdef, bi, loc(s["sp"])), 0))
        e = mm.expand_params(F, X, e, depth=2) if any(y[0] == "param" and y[3] != "self" and "{closure" not in y[1] for y in walk(e)) else e
        ok = False
        how = show(e)[:100]
        x = e
        if x[0] == "field" and x[1] == "0" and x[4][0] == "bin" and x[4][1].startswith("Add"):
            x = x[4]
        kind = None
        if x[0] == "call" and re.match(r"core::num::<impl u64>::(saturating|checked)_add$", x[1]):
            a0, a1 = x[2][0], x[2][1]
            kind = x[1].split("::")[-1]
        elif x[0] == "bin" and x[1].startswith("Add"):
            a0, a1 = x[2], x[3]
            kind = "+"
        else:
            a0 = a1 = None
        if a0 is not None:
            def is_sum(y):
                return y[0] == "field" and y[1] == "amount_received_msat" and canon(y[2]) == NM.PS()
            def is_amt(y):
                return y[0] == "field" and y[1] == "amount_msat" and y[2] == "messages::Htlc"
            ok = (is_sum(a0) and is_amt(a1)) or (is_sum(a1) and is_amt(a0))
        rep.ob(rid, ok, fn, "sum = sum + htlc.amount_msat", where=loc(s["sp"]), how=how, detail="" if ok else "the held sum is updated as %s" % how)
        if kind == "+":
            sites = [st for st in panics.enumerate_sites(F, [b]) if st.kind == "arith" and st.what == "arith:Add"]
            D = panics.Discharger(F, X)
            for st in sites:
                okk, why = D.discharge(st)
                rep.ob(rid, okk, fn, "the addition cannot overflow", where=st.where, how=why if okk else "", detail="" if okk else why)
        if kind == "checked_add":
            rep.ob(rid, True, fn, "checked addition", where=loc(s["sp"]), how="checked_add", nontrivial=False)
        # counted <=> held
        pushes = [c for c in b.calls if c.name == "std::vec::Vec::push" and ml.ONESHOT_SENDER in c.full]
        rep.anchor(rid, "listener push in the same function", len(pushes), 1, fn=fn)
        for p in pushes:
            rets = b.returns()
            only_w = [r for r in rets if r in b.reach([bi], removed_nodes=[p.bb])]
            only_p = [r for r in rets if r in b.reach([p.bb], removed_nodes=[bi]) and not b.dominates(bi, p.bb)]
            before_p = p.bb in b.reach([0], removed_nodes=[bi])
            before_w = bi in b.reach([0], removed_nodes=[p.bb]) and not b.dominates(bi, p.bb)
            ok = not only_w and not before_p
            rep.ob(rid, ok, fn, "counted <=> held", where=p.loc, how="the sum write and the listener push lie on exactly the same paths",
                   detail="" if ok else "an HTLC can be %s" % ("counted without being held (sum written, listener not stored)" if only_w else "held without being counted"))


def m_min_expiry(C, rep, rid):
    rep.rule(rid, "the stored expiry is written only by `e = min(htlc.cltv_expiry, e)` on the paths that store the listener; initial value u32::MAX")
    F, X, A = C.F, C.X, C.A
    writes, borrows = field_writes(F, NM.PS(), "cltv_expiry")
    rep.anchor(rid, "writes of PaymentState::cltv_expiry", len(writes), 1)
    rep.ob(rid, len(writes) == 1, "crate", "single write site of the minimum expiry", how="%d" % len(writes), detail="" if len(writes) == 1 else "%d write sites" % len(writes))
    for (b, bi, s) in writes:
        fn = F.root_of(b)
        e = strip(X.rvalue(b, s["rv"], (b.cdef, bi, loc(s["sp"])), 0))
        e = mm.expand_params(F, X, e, depth=2) if any(y[0] == "param" and y[3] != "self" and "{closure" not in y[1] for y in walk(e)) else e
        ok = False
        if e[0] == "call" and e[1] in ("std::cmp::min", "std::cmp::Ord::min") and len(e[2]) == 2:
            a0, a1 = e[2]
            def is_e(y):
                return y[0] == "field" and y[1] == "cltv_expiry" and canon(y[2]) == NM.PS()
            def is_h(y):
                return y[0] == "field" and y[1] == "cltv_expiry" and y[2] == "messages::Htlc"
            ok = (is_e(a0) and is_h(a1)) or (is_e(a1) and is_h(a0))
        rep.ob(rid, ok, fn, "e = min(htlc.cltv_expiry, e)", where=loc(s["sp"]), how=show(e)[:90], detail="" if ok else "the funding expiry is updated as %s" % show(e)[:100])
        pushes = [c for c in b.calls if c.name == "std::vec::Vec::push" and ml.ONESHOT_SENDER in c.full]
        for p in pushes:
            okp = p.bb not in b.reach([0], removed_nodes=[bi]) or bi not in b.reach([0], removed_nodes=[p.bb])
            same = (p.bb not in b.reach([0], removed_nodes=[bi]))
            rep.ob(rid, same, fn, "every held HTLC lowers the minimum", where=p.loc, how="push unreachable without the expiry update",
                   detail="" if same else "an HTLC can be held without its expiry entering the minimum")
    # constructor value
    for b, bi, s in F.aggregates(NM.PS()):
        d = dict(zip(s["rv"]["fields"], s["rv"]["ops"]))
        e = strip(X.operand(b, d["cltv_expiry"])) if "cltv_expiry" in d else None
        ok = e is not None and ((e[0] == "constdef" and e[1].endswith("<impl u32>::MAX")) or (e[0] == "const" and e[2] == 2**32 - 1))
        rep.ob(rid, ok, F.root_of(b), "initial expiry is u32::MAX", where=loc(s["sp"]), how=show(e)[:40] if e else "?", detail="" if ok else "initial expiry is %s" % (show(e)[:40] if e else "?"))
        e2 = strip(X.operand(b, d["amount_received_msat"])) if "amount_received_msat" in d else None
        ok2 = e2 is not None and e2[0] == "const" and e2[2] == 0
        rep.ob(rid, ok2, F.root_of(b), "initial held sum is 0", where=loc(s["sp"]), how=show(e2)[:20] if e2 else "?", detail="" if ok2 else "initial sum is %s" % (show(e2)[:40] if e2 else "?"), nontrivial=False)


# ============================================================================ C14
LOCKISH = re.compile(r"(Mutex|RwLock|Semaphore|Notify|Barrier|mpsc::|broadcast::|watch::|RefCell|Condvar|OnceCell|OnceLock)")


STATEFUL = re.compile(r"Mutex<|RwLock<|Semaphore|Notify|Barrier|mpsc::|broadcast::|watch::|oneshot::|RefCell<|\bCell<|Condvar|OnceCell|OnceLock|LazyLock|Lazy<|Atomic[A-Z]")
KNOWN_STATE = [
    "std::sync::Arc<tokio::sync::Mutex<u32>>",                                                     # the height cell
    "std::sync::Arc<tokio::sync::Mutex<tokio_util::codec::FramedWrite<_,cln_plugin::codec::JsonCodec>>>",   # the one writer
    "std::sync::Arc<std::sync::Mutex<std::collections::HashMap<std::string::String,std::option::Option<cln_plugin::options::Value>>>>",
    "tokio::sync::broadcast::Sender<()>",
    "tokio::sync::mpsc::Sender<serde_json::Value>",
    "std::sync::Mutex<std::collections::HashMap<tracing::span::Id,std::option::Option<std::string::String>>>",
    "std::sync::Mutex<std::collections::HashMap<tracing::span::Id,std::string::String>>",
    "tokio::sync::mpsc::UnboundedSender<cln_plugin::logging::LogEntry>",
    "std::sync::Arc<tokio::sync::Mutex<std::collections::HashMap<cln_rpc::primitives::Sha256,_PS_>>>",     # the payments table
    "tokio::sync::mpsc::Sender<()>",
    "tokio::sync::mpsc::Sender<messages::HtlcAcceptedResponse>",
    "std::vec::Vec<tokio::sync::oneshot::Sender<messages::HtlcAcceptedResponse>>",
]


def _shape(ty):
    t = ty.replace(" ", "")
    t = re.sub(r"FramedWrite<[A-Za-z0-9_]+,", "FramedWrite<_,", t)
    ps = NM.PS()
    if ps:
        t = t.replace(ps, "_PS_")
    return t


def l2_no_shared_blocking_state(C, rep, rid):
    rep.rule(rid, "the RPC client, datastore and payment provider hold no lock / channel / shared connection; every RPC opens its own connection; the only other guards (height cell) are never held across an await")
    F, X = C.F, C.X
    for adt in ("rpc::Rpc", "store::ClnDatastore", "payment_provider::PayPaymentProvider"):
        a = F.adts.get(adt)
        if not rep.anchor(rid, "ADT " + adt, 1 if a else 0):
            continue
        for v in a["variants"]:
            for f in v["fields"]:
                ok = not LOCKISH.search(f["ty"]) and "cln_rpc::ClnRpc" not in f["ty"]
                rep.ob(rid, ok, adt, "field %s: %s" % (f["n"], f["ty"][:50]), how="no lock/channel/connection type", detail="" if ok else "%s::%s has type %s: payments of different hashes would share it" % (adt, f["n"], f["ty"]))
    # no admission control anywhere: a pool of permits shared by all payment hashes (lifecycles, hook callbacks, RPCs) makes one
    # hash wait for others once the pool is exhausted
    nadt = 0
    for name, a in sorted(F.adts.items()):
        if "::test" in name or name.split("::")[-1].startswith("Mock") or not name.split("::")[0] in ("htlc_manager", "cln_plugin", "plugin", "rpc", "store", "payment_provider", "block_watcher", "messages", "email", "tlv"):
            continue
        nadt += 1
        for v in a.get("variants", []):
            for f in v.get("fields", []):
                bad = re.search(r"Semaphore|Barrier", f["ty"])
                if bad:
                    rep.ob(rid, False, name, "no permit pool", detail="%s::%s has type %s: a bounded pool of permits shared by all payments - once it is exhausted (by parked trampoline HTLCs, long-running pays) every other payment and every plain forward waits for them" % (name, f["n"], f["ty"]))
    rep.anchor(rid, "ADTs of the crate scanned for permit pools", nadt, 20)
    # inventory of shared mutable state: every field of a crate type with interior mutability / a channel end is one of the
    # known cells (by type shape, wherever it lives and whatever it is called).  A new one is a cache, a memo, a counter,
    # a pool or a second copy of a cell - state that couples requests which the properties treat as independent.
    inv = []
    for name, a in sorted(F.adts.items()):
        if "::test" in name or name.split("::")[-1].startswith("Mock") or not name.split("::")[0] in ("htlc_manager", "cln_plugin", "plugin", "rpc", "store", "payment_provider", "block_watcher", "messages", "email", "tlv"):
            continue
        for v in a.get("variants", []):
            for f in v.get("fields", []):
                if STATEFUL.search(f["ty"]):
                    inv.append((name, f["n"], _shape(f["ty"])))
    known = set(KNOWN_STATE) | {re.sub(r"^std::sync::Arc<(.*)>$", r"\1", k) for k in KNOWN_STATE}
    for name, fn_, shape in inv:
        if shape.startswith("&"):
            continue                          # a borrow of a cell that lives elsewhere
        if shape in known:
            continue                          # another handle to / the new home of a known cell (C20-C counts the cells)
        if re.match(r"^tokio::sync::(mpsc::(Unbounded)?Receiver|oneshot::Receiver)<", shape):
            continue                          # the single-owner receiving end, moved into the struct that runs the loop (`Poller { shutdown, .. }`); the channel is counted at its Sender
        rep.ob(rid, False, name, "no new shared mutable state", detail="%s::%s: %s is a piece of shared mutable state the properties do not account for (a cache / memo / counter / pool / second cell): requests that must be handled independently can influence each other through it" % (name, fn_, shape))
    rep.anchor(rid, "fields with interior mutability / channel ends in the crate's types", len(inv), 8)
    acq = [c for b in F.code_bodies() for c in b.calls if re.match(r"^tokio::sync::Semaphore::(acquire|acquire_owned|acquire_many|acquire_many_owned|try_acquire|try_acquire_owned)$", c.name) and not c.noise]
    rep.ob(rid, not acq, "crate", "no semaphore acquisition", where=acq[0].loc if acq else "", how="none", detail="" if not acq else "%s at %s: work for one payment hash queues behind permits held for others" % (acq[0].name, acq[0].loc))
    # per-call connection
    n = 0
    for imp in F.impls:
        if imp.get("trait") and canon(imp["trait"]) == "rpc::ClnRpc":
            for it in imp["items"]:
                root = canon(it)
                eff = lib.may_effects(F, root)
                conn = [c for c in eff.get("RPCCONN", []) if c.name == "cln_rpc::ClnRpc::new"]
                n += 1
                ok = bool(conn)
                rep.ob(rid, ok, root, "opens its own connection", how="cln_rpc::ClnRpc::new reachable", where=conn[0].loc if conn else "", detail="" if ok else "%s does not open a connection of its own" % root)
    rep.anchor(rid, "ClnRpc impl methods", n, 6)
    # every other lock guard in handler scope: no await while live
    for b in F.code_bodies():
        if not panics.in_handler_scope(F, b):
            continue
        for r in guard_regions(F, b):
            if re.search(ml.guard_ty(), r.ty):
                continue
            if "FramedWrite" in r.ty:
                continue  # the output writer: serialised by design (C17-W)
            ys = [y for y in b.yields() if y in r.blocks]
            # the yield of the lock acquisition itself precedes the region
            rep.ob(rid, not ys, F.root_of(b), "no await while %s is held" % r.ty[:60], where=loc(b.term(ys[0])["sp"]) if ys else loc(b.term(r.def_blocks[0])["sp"]), how="no Yield inside the guard region",
                   detail="" if not ys else "a %s guard is held across an await" % r.ty[:80])


def k_no_global_state(C, rep, rid):
    rep.rule(rid, "no global mutable state: the only statics are tracing call-site metadata")
    F = C.F
    bad = [s for s in F.statics if "__CALLSITE" not in s["def"]]
    rep.ob(rid, not bad, "crate", "statics", how="%d statics, all tracing call sites" % len(F.statics), detail="" if not bad else "global state %s: %s" % (bad[0]["def"], bad[0]["ty"][:60]))
    tl = [c for b in F.code_bodies() for c in b.calls if "thread::local" in c.name or "LocalKey" in c.name or "OnceLock" in c.name or "once_cell" in c.name or "lazy_static" in c.name]
    tl = [c for c in tl if not c.noise and not lib.third_party_expansion(c.sp)]
    rep.ob(rid, not tl, "crate", "no thread-local / once-cell globals", how="0", where=tl[0].loc if tl else "", detail="" if not tl else "global cell used via %s" % tl[0].name, nontrivial=False)


# ============================================================================ C06-P8
def p8_hook_wrapper(C, rep, rid):
    rep.rule(rid, "the htlc_accepted hook returns Ok(serialised handler response) on every path after a successful request decode")
    F, X, A = C.F, C.X, C.A
    if A.hh_root is None:
        rep.anchor(rid, "handler", 0)
        return
    hooks = []
    for b in F.code_bodies():
        cs = [c for c in b.calls if (c.resolved or c.name) == A.hh_root]
        if cs and F.root_of(b) != A.hh_root:
            hooks.append((b, cs))
    if not rep.anchor(rid, "caller of the handler (hook wrapper)", len(hooks), 1):
        return
    import rules_provider as RP
    for b, cs in hooks:
        fn = F.root_of(b)
        h = cs[0]
        aw = lib.await_of_call(b, h)
        rep.ob(rid, aw is not None, fn, "handler is awaited", where=h.loc, how="awaited", detail="" if aw else "handler future not awaited")
        after = b.reach_after([h.bb])
        for kind, e, site, where in RP.result_alternatives(b, X):
            if site not in after:
                continue
            if kind == "Ok":
                ok = any(x[0] == "call" and x[1] == "serde_json::to_value" for x in walk(e)) and any(x[0] == "await" and x[1][0] == "call" and x[1][3][1] == h.bb for x in walk(e))
                rep.ob(rid, ok, fn, "result is the serialised handler response", where=where, how=show(e)[:80], detail="" if ok else "hook returns Ok(%s)" % show(e)[:100])
            elif kind == "residual":
                ok = any(x[0] == "call" and x[1] == "serde_json::to_value" for x in walk(e))
                rep.ob(rid, ok, fn, "only serialisation can fail after the handler", where=where, how="`?` on to_value", detail="" if ok else "hook can fail after the handler answered: %s" % show(e)[:100])
            elif kind == "Err":
                rep.ob(rid, False, fn, "no error after the handler answered", where=where, detail="hook returns an error although the handler produced a response")
            else:
                rep.ob(rid, False, fn, "hook result shape", where=where, detail="hook returns %s" % show(e)[:100])
        # request is the decoded params
        e = strip(mm.inline_pure(F, X, strip(X.operand(b, h.args[-1]))))
        ok = any(x[0] == "call" and x[1] == "serde_json::from_value" for x in walk(e))
        rep.ob(rid, ok, fn, "handler gets the decoded request", where=h.loc, how=show(e)[:80], detail="" if ok else "handler is called with %s" % show(e)[:80], nontrivial=False)
