"""Clauses about the PaymentRequest the lifecycle builds: budget, amount, maximum delay (C03-R4/R5, C04-E/T)."""
import re
import names as NM
from mir import Call, canon, loc, strip, walk, alts, show
import lib
import panics
import model_lc as ml
import model_msgs as mm
import rules_lc as R
import rules_hh as HHm

TINFO = "messages::TrampolineInfo"


def pay_request(C):
    L = C.L
    b = L.body
    out = []
    for p in L.pay:
        e = strip(C.X.operand(b, p.args[1]))
        for a in alts(e):
            if a[0] == "agg" and a[1] == "payment_provider::PaymentRequest":
                out.append((p, dict(a[3]), a))
    return out


def _is_tramp_field(e, name):
    return e is not None and all(a[0] == "field" and a[1] == name and a[2] == TINFO and a[4][0] == "param" for a in alts(e))


def _entry_field(e, name):
    """field `name` of the PaymentState obtained by HashMap::get(locked table, invoice hash)"""
    if e is None:
        return False, None
    for a in alts(e):
        if not (a[0] == "field" and a[1] == name and canon(a[2]) == NM.PS()):
            return False, None
        inner = a[4]
        gets = [x for x in walk(inner) if x[0] == "call" and x[1] in ("std::collections::HashMap::get", "std::collections::HashMap::get_mut")]
        locks = [x for x in walk(inner) if x[0] == "call" and x[1] == "tokio::sync::Mutex::lock"]
        if not gets or not locks:
            return False, None
    return True, gets[0]


def r4_budget(C, rep, rid):
    rep.rule(rid, "max_fee_msat = (held sum read under the table lock after readiness) - (amount to deliver), saturating/checked, operands in that order, nothing else")
    L = C.L
    b = L.body
    prs = pay_request(C)
    if not rep.anchor(rid, "PaymentRequest passed to pay", len(prs), 1, fn=L.fn):
        return
    for p, d, a in prs:
        e = mm.inline_pure(C.F, C.X, d.get("max_fee_msat"))
        ok = False
        why = "budget is %s" % show(e)[:140]
        for x in alts(e):
            y = x
            neg_ok = True
            # checked_sub(..).unwrap_or(0)
            if y[0] == "call" and y[1] in ("std::option::Option::unwrap_or", "std::option::Option::unwrap_or_default") and y[2]:
                if len(y[2]) > 1 and not (y[2][1][0] == "const" and y[2][1][2] == 0):
                    neg_ok = False
                y = y[2][0]
            if y[0] == "field" and y[1] == "0" and y[4][0] == "bin" and y[4][1].startswith("Sub"):
                y = y[4]
            m = None
            if y[0] == "call":
                m = re.match(r"core::num::<impl u64>::(saturating|checked)_sub$", y[1])
            if m and len(y[2]) == 2:
                lhs, rhs = y[2]
                kind = m.group(1)
            elif y[0] == "bin" and y[1].startswith("Sub"):
                lhs, rhs = y[2], y[3]
                kind = "-"
            else:
                ok = False
                break
            okl, getc = _entry_field(lhs, "amount_received_msat")
            okr = _is_tramp_field(rhs, "amount_msat")
            if not okl:
                why = "the budget's minuend is %s, not the held sum read from the table entry" % show(lhs)[:100]
            elif not okr:
                why = "the budget's subtrahend is %s, not the amount to deliver" % show(rhs)[:100]
            ok = okl and okr and neg_ok
            if ok and kind == "-":
                sites = [s for s in panics.enumerate_sites(C.F, [b]) if s.kind == "arith" and s.what == "arith:Sub" and s.bb == y[4][1]]
                D = panics.Discharger(C.F, C.X)
                for s in sites:
                    okk, how = D.discharge(s)
                    if not okk:
                        ok = False
                        why = "unchecked subtraction for the budget: " + how
            if not ok:
                break
        rep.ob(rid, ok, L.fn, "max_fee_msat = held sum (-) amount", where=p.loc, how=show(e)[:110], detail="" if ok else why)
        # read under the lock (guard live) and after the ready arm
        okl, getc = _entry_field(alts(e)[0][2][0] if alts(e)[0][0] == "call" and alts(e)[0][2] else e, "amount_received_msat") if ok else (False, None)
        if ok and getc is not None:
            gbb = getc[3][1]
            regs = [r for r in HHm.guard_regions(C.F, b, ml.guard_ty())]
            inreg = any(gbb in r.blocks for r in regs)
            rep.ob(rid, inreg, L.fn, "held sum is read while the table guard is live", where=getc[3][2], how="inside the guard region", detail="" if inreg else "held sum read outside the table lock")
            sel = R._main_select(C)
            rd = ml.select_arm_of(sel, lambda f: f.name == "tokio::sync::mpsc::Receiver::recv" and "Receiver::<()>" in f.full) if sel else None
            after = rd is not None and gbb not in b.reach([0], removed_nodes=[rd[1]])
            rep.ob(rid, after, L.fn, "held sum is read after readiness", where=getc[3][2], how="dominated by the ready arm", detail="" if after else "budget is computed from a sum read before the set was complete")


def r5_amount(C, rep, rid):
    rep.rule(rid, "amount_msat is None for fixed-amount invoices and Some(trampoline.amount_msat) for amountless ones")
    L = C.L
    b = L.body
    prs = pay_request(C)
    for p, d, a in prs:
        # every alternative of the amount value, with the variant facts holding where it is produced
        e = d.get("amount_msat")
        if e is None:
            rep.ob(rid, False, L.fn, "amount definitions", where=p.loc, detail="cannot resolve the definitions of PaymentRequest.amount_msat")
            continue
        al = mm.alternatives_with_facts(C.F, C.X, e)
        rep.anchor(rid, "definitions of PaymentRequest.amount_msat", len(al), 2, fn=L.fn)
        seen = set()
        for v0, facts in al:
            st = None
            for pe, truth in facts:
                if all(x[0] == "call" and x[1] == "lightning_invoice::Bolt11Invoice::amount_milli_satoshis" and _is_tramp_field(x[2][0], "invoice") for x in alts(pe)):
                    st = truth
            where = v0[4][2] if v0[0] == "agg" and len(v0[4]) > 2 and v0[4][2] else p.loc
            if v0[0] == "agg" and v0[2] == "None":
                ok = st == ("Some",)
                rep.ob(rid, ok, L.fn, "no amount is passed for fixed-amount invoices", where=where, how="on arm invoice.amount = Some", detail="" if ok else "amount None is used on arm %s" % (st,))
                seen.add("none")
            elif v0[0] == "agg" and v0[2] == "Some":
                v = v0[3][0][1]
                ok = st == ("None",) and _is_tramp_field(v, "amount_msat")
                rep.ob(rid, ok, L.fn, "amountless invoices are paid exactly the declared amount", where=where, how="Some(trampoline.amount_msat) on arm invoice.amount = None",
                       detail="" if ok else "amount Some(%s) is passed on arm invoice.amount=%s" % (show(v)[:60], st))
                seen.add("some")
            else:
                rep.ob(rid, False, L.fn, "amount definition shape", where=where, detail="PaymentRequest.amount_msat can be %s" % show(v0)[:100])
        ok = seen == {"none", "some"}
        rep.ob(rid, ok, L.fn, "both invoice kinds handled", where=p.loc, how=str(sorted(seen)), detail="" if ok else "amount cases handled: %s" % sorted(seen), nontrivial=False)


def e_maxdelay(C, rep, rid):
    rep.rule(rid, "max_cltv_delta = min(clamp_u16((min expiry - height) - safety delta, saturating), policy delta)")
    L = C.L
    b = L.body
    prs = pay_request(C)
    if not rep.anchor(rid, "PaymentRequest passed to pay", len(prs), 1, fn=L.fn):
        return
    for p, d, a in prs:
        e = mm.inline_pure(C.F, C.X, d.get("max_cltv_delta"))
        ok, why = _check_maxdelay(C, e)
        rep.ob(rid, ok, L.fn, "max_cltv_delta expression", where=p.loc, how=show(e)[:160], detail="" if ok else why)


def _check_maxdelay(C, e):
    for x in alts(e):
        if not (x[0] == "call" and x[1] in ("std::cmp::min", "std::cmp::Ord::min") and len(x[2]) == 2):
            return False, "the maximum delay is %s: it is not capped by min(.., policy delta)" % show(x)[:120]
        a0, a1 = x[2]

        def is_policy(y):
            return all(z[0] == "field" and z[1] == "cltv_expiry_delta" and z[2] == "messages::TrampolineRoutingPolicy" and z[4][0] == "field" and z[4][1] == "routing_policy" for z in alts(y))
        if is_policy(a0):
            pol, oth = a0, a1
        elif is_policy(a1):
            pol, oth = a1, a0
        else:
            return False, "neither operand of min() is the policy's cltv_expiry_delta (%s, %s)" % (show(a0)[:50], show(a1)[:50])
        # narrow
        y = oth
        inner = None
        if y[0] == "call" and y[1] == "std::result::Result::unwrap_or" and len(y[2]) == 2:
            fb = y[2][1]
            okfb = (fb[0] == "constdef" and fb[1].endswith("<impl u16>::MAX")) or (fb[0] == "const" and fb[2] == 65535)
            t = y[2][0]
            if not okfb:
                return False, "narrowing falls back to %s instead of u16::MAX" % show(fb)[:40]
            if t[0] == "call" and t[1] in ("std::convert::TryInto::try_into", "std::convert::TryFrom::try_from") and t[2]:
                inner = t[2][0]
        elif y[0] == "cast" and y[1].startswith("IntToInt"):
            # `as u16` is only acceptable when the operand was clamped: min(S, 65535) as u16
            z = y[4]
            if z[0] == "call" and z[1] in ("std::cmp::min", "std::cmp::Ord::min") and any(w[0] == "const" and w[2] is not None and w[2] <= 65535 for w in z[2]) or \
               (z[0] == "call" and z[1] == "std::cmp::min" and any(w[0] == "constdef" and "u16" in w[1] for w in z[2])):
                inner = [w for w in z[2] if w[0] != "const"][0]
            else:
                return False, "the delay is narrowed with a wrapping `as u16` cast: large differences wrap to small or arbitrary values"
        if inner is None:
            return False, "cannot recognise the clamp to u16 in %s" % show(oth)[:100]
        # inner = sub(sub(E,H),D) or sub(sub(E,D),H), saturating/checked
        def sub_parts(z):
            if z[0] == "call" and re.match(r"core::num::<impl u32>::saturating_sub$", z[1]) and len(z[2]) == 2:
                return z[2]
            if z[0] == "call" and z[1] == "std::option::Option::unwrap_or" and z[2] and z[2][0][0] == "call" and re.match(r"core::num::<impl u32>::checked_sub$", z[2][0][1]) \
                    and len(z[2]) == 2 and z[2][1][0] == "const" and z[2][1][2] == 0:
                return z[2][0][2]
            return None
        outer = sub_parts(inner)
        if outer is None:
            return False, "the difference is not computed with saturating subtraction: %s" % show(inner)[:100]
        first = sub_parts(outer[0])
        if first is None:
            return False, "expected two nested saturating subtractions, found %s" % show(inner)[:100]
        E, s1, s2 = first[0], first[1], outer[1]
        okE, getc = _entry_field(E, "cltv_expiry")
        if not okE:
            return False, "the minuend is %s, not the minimum expiry of the held HTLCs read from the table entry" % show(E)[:100]

        def is_height(z):
            return all(w[0] == "await" and w[1][0] == "call" and w[1][1] == "block_watcher::BlockProvider::current_height" for w in alts(z))

        def is_delta(z):
            w = z
            if w[0] == "cast" and w[1].startswith("IntToInt") and w[2] == "u16" and w[3] == "u32":
                w = w[4]
            elif w[0] == "call" and w[1] in ("std::convert::From::from", "std::convert::Into::into") and w[2]:
                w = w[2][0]
            return w[0] == "field" and w[1] == "cltv_delta" and w[2] == "htlc_manager::HtlcManagerParams"
        if not ((is_height(s1) and is_delta(s2)) or (is_height(s2) and is_delta(s1))):
            return False, "the subtrahends are %s and %s (expected current chain height and the configured safety delta)" % (show(s1)[:60], show(s2)[:60])
    return True, ""


def t_read_at_pay_time(C, rep, rid):
    rep.rule(rid, "chain height and the minimum expiry are read after readiness (at pay time); the expiry is read under the table lock")
    L = C.L
    b = L.body
    sel = R._main_select(C)
    rd = ml.select_arm_of(sel, lambda f: f.name == "tokio::sync::mpsc::Receiver::recv" and "Receiver::<()>" in f.full) if sel else None
    if not rep.anchor(rid, "ready arm", 1 if rd else 0, fn=L.fn):
        return
    for h in L.height:
        ok = h.bb not in b.reach([0], removed_nodes=[rd[1]])
        rep.ob(rid, ok, L.fn, "height is read after readiness", where=h.loc, how="dominated by the ready arm", detail="" if ok else "the chain height is sampled before the set is complete; it may be stale when the payment is made")
    rep.anchor(rid, "height read in the lifecycle", len(L.height), 1, fn=L.fn)
    for p, d, a in pay_request(C):
        e = mm.inline_pure(C.F, C.X, d.get("max_cltv_delta"))
        gets = [x for x in walk(e) if x[0] == "call" and x[1] == "std::collections::HashMap::get"]
        for g in gets[:1]:
            gbb = g[3][1]
            regs = HHm.guard_regions(C.F, b, ml.guard_ty())
            inreg = any(gbb in r.blocks for r in regs)
            after = gbb not in b.reach([0], removed_nodes=[rd[1]])
            rep.ob(rid, inreg and after, L.fn, "minimum expiry read under the lock after readiness", where=g[3][2], how="guard live, ready arm dominates",
                   detail="" if inreg and after else "the funding HTLCs' expiry is read %s" % ("outside the table lock" if not inreg else "before readiness"))
