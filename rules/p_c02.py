"""C02 - incoming HTLCs are never failed back while the outgoing payment can succeed (DESIGN 5/C02)."""
import rules_lc as R
import rules_store as S

EXPLANATION = (
    "Decides the lifecycle-typestate clauses of C02 on the CFG of the payment lifecycle coroutine, for every path: (S1) the "
    "stored state is fetched before any other effect; (S2) from a stored Pending state wait_payment is awaited before "
    "anything is answered, paid, written, slept on or received; (S3) an error of that wait never leads to a failure response "
    "(unless it waits again); (S4) mark_failed is confined to wait==Ok(None) or pay==Err, and the collect phase after a "
    "Pending state requires mark_failed==Ok; (S5) fail requests are received only as operand of the pre-payment select, "
    "never after pay, and between readiness and pay's return nothing is answered except on add_payment_attempt==Err; (S6) "
    "after pay, failure only on pay==Err and settlement only with pay's Ok payload; (S7) in every Datastore impl the Free "
    "marker is written generation-guarded with the generation observed when the Pending record was read/written. The "
    "(S8) a classified HTLC is answered only through the lifecycle; (S9) the provider clauses (C15-V*, C16-D) behind `nothing pending or complete`. The "
    "schedule/crash-point space itself is not enumerated; these are the mechanisms every schedule relies on."
)
ASSUMPTIONS = [
    "wait_payment / pay honour C15/C16 (decided separately)",
    "CLN datastore generation compare-and-set semantics",
    "a pay command still running inside the node after its RPC connection errored is not observable by the plugin",
]


def run(F, X, rep):
    C = R.Ctx.get(F, X)
    if not R.need_lc(C, rep, "C02-S1"):
        return
    R.s1_store_first(C, rep, "C02-S1")
    R.s2_pending_waits_first(C, rep, "C02-S2")
    R.s3_wait_error_never_fails(C, rep, "C02-S3")
    R.s4_mark_failed_guards(C, rep, "C02-S4")
    R.s5_fail_requests_prepay_only(C, rep, "C02-S5")
    R.s6_after_pay(C, rep, "C02-S6")
    import rules_hh as H
    if H.need_hh(C, rep, "C02-S8"):
        H.p4b_answer_only_via_lifecycle(C, rep, "C02-S8")
    S.s7_generation_guard(C, rep, "C02-S7")
    # "from a stored Pending state wait first" presupposes that a stored Pending record is reported as Pending
    S.w4_fetch_mapping(C, rep, "C02-S11")
    S.rt_records_roundtrip(C, rep, "C02-S11")
    # a held HTLC is answered only by its lifecycle's final answer (which removes the entry): nothing else drains or removes it
    import rules_hh as H2
    if H2.need_hh(C, rep, "C02-S12"):
        H2.p3_answer_reaches_everyone(C, rep, "C02-S12")
    import rules_provider as P
    P.v_wait_payment(C, rep, "C02-S9")
    P.d_dispatch(C, rep, "C02-S9")
