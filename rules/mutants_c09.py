S = "src/store.rs"
MUTANTS = [
    {"name": "revert-D4-must-replace-attempt", "control": True, "expect": ["C09-M"],
     "edits": [(S, "                mode: Some(DatastoreMode::CREATE_OR_REPLACE),\n                generation: None,\n            })\n            .await?;\n        let state = PersistPaymentState::Free;", "                mode: Some(DatastoreMode::MUST_REPLACE),\n                generation: None,\n            })\n            .await?;\n        let state = PersistPaymentState::Free;")]},
    {"name": "pending-must-create", "control": True, "expect": ["C09-M", "C08"],
     "edits": [(S, "                hex: None,\n                mode: Some(DatastoreMode::CREATE_OR_REPLACE),\n            })\n            .await?\n            .generation;", "                hex: None,\n                mode: Some(DatastoreMode::MUST_CREATE),\n            })\n            .await?\n            .generation;")]},
    {"name": "free-must-create", "expect": ["C09-M", "C02-S7"],
     "edits": [(S, "                key: state_key(trampoline.invoice.payment_hash()),\n                hex: None,\n                mode: Some(DatastoreMode::MUST_REPLACE),", "                key: state_key(trampoline.invoice.payment_hash()),\n                hex: None,\n                mode: Some(DatastoreMode::MUST_CREATE),")]},
    {"name": "attempt-id-from-hash", "expect": ["C09-M"],
     "edits": [(S, "let attempt_id = now.as_nanos().to_string();", "let attempt_id = { let _ = now; trampoline.invoice.payment_hash().to_string() };")]},
    {"name": "attempt-written-first-must-create-state-after", "expect": ["C09-M", "C08"],
     "edits": [(S, "mode: Some(DatastoreMode::MUST_CREATE),\n                string: Some(info),", "mode: Some(DatastoreMode::MUST_REPLACE),\n                string: Some(info),")]},
]

from mutants_common import EQUIV_LC as EQUIV
