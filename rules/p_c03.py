"""C03 - pay only when covered, right amount, within budget (DESIGN 5/C03)."""
import rules_lc as R
import rules_hh as H
import rules_pay as PY
import rules_provider as P

EXPLANATION = (
    "Decides: (R1) add_payment_attempt/pay/height/lock are reachable only through the select's ready arm whose operand is the lifecycle's ready "
    "receiver; (R2) the ready signal has one send site, behind fee_sufficient(held sum, amount to deliver)==true and !is_fail_requested; (R3) the held "
    "sum has one write `sum = sum (+) htlc.amount_msat` with saturating/checked/interval-proved addition, on exactly the paths that store the listener; "
    "(R4) max_fee_msat = held sum (read under the table lock after readiness) saturating-minus amount to deliver; (R5) amount None for fixed-amount "
    "invoices, Some(trampoline.amount_msat) for amountless; (R6) the provider forwards bolt11/amount/maxfee/maxdelay/retry_for verbatim in both "
    "branches and leaves maxfeepercent/exemptfee/partial_msat unset; (R8) the amount to deliver is the invoice amount / the declared amount per the C10-A arm table; (R7) the counted HTLCs stay held until pay's fate is known (C02-S5/S6); (R9) an HTLC whose TrampolineInfo - amount to deliver included - differs from the set's is rejected before it is counted (whole-struct comparison, C07-U3). The "
    "inequality over all multisets follows from R2-R4 and C12, it is not enumerated."
)
ASSUMPTIONS = ["C12 (the predicate is exact)", "CLN applies maxfee as an absolute cap when exemptfee/maxfeepercent are unset"]


def run(F, X, rep):
    C = R.Ctx.get(F, X)
    if not (R.need_lc(C, rep, "C03-R1") and H.need_hh(C, rep, "C03-R2")):
        return
    R.r1_ready_arm_only(C, rep, "C03-R1")
    H.r2_ready_behind_predicate(C, rep, "C03-R2")
    H.r3_sum_discipline(C, rep, "C03-R3")
    PY.r4_budget(C, rep, "C03-R4")
    PY.r5_amount(C, rep, "C03-R5")
    P.r6_verbatim(C, rep, "C03-R6")
    R.s5_fail_requests_prepay_only(C, rep, "C03-R7")
    R.s6_after_pay(C, rep, "C03-R7")
    import rules_ext as E
    E.a_amount_table(C, rep, "C03-R8")
    # every HTLC of a set declares the same amount to deliver: an HTLC whose TrampolineInfo (amount included) differs from
    # the entry's is rejected before it is counted (the whole-struct comparison of C07-U3)
    H.u3_reject_before_add(C, rep, "C03-R9", which=("conflict",))
    # "the HTLCs counted stay held until the payment's fate is known": pay's Err (which releases them) is returned only
    # once nothing is pending or complete (C16-D, C15-V*)
    H.q_request_fields_verbatim(C, rep, "C03-Q")
    # held until the fate is known: each lifecycle answers once - a second answer would hit the entry of a later attempt
    R.p2_exactly_one_answer(C, rep, "C03-R11")
    # one lifecycle per entry: a second one would read the held sum of a set it does not own (and its closed channels read as "ready")
    R.a3_one_lifecycle_per_entry(C, rep, "C03-R12")
    # "at least the amount to deliver plus the policy fee": the readiness predicate is the exact one (C12-X1/X2)
    import p_c12
    for pb in p_c12.find_fee_predicate(F)[:1]:
        p_c12.c12_x1(F, X, rep, pb)
        p_c12.c12_x2(F, X, rep, pb)
    P.d_dispatch(C, rep, "C03-R10")
    P.v_wait_payment(C, rep, "C03-R10")
