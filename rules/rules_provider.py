"""Clauses about the PaymentProvider implementation (payment_provider.rs): pay's status dispatch
(C16), wait_payment (C15), verbatim forwarding of the request (C03-R6/C04-F), retry cap (C19-C)."""
import re
from mir import Call, canon, loc, strip, walk, alts, show
import lib
import model_lc as ml
import model_msgs as mm
import rules_lc as R


def provider_impls(F):
    return [i for i in F.impls if i.get("trait") and canon(i["trait"]) == "payment_provider::PaymentProvider"]


def method_body(F, impl, name, pred):
    for it in impl["items"]:
        c = canon(it)
        if c.endswith("::" + name):
            for b in F.group(c):
                if any(pred(x) for x in b.calls):
                    return c, b
            return c, None
    return None, None


class PM:
    pass


def provider_model(C):
    if hasattr(C, "_prov"):
        return C._prov
    F, X = C.F, C.X
    out = []
    for imp in provider_impls(F):
        m = PM()
        m.impl = imp
        m.self_adt = canon(imp["self_ty"].split("<")[0])
        m.pay_root, m.pay = method_body(F, imp, "pay", lambda c: c.is_trait_method("rpc::ClnRpc", "pay"))
        m.wait_root, m.wait = method_body(F, imp, "wait_payment", lambda c: c.is_trait_method("rpc::ClnRpc", "listsendpays"))
        out.append(m)
    C._prov = out
    return out


def _is_test_ty(F, ty):
    """mock / test-only implementor (mockall's Mock*, anything under a tests module)"""
    t = ty.split("<")[0]
    return t.split("::")[-1].startswith("Mock") or "::tests::" in t or "::test::" in t


def rpc_impl_methods(F, names):
    out = []
    for k in sorted(F.fns):
        mt = re.match(r"^<(.+) as rpc::ClnRpc>::(\w+)$", k)
        if mt and mt.group(2) in names and not _is_test_ty(F, mt.group(1)):
            out.append((k, mt.group(1), mt.group(2)))
    return out


def e_rpc_error_kept(C, rep, rid):
    rep.rule(rid, "the ClnRpc implementation hands the node's JSON-RPC error (with its numeric code) on as RpcError::Rpc: on its way from call_typed to the caller it is never turned into an anyhow::Error / RpcError::General - wait_payment and pay dispatch on that code")
    F, X = C.F, C.X
    ms = rpc_impl_methods(F, ("waitsendpay", "listsendpays", "pay"))
    rep.anchor(rid, "ClnRpc implementation methods (pay, listsendpays, waitsendpay)", len(ms), 3)
    for k, ty, mn in ms:
        grp = F.group(k)
        ct = [c for g in grp for c in g.calls if c.name == "cln_rpc::ClnRpc::call_typed" and not c.noise]
        rep.anchor(rid, "%s::%s: call_typed" % (ty.split("::")[-1], mn), len(ct), 1, fn=k)
        bad = []
        conv = 0
        for g in grp:
            for c in g.calls:
                if c.noise:
                    continue
                f = c.full or ""
                m2 = re.match(r"^<std::result::Result<.*, ([\w:]+(?:<.*>)?)> as std::ops::FromResidual<std::result::Result<std::convert::Infallible, ([\w:]+)>>>::from_residual$", f)
                if m2 and m2.group(2) == "cln_rpc::RpcError":
                    conv += 1
                    if m2.group(1) != "rpc::RpcError":
                        bad.append((c, "`?` converts it into %s" % m2.group(1)))
                if re.search(r"<anyhow::Error as std::convert::From<cln_rpc::RpcError>>::from|<cln_rpc::RpcError as std::convert::Into<anyhow::Error>>::into", f):
                    bad.append((c, "converted into anyhow::Error"))
                if c.name in ("anyhow::Context::context", "anyhow::Context::with_context") and "cln_rpc::RpcError>" in f:
                    bad.append((c, "wrapped by anyhow::Context"))
                if c.name == "std::result::Result::map_err" and "cln_rpc::RpcError" in f and "anyhow::Error" in f:
                    bad.append((c, "map_err into anyhow::Error"))
        rep.ob(rid, not bad, k, "%s: the node's error keeps its code" % mn, where=bad[0][0].loc if bad else (ct[0].loc if ct else ""), how="%d direct conversion(s) cln_rpc::RpcError -> rpc::RpcError" % conv,
               detail="" if not bad else "the error of call_typed is %s at %s: the numeric code is lost, the caller sees RpcError::General (wait_payment then aborts on a tolerated part failure; pay's dispatch changes)" % (bad[0][1], bad[0][0].loc))


def o_one_request_per_call(C, rep, rid):
    rep.rule(rid, "the ClnRpc implementation sends each request once: one call_typed site per method, not inside a loop (a transparent re-send of `pay` after a lost reply starts a second payment while the first may be in flight)")
    F, X = C.F, C.X
    ms = rpc_impl_methods(F, ("get_info", "listsendpays", "waitsendpay", "listdatastore", "datastore", "pay"))
    rep.anchor(rid, "ClnRpc implementation methods", len(ms), 6)
    for k, ty, mn in ms:
        sites = []
        for g in F.group(k):
            for c in g.calls:
                if c.name in ("cln_rpc::ClnRpc::call_typed", "cln_rpc::ClnRpc::call", "cln_rpc::ClnRpc::call_raw") and not c.noise:
                    sites.append((g, c))
        ok = len(sites) == 1
        rep.ob(rid, ok, k, "%s: a single request is sent" % mn, where=sites[1][1].loc if len(sites) > 1 else (sites[0][1].loc if sites else ""), how="%d call_typed site(s)" % len(sites),
               detail="" if ok else "%s can send its request %d times (retry / re-send): for `pay` that is a second payment attempt" % (mn, len(sites)))
        for g, c in sites[:1]:
            lp = c.bb in g.reach_after([c.bb])
            rep.ob(rid, not lp, k, "%s: the request is not re-sent in a loop" % mn, where=c.loc, how="call site not reachable from itself", detail="" if not lp else "%s re-sends its request in a loop" % mn)


def g_getinfo_is_fresh(C, rep, rid):
    rep.rule(rid, "every call of the ClnRpc implementation asks the node: what it returns is the awaited result of a call_typed made in that call (no cached copy - the periodic poll must see the node's current height, the listings the current parts, the datastore the current records)")
    F, X = C.F, C.X
    ms = rpc_impl_methods(F, ("get_info", "listsendpays", "waitsendpay", "listdatastore", "datastore", "pay"))
    rep.anchor(rid, "ClnRpc implementation methods", len(ms), 6)
    for k, ty, mn in ms:
        n = 0
        for g in F.group(k):
            if not g.coroutine or g.cdef != k + "::{closure#0}":
                continue
            for kind, e, site, w in result_alternatives(g, X):
                if kind != "Ok" or e is None:
                    continue
                n += 1
                ok = all(any(y[0] == "call" and y[1] == "cln_rpc::ClnRpc::call_typed" and y[3][0] in {x.cdef for x in F.group(k)} for y in walk(a)) and
                         not any(y[0] == "call" and ("OnceCell" in y[1] or "OnceLock" in y[1] or "Lazy" in y[1]) for y in walk(a)) for a in alts(e))
                rep.ob(rid, ok, k, "%s: the returned reply comes from this call's RPC" % mn, where=w, how=show(e)[:80], detail="" if ok else "%s returns %s: not (only) the reply of an RPC made by this call" % (mn, show(e)[:120]))
        rep.anchor(rid, "Ok exits of %s" % mn, n, 1, fn=k)


def _only_via(b, errt, okt, s):
    return False


def _err_reaches_without_return(b, errt, site):
    """does control continue from the Err arm of a listing to the block `site` (an Ok exit)?"""
    return site in b.reach([errt])


def need_provider(C, rep, rid):
    ms = provider_model(C)
    ok = rep.anchor(rid, "non-test impl of PaymentProvider", len(ms), 1)
    for m in ms:
        ok = rep.anchor(rid, "%s: pay body calling ClnRpc::pay" % m.impl["self_ty"], 1 if m.pay else 0, 1) and ok
        ok = rep.anchor(rid, "%s: wait_payment body calling ClnRpc::listsendpays" % m.impl["self_ty"], 1 if m.wait else 0, 1) and ok
    return ok


def result_alternatives(b, X):
    """[(kind, expr, site_bb, where)] for the alternatives of the returned Result: kind in Ok/Err/residual/other"""
    r = strip(X.local(b, 0))
    out = []
    for a in alts(r):
        if a[0] == "agg" and a[1] == "std::result::Result":
            out.append((a[2], a[3][0][1] if a[3] else None, a[4][1], a[4][2]))
        elif a[0] == "call" and a[1] == "std::ops::FromResidual::from_residual":
            out.append(("residual", a[2][0] if a[2] else None, a[3][1], a[3][2]))
        elif a[0] == "agg" and a[1] == "std::option::Option" and a[2] == "None":
            continue   # async_trait/instrument wrapper's `__ret: Option<..> = None` initialiser
        else:
            out.append(("other", a, -1, ""))
    return out


def _external_code_table(F, X, b, nx):
    """wait_payment hands the per-part error to a crate function returning Result<(), _> that switches on the error's `code`:
    -> (call, helper body, codes whose arm returns Ok, default arm returns Ok?, codes reaching both, Err verdict re-enters the loop?, Ok results under the Err verdict)"""
    for c in b.calls:
        hb = F.by_cdef.get(c.resolved or c.name)
        if hb is None or c.noise or not re.match(r"^(std::result::|anyhow::)?Result<\(\)(, .*)?>$", (hb.ret_ty or "").strip()):
            continue
        isw = None
        for bb in sorted(hb.reachable):
            d = lib.decode_switch(hb, bb)
            if d is not None and d.kind == "int" and d.place is not None and any(x[0] == "field" and x[1] == "code" for x in walk(strip(X.place(hb, d.place)))):
                isw = (bb, d)
        if isw is None:
            continue
        ras = result_alternatives(hb, X)
        t = hb.term(isw[0])

        def kinds(tg):
            r = hb.reach([tg])
            return {k for k, _e, sbb, _w in ras if sbb in r}
        cont, mixed = set(), set()
        for v, tg in t["arms"]:
            code = int(v)
            if code >= 2**31:
                code -= 2**32
            ks = kinds(tg)
            if ks == {"Ok"}:
                cont.add(code)
            elif "Ok" in ks:
                mixed.add(code)
        oth = "Ok" in kinds(t["otherwise"])
        # Ok anywhere else in the classifier (an error without code, a transport error) would be tolerated too
        rest = {k for k, _e, sbb, _w in ras if sbb not in hb.reach([isw[0]])}
        if "Ok" in rest:
            oth = True
        # in wait_payment: the verdict goes through `?`; its Break arm leaves the loop and yields no Ok
        sw = ml.arms_of_place_switch(b, X, lambda ee: any(y[0] == "call" and y[1] == "std::ops::Try::branch" and any(z[0] == "call" and z[3][1] == c.bb and z[1] == c.name for z in walk(y)) for y in alts(ee)))
        back, okunder = True, []
        if sw and sw[1].get("Break") is not None:
            r = b.reach([sw[1]["Break"]])
            back = nx.bb in r
            okunder = [w for k, _e, sbb, w in result_alternatives(b, X) if sbb in r and k == "Ok"]
        return (c, hb, cont, oth, mixed, back, okunder)
    return None


def enum_facts(b, X, bb):
    out = []
    for c, truth in lib.dominating_conditions(b, bb):
        if c.kind == "enum":
            out.append((strip(X.place(b, c.place)), truth, c))
        elif c.kind == "int":
            out.append((strip(X.place(b, c.place)) if c.place else None, truth, c))
    return out


# ============================================================================ C16
def d_dispatch(C, rep, rid):
    rep.rule(rid, "pay(): Ok only with COMPLETE's preimage or wait_payment's Some; Err only after wait_payment==Ok(None), FAILED without partial-completion warning, or wait_payment's own error")
    F, X = C.F, C.X
    if not need_provider(C, rep, rid):
        return
    for m in provider_model(C):
        b = m.pay
        fn = m.pay_root
        P = [c for c in b.calls if c.is_trait_method("rpc::ClnRpc", "pay")]
        W = [c for c in b.calls if c.is_trait_method("payment_provider::PaymentProvider", "wait_payment")]
        rep.ob(rid, len(P) == 1, fn, "one ClnRpc::pay call", where=P[0].loc if P else "", how="%d" % len(P), detail="" if len(P) == 1 else "%d pay RPC sites" % len(P), nontrivial=False)
        rep.anchor(rid, "wait_payment calls inside pay()", len(W), 1, fn=fn)
        p = P[0]
        after = b.reach_after([p.bb])
        for w in W:
            e = strip(X.operand(b, w.args[1]))
            ok = all(a[0] == "field" and a[1] == "payment_hash" and a[2] == "payment_provider::PaymentRequest" and a[4][0] == "param" for a in alts(e))
            rep.ob(rid, ok, fn, "wait_payment is asked about the request's hash", where=w.loc, how=show(e)[:60], detail="" if ok else "wait_payment(%s)" % show(e)[:80])
            aw = lib.await_of_call(b, w)
            rep.ob(rid, aw is not None, fn, "wait_payment is awaited", where=w.loc, how="awaited", detail="" if aw else "wait_payment future not awaited", nontrivial=False)
        n_after = 0
        for kind, e, site, where in result_alternatives(b, X):
            if kind == "other":
                rep.ob(rid, False, fn, "return shape", where=loc(b.span), detail="pay() can return %s" % show(e)[:120])
                continue
            if site not in after and site != p.bb:
                # before the RPC was issued nothing is in flight - by THIS call.  An earlier attempt for the hash may be (the
                # lifecycle's pay for a hash whose previous pay is still running in the node, an already paid invoice): only the
                # node knows, so pay() may give up before asking only because it could not build the request (a propagated error),
                # never by a verdict of its own on the request's values
                okb = kind == "residual"
                rep.ob(rid, okb, fn, "exit before the pay RPC only propagates an error", where=where, how="`?` of a failed step" if okb else "",
                       detail="" if okb else ("pay() returns Ok before paying" if kind == "Ok" else "pay() gives up at %s on its own verdict about the request, without asking the node: if an earlier attempt for the hash is pending or complete, failure is reported while it can still succeed" % where))
                continue
            n_after += 1
            facts = enum_facts(b, X, site)
            if kind == "Ok":
                ok = False
                how = ""
                for a in alts(e):
                    if _is_wait_some(a, W):
                        ok = True
                        how = "Some payload of wait_payment"
                    elif _roots_in_pay_response(a, p) and any(_is_status_of(fe, p) and truth == ("COMPLETE",) for fe, truth, c in facts):
                        ok = any(x[0] == "field" and x[1] == "payment_preimage" for x in walk(a)) and not any(x[0] in ("const",) and x[1] != "" and False for x in walk(a))
                        how = "PayResponse::payment_preimage under status COMPLETE"
                    else:
                        ok = False
                        how = show(a)[:100]
                        break
                rep.ob(rid, ok, fn, "success carries a real preimage", where=where, how=how,
                       detail="" if ok else "pay() reports success with %s (not COMPLETE's preimage / wait_payment's preimage)" % how)
            elif kind == "Err":
                g_none = any(_is_wait_ok_payload(fe, W) and truth == ("None",) for fe, truth, c in facts)
                g_failed = any(_is_status_of(fe, p) and truth == ("FAILED",) for fe, truth, c in facts) and \
                    any(fe is not None and fe[0] == "field" and fe[1] == "warning_partial_completion" and truth == ("None",) for fe, truth, c in facts)
                ok = g_none or g_failed
                rep.ob(rid, ok, fn, "failure only when final", where=where, how="after wait_payment == Ok(None)" if g_none else ("FAILED without partial-completion warning" if g_failed else ""),
                       detail="" if ok else "pay() reports failure at %s without having confirmed (wait_payment == Ok(None)) that no part is pending or complete, and not on `FAILED` without partial completion" % where)
            else:  # residual
                ok = e is not None and any(x[0] == "call" and x[1] == "std::ops::Try::branch" and x[2] and x[2][0][0] == "await" and x[2][0][1][0] == "call" and x[2][0][1][1] == "payment_provider::PaymentProvider::wait_payment" for x in walk(e))
                rep.ob(rid, ok, fn, "propagated error is wait_payment's", where=where, how="`?` on wait_payment",
                       detail="" if ok else "pay() propagates an error with `?` after the RPC was issued without consulting wait_payment: %s" % show(e)[:100])
        rep.anchor(rid, "exits after the pay RPC", n_after, 4, fn=fn)
        # every status arm is handled explicitly or conservatively: PENDING arm must reach a wait
        ps = ml.arms_of_place_switch(b, X, lambda e: _is_status_of(e, p))
        rep.anchor(rid, "match on PayResponse.status", 1 if ps else 0, fn=fn)
        if ps:
            for name, tg in ps[1].items():
                if name == "COMPLETE":
                    continue
                reach = b.reach([tg])
                own_wait = [w for w in W if w.bb in reach]
                if name == "PENDING":
                    ok = bool(own_wait) and not any(k == "Err" and s in b.reach([tg], removed_nodes={w.bb for w in W}) for k, e, s, wh in result_alternatives(b, X))
                    rep.ob(rid, ok, fn, "status PENDING waits for the parts", where=loc(b.term(tg)["sp"]), how="all exits of the arm pass wait_payment",
                           detail="" if ok else "status PENDING can be reported as a failure without waiting for the pending parts")
        # RPC error arm waits
        ar = ml.arms_of_result(b, X, p)
        if ar and ar[1].get("Err") is not None:
            tg = ar[1]["Err"]
            bad = [s for k, e, s, wh in result_alternatives(b, X) if s in b.reach([tg], removed_nodes={w.bb for w in W}) and k in ("Err", "Ok")]
            rep.ob(rid, not bad, fn, "RPC error waits before reporting", where=loc(b.term(tg)["sp"]), how="all exits of the Err arm pass wait_payment",
                   detail="" if not bad else "an error of the pay RPC is reported as failure without checking the node for pending/complete parts")


def _is_wait_some(a, W):
    x = a
    if x[0] == "field" and x[3] == "Some":
        x = x[4]
        return _is_wait_ok_payload(x, W)
    return False


def _is_wait_ok_payload(e, W):
    if e is None:
        return False
    for a in alts(e):
        x = a
        if x[0] == "try":
            x = x[1]
        elif x[0] == "field" and x[3] == "Ok":
            x = x[4]
        else:
            return False
        if not (x[0] == "await" and x[1][0] == "call" and x[1][1] == "payment_provider::PaymentProvider::wait_payment"):
            return False
    return True


def _roots_in_pay_response(a, p):
    return any(x[0] == "await" and x[1][0] == "call" and x[1][3][1] == p.bb for x in walk(a))


def _is_status_of(e, p):
    if e is None:
        return False
    return all(a[0] == "field" and a[1] == "status" and _roots_in_pay_response(a, p) for a in alts(e))


# ============================================================================ C03-R6 / C04-F
def _payrequest_aggs(F, b):
    """[(body, block, stmt)] constructing cln_rpc PayRequest in the pay body or in a same-file pure helper it calls"""
    import rules_ext
    out = []
    for hb in [b] + rules_ext._pure_callee_bodies(F, b):
        for bi in sorted(hb.reachable):
            for s in hb.blocks[bi]["s"]:
                if s["k"] == "assign" and s["rv"]["k"] == "agg" and s["rv"].get("adt", "").endswith("::PayRequest"):
                    out.append((hb, bi, s))
    return out


def r6_verbatim(C, rep, rid):
    rep.rule(rid, "every PayRequest forwards bolt11, amount, maxfee, maxdelay, retry_for verbatim; maxfeepercent / exemptfee / partial_msat stay unset (sibling branches agree)")
    F, X = C.F, C.X
    if not need_provider(C, rep, rid):
        return
    for m in provider_model(C):
        b = m.pay
        fn = m.pay_root
        aggs = _payrequest_aggs(F, b)
        rep.anchor(rid, "PayRequest constructions", len(aggs), 1, fn=fn)
        for hb, bi, s in aggs:
            d = {f: strip(X.operand(hb, o)) for f, o in zip(s["rv"]["fields"], s["rv"]["ops"])}
            if hb is not b:
                # built by a same-file helper (`fn pay_request(&self, req) -> Result<PayRequest>`): its parameters are the caller's arguments
                d = {f: strip(mm.expand_params(F, X, e, depth=2)) for f, e in d.items()}
            where = loc(s["sp"])

            def req_field(e, name):
                return e is not None and all(a[0] == "field" and a[1] == name and a[2] == "payment_provider::PaymentRequest" and a[4][0] == "param" for a in alts(e))

            def some_of(e):
                return e[3][0][1] if e is not None and e[0] == "agg" and e[2] == "Some" and e[3] else None

            def amount_of(e):
                return e[2][0] if e is not None and e[0] == "call" and e[1] == "cln_rpc::primitives::Amount::from_msat" and e[2] else None
            checks = [
                ("bolt11 <- req.bolt11", req_field(d.get("bolt11"), "bolt11")),
                ("maxfee <- Some(from_msat(req.max_fee_msat))", req_field(amount_of(some_of(d.get("maxfee"))), "max_fee_msat")),
                ("maxdelay <- Some(req.max_cltv_delta)", req_field(some_of(d.get("maxdelay")), "max_cltv_delta")),
                ("retry_for <- Some(self.retry_for)", (lambda e: e is not None and all(a[0] == "field" and a[2].split("<")[0] == m.self_adt and a[4][0] == "param" for a in alts(e)))(some_of(d.get("retry_for")))),
                ("amount_msat <- req.amount_msat.map(from_msat)", (lambda e: e is not None and e[0] == "call" and e[1] == "std::option::Option::map" and req_field(e[2][0], "amount_msat") and e[2][1] == ("fnitem", "cln_rpc::primitives::Amount::from_msat"))(d.get("amount_msat"))),
            ]
            for f in ("maxfeepercent", "exemptfee", "partial_msat"):
                e = d.get(f)
                checks.append(("%s unset" % f, e is not None and e[0] == "agg" and e[2] == "None"))
            for what, ok in checks:
                fld = what.split(" ")[0]
                rep.ob(rid, ok, fn, what, where=where, how=show(d.get(fld))[:70] if d.get(fld) else "", detail="" if ok else "PayRequest.%s is %s" % (fld, show(d.get(fld))[:100] if d.get(fld) else "?"))
        # the RPC gets that aggregate
        for p in [c for c in b.calls if c.is_trait_method("rpc::ClnRpc", "pay")]:
            e = strip(mm.inline_pure(F, X, strip(X.operand(b, p.args[1])), depth=1))
            ok = all((a[0] == "agg" and a[1].endswith("::PayRequest")) or (a[0] == "call" and a[1] == "std::ops::FromResidual::from_residual") for a in alts(e)) and any(a[0] == "agg" for a in alts(e))
            rep.ob(rid, ok, fn, "the pay RPC is given that request", where=p.loc, how="%d alternative(s)" % len(alts(e)), detail="" if ok else "pay RPC argument is %s" % show(e)[:80], nontrivial=False)


def c_retry_cap(C, rep, rid):
    rep.rule(rid, "retry_for = payment timeout in seconds, saturated at u16::MAX")
    F, X = C.F, C.X
    n = 0

    def secs(x):
        return x[0] == "call" and x[1] == "std::time::Duration::as_secs" and x[2][0][0] == "param"

    def max16(x):
        while x[0] == "cast":
            x = x[4]
        return (x[0] == "constdef" and x[1].endswith("<impl u16>::MAX")) or (x[0] == "const" and x[2] == 65535)
    for imp in provider_impls(F):
        st = canon(imp["self_ty"].split("<")[0])
        # the field the provider forwards as PayRequest.retry_for (found from the forwarding site, not by its name)
        fields = set()
        for m in provider_model(C):
            if m.self_adt != st:
                continue
            for hb, bi, s in _payrequest_aggs(F, m.pay):
                if "retry_for" in s["rv"]["fields"]:
                    e = strip(X.operand(hb, s["rv"]["ops"][s["rv"]["fields"].index("retry_for")]))
                    for y in walk(e):
                        if y[0] == "field" and y[2].split("<")[0] == st and y[4][0] == "param":
                            fields.add(y[1])
        for b, bi, s in F.aggregates(st):
            fl = [f for f in s["rv"]["fields"] if f in fields]
            if not fl:
                continue
            n += 1
            e = strip(X.operand(b, s["rv"]["ops"][s["rv"]["fields"].index(fl[0])]))
            ok = False
            for a in alts(e):
                # unwrap_or(u16::try_from / try_into(secs), u16::MAX)   or   min(secs, u16::MAX as u64) as u16
                ok = (a[0] == "call" and a[1] == "std::result::Result::unwrap_or" and len(a[2]) == 2 and
                      a[2][0][0] == "call" and a[2][0][1] in ("std::convert::TryInto::try_into", "std::convert::TryFrom::try_from") and
                      secs(a[2][0][2][0]) and max16(a[2][1])) or \
                     (a[0] == "cast" and a[3] == "u16" and a[4][0] == "call" and a[4][1] in ("std::cmp::Ord::min", "std::cmp::min") and len(a[4][2]) == 2 and
                      ((secs(a[4][2][0]) and max16(a[4][2][1])) or (secs(a[4][2][1]) and max16(a[4][2][0]))))
                if not ok:
                    break
            rep.ob(rid, ok, F.root_of(b), "retry_for = try_into(timeout.as_secs()).unwrap_or(u16::MAX)", where=loc(s["sp"]), how=show(e)[:90],
                   detail="" if ok else "retry_for is computed as %s" % show(e)[:120])
    rep.anchor(rid, "construction of the provider with retry_for", n, 1)


# ============================================================================ C15
def _listing_status(e):
    """status variant named in the listsendpays request(s) an expression depends on"""
    out = set()
    for x in walk(e):
        if x[0] == "agg" and x[1].endswith("ListsendpaysStatus"):
            out.add(x[2])
    return out


def v_wait_payment(C, rep, pfx):
    F, X = C.F, C.X
    if not need_provider(C, rep, pfx + "-V2"):
        return
    for m in provider_model(C):
        b = m.wait
        fn = m.wait_root
        LS = [c for c in b.calls if c.is_trait_method("rpc::ClnRpc", "listsendpays")]
        WS = [c for c in b.calls if c.is_trait_method("rpc::ClnRpc", "waitsendpay")]
        NX = [c for c in b.calls if c.name in ("futures::StreamExt::next", "tokio_stream::StreamExt::next")]
        reqs = {}
        for c in LS:
            e = strip(X.operand(b, c.args[1]))
            st = _listing_status(e)
            for s in st:
                reqs[s] = (c, e)
        # ---- V5
        rid = pfx + "-V5"
        rep.rule(rid, "both listings filter by the argument hash and nothing else; one PENDING and one COMPLETE query")
        ok = set(reqs) == {"PENDING", "COMPLETE"} and len(LS) == 2
        rep.ob(rid, ok, fn, "one PENDING and one COMPLETE listing", where=LS[0].loc if LS else "", how=str(sorted(reqs)), detail="" if ok else "listsendpays is queried with statuses %s (%d calls)" % (sorted(reqs), len(LS)))
        for st, (c, e) in reqs.items():
            for a in alts(e):
                if a[0] != "agg":
                    continue
                d = dict(a[3])
                okh = d.get("payment_hash") is not None and d["payment_hash"][0] == "agg" and d["payment_hash"][2] == "Some" and d["payment_hash"][3][0][1][0] == "param"
                rep.ob(rid, okh, fn, "%s listing filters by the argument hash" % st, where=c.loc, how=show(d.get("payment_hash"))[:50], detail="" if okh else "%s listing filters payment_hash by %s" % (st, show(d.get("payment_hash"))[:60]))
                for f in ("bolt11", "index", "start", "limit"):
                    v = d.get(f)
                    okn = v is not None and v[0] == "agg" and v[2] == "None"
                    rep.ob(rid, okn, fn, "%s listing: %s unset" % (st, f), where=c.loc, how="None", detail="" if okn else "%s listing restricts %s" % (st, f), nontrivial=False)
        if set(reqs) != {"PENDING", "COMPLETE"}:
            continue
        pc, pe = reqs["PENDING"]
        cc, ce = reqs["COMPLETE"]
        # ---- V4
        rid = pfx + "-V4"
        rep.rule(rid, "the COMPLETE listing is awaited only after the PENDING listing has returned")
        awp = lib.await_of_call(b, pc)
        awc = lib.await_of_call(b, cc)
        ok = awp is not None and awc is not None
        rep.ob(rid, ok, fn, "both listings are awaited individually", where=pc.loc, how=".await on each", detail="" if ok else "the two listsendpays futures are not awaited one after the other (joined/raced): a part that completes between their evaluations is seen by neither")
        if ok:
            o1 = awp["ready"] is not None and b.dominates(awp["ready"], awc["poll"].bb) and b.dominates(awp["ready"], cc.bb)
            rep.ob(rid, o1, fn, "PENDING listing completes before the COMPLETE query is issued", where=cc.loc, how="Ready edge of the PENDING await dominates the COMPLETE call",
                   detail="" if o1 else "the COMPLETE listing is issued/awaited before the PENDING listing returned: a part pending at the first query and complete before the second is reported as `none`")
        # ---- V10: a listing that failed says nothing
        rid = pfx + "-V10"
        rep.rule(rid, "a failed listsendpays makes wait_payment fail: its Err arm reaches no Ok exit (an empty list substituted for a failed COMPLETE listing hides a completed part)")
        okx = [(k, s_, w) for k, e, s_, w in result_alternatives(b, X) if k == "Ok"]
        rep.anchor(rid, "Ok exits of wait_payment", len(okx), 2, fn=fn)
        for k, s_, w in okx:
            facts = enum_facts(b, X, s_)
            for c in LS:
                good = False
                for fe, truth, _c in facts:
                    if fe is None or truth not in (("Ok",), ("Continue",)):
                        continue
                    if any(y[0] == "call" and y[3][1] == c.bb for a in alts(fe) for y in walk(a)) and all(any(y[0] == "call" and y[3][1] == c.bb for y in walk(a)) for a in alts(fe)):
                        good = True
                rep.ob(rid, good, fn, "Ok exit only after the listing succeeded", where=w, how="dominated by the Ok/Continue arm of listsendpays at %s" % c.loc,
                       detail="" if good else "wait_payment can return Ok at %s although the listing at %s failed: the failed listing is treated as an empty one (a completed part is not seen)" % (w, c.loc))
        # ---- V2
        rid = pfx + "-V2"
        rep.rule(rid, "Ok(None) only after the stream of waitsendpay futures - one per listed pending part - is exhausted")
        alts_ = result_alternatives(b, X)
        nones = [(k, e, s, w) for k, e, s, w in alts_ if k == "Ok" and e is not None and e[0] == "agg" and e[2] == "None"]
        rep.anchor(rid, "Ok(None) exit", len(nones), 1, fn=fn)
        rep.anchor(rid, "StreamExt::next on the wait set", len(NX), 1, fn=fn)
        if WS or not NX:
            rep.anchor(rid, "waitsendpay call", len(WS), 1, fn=fn)
        for k, e, s, w in nones:
            g = False
            for fe, truth, c in enum_facts(b, X, s):
                if fe is not None and truth == ("None",) and all(a[0] == "await" and a[1][0] == "call" and a[1][1].endswith("StreamExt::next") for a in alts(fe)):
                    g = True
            rep.ob(rid, g, fn, "Ok(None) dominated by `tasks.next() == None`", where=w, how="None edge of the stream", detail="" if g else "wait_payment can report `no payment` at %s before every pending part has been waited for" % w)
            # a preimage seen in the COMPLETE listing is never dropped: `no payment` is reported only where that listing
            # had none (the None edge of the lookup over the COMPLETE listing dominates the exit)
            g2 = False
            for fe, truth, c in enum_facts(b, X, s):
                if fe is not None and truth == ("None",) and "COMPLETE" in _listing_status(fe) and "PENDING" not in _listing_status(fe):
                    g2 = True
            rep.ob(rid, g2, fn, "Ok(None) only where the COMPLETE listing had no preimage", where=w, how="None edge of the lookup over the COMPLETE listing",
                   detail="" if g2 else "wait_payment can report `no payment` at %s although the COMPLETE listing showed a part with a preimage (the early return is conditional / the preimage is dropped when the pending parts then fail)" % w)
        if NX and WS:
            nx = NX[0]
            ws = WS[0]
            # the stream is the collection the waitsendpay futures are pushed into
            pushes = [c for c in b.calls if c.name.endswith("FuturesUnordered::push") or c.name.endswith("Vec::push") or c.name.endswith("JoinSet::spawn")]
            okp = False
            for p in pushes:
                col = strip(X.operand(b, p.args[0]))
                fut = strip(X.operand(b, p.args[1]))
                sx = strip(X.operand(b, nx.args[0]))
                if show(col) == show(sx) and any(x[0] == "call" and x[3][1] == ws.bb for x in walk(fut)):
                    okp = True
                    push = p
            rep.ob(rid, okp, fn, "the waited stream is the set the waitsendpay futures were pushed into", where=nx.loc, how="same collection", detail="" if okp else "the stream that is drained is not the set of waitsendpay futures")
            # loop over ALL pending parts: iterator over the PENDING listing's payments without adaptors
            its = [c for c in b.calls if c.name == "std::iter::Iterator::next" and ws.bb in b.reach_after([c.bb])]
            its = [c for c in its if "PENDING" in _listing_status(strip(X.operand(b, c.args[0])))]
            rep.anchor(rid, "loop over the PENDING listing", len(its), 1, fn=fn)
            for it in its:
                e = strip(X.operand(b, it.args[0]))
                adapt = [x[1] for x in walk(e) if x[0] == "call" and x[1].startswith("std::iter::Iterator::") and x[1].split("::")[-1] in ("filter", "take", "skip", "step_by", "take_while", "skip_while", "filter_map", "rev", "nth")]
                okf = not adapt and any(x[0] == "field" and x[1] == "payments" for x in walk(e))
                rep.ob(rid, okf, fn, "every listed pending part is visited", where=it.loc, how=show(e)[:80], detail="" if okf else "pending parts are iterated through %s: some parts are not waited for" % (adapt or show(e)[:80]))
                some = lib.enum_arm_target(b, it.target, "Some") if it.target is not None else None
                if some is not None and okp:
                    skip = it.bb in b.reach([some], removed_nodes=[push.bb])
                    rets = [r for r in b.returns() if r in b.reach([some], removed_nodes=[it.bb, nx.bb])]
                    if nx.bb in b.reach([some], removed_nodes=[it.bb]):
                        rets.append(nx.bb)   # `break`: leaves the loop without visiting the remaining parts
                    rep.ob(rid, not skip and not rets, fn, "every visited part is pushed; the loop has no early exit", where=push.loc, how="push on every path of the loop body",
                           detail="" if not skip and not rets else "a pending part can be skipped (continue/break in the loop over pending parts)")
            # request fields
            we = strip(X.operand(b, ws.args[1]))
            for a in alts(we):
                if a[0] == "agg" and a[1].endswith("WaitsendpayRequest"):
                    d = dict(a[3])
                    okh = d.get("payment_hash") is not None and d["payment_hash"][0] == "param"
                    okg = d.get("groupid") is not None and any(x[0] == "field" and x[1] == "groupid" for x in walk(d["groupid"])) and "PENDING" in _listing_status(d["groupid"])
                    okpa = d.get("partid") is not None and any(x[0] == "field" and x[1] == "partid" for x in walk(d["partid"])) and "PENDING" in _listing_status(d["partid"])
                    rep.ob(rid, okh and okg and okpa, fn, "waitsendpay names the listed part (hash, groupid, partid)", where=ws.loc, how="from the PENDING element",
                           detail="" if okh and okg and okpa else "waitsendpay request is %s" % show(a)[:140])
                    to = d.get("timeout")
                    okt = to is not None and to[0] == "agg" and to[2] == "None"
                    rep.ob(rid, okt, fn, "waitsendpay has no timeout", where=ws.loc, how="None", detail="" if okt else "waitsendpay is given a timeout: it can return before the part resolved", nontrivial=False)
        if NX and not WS:
            # the futures are made by an iterator chain: `parts.into_iter().map(|p| rpc.waitsendpay(..)).collect()`
            nx = NX[0]
            sx = strip(X.operand(b, nx.args[0]))
            found = None
            for x in walk(sx):
                if x[0] == "call" and x[1] == "std::iter::Iterator::collect" and x[2] and x[2][0][0] == "call" and x[2][0][1] == "std::iter::Iterator::map" and len(x[2][0][2]) == 2:
                    it, cl = x[2][0][2]
                    for y in alts(cl):
                        if y[0] == "agg" and y[1].startswith("closure:"):
                            cb = F.by_cdef.get(y[1][len("closure:"):])
                            if cb is not None:
                                ws2 = [c for c in cb.calls if c.is_trait_method("rpc::ClnRpc", "waitsendpay")]
                                if ws2:
                                    found = (it, cb, ws2[0])
            rep.anchor(rid, "waitsendpay call", 1 if found else 0, fn=fn)
            if found:
                it, cb, ws = found
                adapt = [x[1] for x in walk(it) if x[0] == "call" and x[1].startswith("std::iter::Iterator::") and x[1].split("::")[-1] in ("filter", "take", "skip", "step_by", "take_while", "skip_while", "filter_map", "rev", "nth")]
                okf = not adapt and any(x[0] == "field" and x[1] == "payments" for x in walk(it)) and "PENDING" in _listing_status(it)
                rep.ob(rid, okf, fn, "every listed pending part is visited", where=nx.loc, how=show(it)[:80], detail="" if okf else "pending parts are iterated through %s: some parts are not waited for" % (adapt or show(it)[:80]))
                rets = [r for r in cb.returns()]
                okr = all(cb.dominates(ws.bb, r) for r in rets) and all(any(z[0] == "call" and z[3][1] == ws.bb for z in walk(a0)) for a0 in alts(strip(X.local(cb, 0))))
                rep.ob(rid, okr, fn, "every visited part yields its waitsendpay future", where=ws.loc, how="the closure returns the waitsendpay call on every path",
                       detail="" if okr else "the mapping closure does not return a waitsendpay future for every part")
                we = strip(X.operand(cb, ws.args[1]))
                for a in alts(we):
                    if a[0] == "agg" and a[1].endswith("WaitsendpayRequest"):
                        d = dict(a[3])

                    def from_elem(e, fld):
                        return e is not None and any(z[0] == "field" and z[1] == fld and any(w[0] == "param" and w[1] == cb.cdef and w[2] == 2 for w in walk(z)) for z in walk(e))
                    if a[0] == "agg" and a[1].endswith("WaitsendpayRequest"):
                        okh = d.get("payment_hash") is not None and all(z[0] in ("param", "upvar") or (z[0] == "field") for z in alts(d["payment_hash"])) and any(w[0] == "param" for w in walk(d["payment_hash"]))
                        okg = from_elem(d.get("groupid"), "groupid")
                        okpa = from_elem(d.get("partid"), "partid")
                        rep.ob(rid, okh and okg and okpa, fn, "waitsendpay names the listed part (hash, groupid, partid)", where=ws.loc, how="from the iterated element",
                               detail="" if okh and okg and okpa else "waitsendpay request is %s" % show(a)[:140])
                        to = d.get("timeout")
                        okt = to is not None and to[0] == "agg" and to[2] == "None"
                        rep.ob(rid, okt, fn, "waitsendpay has no timeout", where=ws.loc, how="None", detail="" if okt else "waitsendpay is given a timeout: it can return before the part resolved", nontrivial=False)
        # ---- V3
        rid = pfx + "-V3"
        rep.rule(rid, "per-part error codes 202/203/204/208/209 continue the wait; every other error returns Err; no error maps to Ok(None)")
        isw = None
        for bb in sorted(b.reachable):
            c = lib.decode_switch(b, bb)
            if c is not None and c.kind == "int" and c.place is not None:
                e = strip(X.place(b, c.place))
                if any(x[0] == "field" and x[1] == "code" for x in walk(e)):
                    isw = (bb, c, e)
        ext = None
        if isw is None and NX:
            # the code table was moved into a classifier (`e.into_failed_part()?`: Ok(()) = a failed part, Err = give up)
            ext = _external_code_table(F, X, b, NX[0])
        rep.anchor(rid, "switch on the RPC error code", 1 if (isw or ext) else 0, fn=fn)
        if ext and NX:
            call, hb, cont, oth, mixed, brk_reaches_loop, okunder = ext
            ok = cont == {202, 203, 204, 208, 209} and not mixed
            rep.ob(rid, ok, fn, "tolerated code set", where=call.loc, how=str(sorted(cont)), detail="" if ok else "waitsendpay error codes %s continue the wait (expected 202,203,204,208,209)%s" % (sorted(cont), " - codes %s both continue and fail" % sorted(mixed) if mixed else ""))
            rep.ob(rid, not oth, fn, "unknown codes abort with an error", where=call.loc, how="default arm of %s returns Err" % hb.cdef.split("::")[-1], detail="" if not oth else "unknown error codes are tolerated")
            rep.ob(rid, not brk_reaches_loop, fn, "only tolerated part-level codes continue the wait", where=call.loc, how="the classifier's Err leaves the wait loop",
                   detail="" if not brk_reaches_loop else "the classifier's error verdict does not end the wait: an error other than the tolerated part-level codes is swallowed")
            rep.ob(rid, not okunder, fn, "an error never turns into a result", where=okunder[0] if okunder else call.loc, how="no Ok(..) under the classifier's Err", detail="" if not okunder else "a waitsendpay error is mapped to Ok at %s" % okunder[0])
        if isw and NX:
            bb, c, e = isw
            nx = NX[0]
            t = b.term(bb)
            cont = set()
            for v, tg in t["arms"]:
                code = int(v)
                if code >= 2**31:
                    code -= 2**32
                if nx.bb in b.reach([tg]):
                    cont.add(code)
            ok = cont == {202, 203, 204, 208, 209}
            rep.ob(rid, ok, fn, "tolerated code set", where=loc(t["sp"]), how=str(sorted(cont)), detail="" if ok else "waitsendpay error codes %s continue the wait (expected 202,203,204,208,209)" % sorted(cont))
            tol_targets = [tg for v, tg in t["arms"] if nx.bb in b.reach([tg])]
            oth = nx.bb in b.reach([t["otherwise"]])
            rep.ob(rid, not oth, fn, "unknown codes abort with an error", where=loc(t["sp"]), how="default arm does not continue", detail="" if not oth else "unknown error codes are tolerated")
            # the Err arm of the per-part result: no Ok(None)/Ok(Some) produced under it
            sw_res = ml.arms_of_place_switch(b, X, lambda ee: all(a[0] == "field" and a[3] == "Some" and a[4][0] == "await" and a[4][1][0] == "call" and a[4][1][1].endswith("StreamExt::next") for a in alts(ee)))
            if sw_res and sw_res[1].get("Err") is not None:
                errt = sw_res[1]["Err"]
                r = b.reach([errt], removed_nodes=[nx.bb])
                # the only way back into the wait loop from the Err arm is through the tolerated-code arms
                back = nx.bb in b.reach([errt], removed_nodes=tol_targets)
                rep.ob(rid, not back, fn, "only tolerated part-level codes continue the wait", where=loc(b.term(errt)["sp"]), how="loop unreachable from the Err arm once the tolerated-code arms are removed",
                       detail="" if not back else "an error other than the tolerated part-level codes (e.g. a transport error or an error without code) is swallowed and the wait continues or ends as if the part had failed")
                bad = [(k, w) for k, ee, s, w in result_alternatives(b, X) if s in r and k == "Ok"]
                rep.ob(rid, not bad, fn, "an error never turns into a result", where=bad[0][1] if bad else loc(b.term(errt)["sp"]), how="no Ok(..) under the Err arm", detail="" if not bad else "a waitsendpay error is mapped to Ok at %s" % bad[0][1])
                # code None / General
                exits = [(k, s) for k, ee, s, w in result_alternatives(b, X) if s in r]
                rep.ob(rid, all(k in ("Err", "residual") for k, s in exits) and len(exits) >= 1, fn, "all non-tolerated error exits are Err", where=loc(b.term(errt)["sp"]), how="%d Err exits" % len(exits),
                       detail="" if all(k in ("Err", "residual") for k, s in exits) and len(exits) >= 1 else "error exits under the Err arm: %s" % [k for k, s in exits])
        # ---- V6
        rid = pfx + "-V6"
        rep.rule(rid, "the wait for the outgoing parts is not bounded by a plugin-side clock: no tokio::time primitive (timeout, sleep, interval) in wait_payment or in the ClnRpc implementation's listsendpays / waitsendpay path - a part that stays pending longer than any such bound would be reported as `nothing pending`/error while it can still complete")
        roots = [(m.wait_root, "wait_payment")]
        for k in sorted(F.fns):
            mt = re.match(r"^<(.+) as rpc::ClnRpc>::(listsendpays|waitsendpay)$", k)
            if mt and not _is_test_ty(F, mt.group(1)):
                roots.append((k, "%s::%s" % (mt.group(1).split("::")[-1], mt.group(2))))
        rep.anchor(rid, "ClnRpc implementations of listsendpays/waitsendpay + wait_payment", len(roots), 3)
        seen = set()
        stack = [(r, lbl, [lbl]) for r, lbl in roots]
        ncalls = 0
        while stack:
            root, lbl, path = stack.pop()
            if root in seen:
                continue
            seen.add(root)
            for g in F.group(root):
                for c in g.calls:
                    if c.noise:
                        continue
                    ncalls += 1
                    if re.match(r"^tokio::time::(timeout|timeout_at|sleep|sleep_until|interval|interval_at)$", c.name) or c.name.startswith("tokio::time::Timeout") or c.name.startswith("tokio::time::Sleep") or c.name.startswith("tokio::time::Interval"):
                        rep.ob(rid, False, F.root_of(g), "no clock on the wait path", where=c.loc,
                               detail="%s is used on the path %s: a part still pending when it fires is abandoned (wait_payment then reports an error or `no payment` although the part can complete)" % (c.name, " -> ".join(path)))
                    callee = c.resolved or c.name
                    if (callee in F.fns or F.group(callee)) and callee not in seen and len(path) < 8:
                        stack.append((callee, lbl, path + [callee.split("::")[-1]]))
        rep.ob(rid, True, fn, "calls examined on the wait path", where="", how="%d calls in %d functions" % (ncalls, len(seen)), nontrivial=False)
        # ---- V7: the codes V3 dispatches on arrive as codes
        e_rpc_error_kept(C, rep, pfx + "-V7")
        # ---- V8: the listings (and every other RPC) show the node's current state
        g_getinfo_is_fresh(C, rep, pfx + "-V8")
        # ---- V9: one request per call
        o_one_request_per_call(C, rep, pfx + "-V9")
        # ---- V1
        rid = pfx + "-V1"
        rep.rule(rid, "a returned preimage is the payment_preimage of a COMPLETE-listed part or of a successful waitsendpay")
        somes = [(k, e, s, w) for k, e, s, w in result_alternatives(b, X) if k == "Ok" and e is not None and e[0] == "agg" and e[2] == "Some"]
        rep.anchor(rid, "Ok(Some(preimage)) exits", len(somes), 2, fn=fn)
        for k, e, s, w in somes:
            x = e[3][0][1]
            for a in alts(x):
                hasp = any(y[0] == "field" and y[1] == "payment_preimage" for y in walk(a)) or any(y[0] == "agg" and y[1].startswith("closure:") for y in walk(a))
                from_complete = "COMPLETE" in _listing_status(a) and "PENDING" not in _listing_status(a)
                from_wait = any(y[0] == "await" and y[1][0] == "call" and y[1][1].endswith("StreamExt::next") for y in walk(a)) and any(y[0] == "field" and y[3] == "Ok" for y in walk(a))
                ok = (from_complete or from_wait) and (hasp or from_complete)
                rep.ob(rid, ok, fn, "preimage provenance", where=w, how="COMPLETE listing" if from_complete else ("waitsendpay Ok" if from_wait else ""),
                       detail="" if ok else "wait_payment returns %s as preimage" % show(a)[:140])
        # the COMPLETE listing's extraction closure returns p.payment_preimage
        for g in F.group(m.wait_root):
            if g is b or g.coroutine:
                continue
            r = strip(X.local(g, 0))
            if any(y[0] == "field" and y[1] == "payment_preimage" for y in walk(r)):
                ok = all(a[0] == "field" and a[1] == "payment_preimage" for a in alts(r))
                rep.ob(rid, ok, fn, "COMPLETE listing yields payment_preimage", where=loc(g.span), how=show(r)[:60], detail="" if ok else "closure returns %s" % show(r)[:80], nontrivial=False)
