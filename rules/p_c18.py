"""C18 - TLV codec is total and lossless (DESIGN 5/C18)."""
import re
from mir import Call, canon, loc, strip, walk, alts, show
import lib
import model_msgs as mm
import panics
from lib import Intervals, INT_RANGES

EXPLANATION = (
    "Decides the structural clauses of C18 on the MIR of every body in src/tlv.rs: (P) totality - every "
    "panic-capable site (partial bytes::Buf reads, slice indexing, unchecked arithmetic, unwrap/expect, explicit "
    "panics) is discharged by a dominating remaining()/length guard on the same receiver, an interval proof, or a named "
    "exception; (T1) the BigSize reader's marker->width table read from its switch on the first byte equals the "
    "writer's value-range->(marker,width) table obtained by path-sensitive interval enumeration over the writer's "
    "comparison DAG, the ranges partition u64 contiguously and each is the minimal encoding; big-endian primitives on "
    "both sides; (L1) the stream decoder pushes exactly one (typ,value) per loop iteration, typ/len/value read in "
    "that order from one receiver, value = exactly len bytes, no other mutation of the record vector; the encoder "
    "iterates the record vector front to back without adaptors and writes typ,len,value in that order; (L2) the "
    "length-prefixed and hex entry points delegate to the decoder and map failure to Err; (U) tu64: 0 bytes -> 0, "
    ">8 -> Err, else right-aligned big-endian. Round-trip equality itself is not enumerated; it follows from "
    "T1+L1 and the bytes crate's primitives."
)
ASSUMPTIONS = [
    "bytes::Buf/BufMut primitives behave as documented (get_uN panics iff remaining() < N; put_uN is big-endian)",
    "chunk() of Bytes, &[u8] and Take<Bytes> is the whole remaining window (named exception for get_tu64's copy_from_slice)",
    "interval analysis is non-relational; guards must be on the same receiver with no consuming call in between",
]


def tlv_bodies(F):
    return [b for b in F.code_bodies() if b.span.get("f", "").endswith("src/tlv.rs")]


def run(F, X, rep):
    bodies = tlv_bodies(F)
    rep.anchor("C18-P", "bodies in src/tlv.rs", len(bodies), 6)
    c18_p(F, X, rep, bodies)
    c18_t1(F, X, rep, bodies)
    c18_l1(F, X, rep, bodies)
    c18_l2(F, X, rep, bodies)
    c18_u(F, X, rep, bodies)
    c18_e(F, X, rep, bodies)
    import rules_lc as R
    import rules_hh as H
    H.g1_lookup_by_type(R.Ctx.get(F, X), rep, "C18-G")


# ---------------------------------------------------------------------------- P
def c18_e(F, X, rep, bodies, rid="C18-E"):
    rep.rule(rid, "the decoders reject only truncated / over-long input: every error a function of src/tlv.rs originates is raised under a comparison on the number of remaining bytes, or passes on the error of an inner decoder - never under a test on decoded content (a well-formed stream would not be decoded)")
    n = 0
    for b in bodies:
        for bi in sorted(b.reachable):
            for s in b.blocks[bi]["s"]:
                if not (s["k"] == "assign" and s["rv"]["k"] == "agg" and s["rv"].get("variant") == "Err" and canon(s["rv"].get("adt") or "").endswith("Result")):
                    continue
                if s.get("inl"):
                    continue                # rebuilt by an expanded combinator: the original error is judged where it is made
                n += 1
                conds = lib.dominating_conditions(b, bi)
                best = None
                for c, t in conds:
                    d = len(b.dom.get(c.bb, ()))
                    if best is None or d > best[0]:
                        best = (d, c, t)
                ok, how = False, "no condition"
                if best is not None:
                    c, t = best[1], best[2]
                    if c.kind == "cmp":
                        es = [strip(X.operand(b, c.a)), strip(X.operand(b, c.b))]
                        if any(y[0] == "call" and y[1].split("::")[-1] in ("remaining", "len") for e in es for y in walk(e)):
                            ok, how = True, "remaining() %s .." % c.op
                        else:
                            how = "%s %s %s" % (show(es[0])[:40], c.op, show(es[1])[:30])
                    elif c.kind == "enum" and isinstance(t, tuple) and set(t) <= {"Err", "None", "Break"}:
                        ok, how = True, "error of an inner decoder passed on"
                    elif c.kind == "call" and c.call.mname in ("has_remaining", "is_empty"):
                        ok, how = True, c.call.mname
                    elif c.kind == "int" and c.place is not None and any(y[0] == "call" and y[1].split("::")[-1] in ("remaining", "len") for y in walk(strip(X.place(b, c.place)))):
                        ok, how = True, "match on remaining()"
                    else:
                        how = "%s %s" % (c.kind, t)
                rep.ob(rid, ok, F.root_of(b), "error raised only for truncated input", where=loc(s["sp"]), how=how,
                       detail="" if ok else "%s rejects its input under `%s`: a test on decoded content, not on the bytes that are left - some well-formed encodings are refused" % (F.root_of(b).split("::")[-1], how))
    rep.anchor(rid, "error-originating sites in src/tlv.rs", n, 4)


def c18_p(F, X, rep, bodies):
    rep.rule("C18-P", "totality: every panic-capable site in src/tlv.rs is discharged")
    sites = panics.enumerate_sites(F, bodies)
    D = panics.Discharger(F, X)
    reads = [s for s in sites if s.kind == "bufread"]
    rep.anchor("C18-P", "partial bytes::Buf reads in src/tlv.rs", len(reads), 4)
    for s in sites:
        ok, how = D.discharge(s)
        rep.ob("C18-P", ok, s.root, s.what, where=s.where, how=how if ok else "", detail="" if ok else how)
    # a decoder entry point that is not fallible cannot report truncated input: every fn in tlv.rs that
    # performs partial reads must return Result/Option
    for b in bodies:
        if any(s.body is b and s.kind == "bufread" for s in sites):
            ok = b.ret_ty.startswith("std::result::Result<") or b.ret_ty.startswith("std::option::Option<")
            rep.ob("C18-P", ok, F.root_of(b), "fallible-reader", where=loc(b.span),
                   how="returns %s" % b.ret_ty[:60], detail="" if ok else "function reads input bytes with partial getters but cannot report failure (returns %s)" % b.ret_ty)


# ---------------------------------------------------------------------------- T1
def reader_table(F, bodies):
    """marker -> width (bytes read after the marker) from the switch on the first byte"""
    for b in bodies:
        for c in b.calls:
            if c.fn.get("trait") and canon(c.fn["trait"]) == "bytes::Buf" and c.mname == "get_u8" and c.target is not None:
                # the block after the call (or further) switches on the result
                sw = c.target
                for _ in range(4):
                    t = b.term(sw)
                    if t["k"] == "switch":
                        break
                    if len(b.succ[sw]) == 1:
                        sw = b.succ[sw][0]
                    else:
                        break
                t = b.term(sw)
                if t["k"] != "switch" or not t["arms"]:
                    continue
                cond = lib.decode_switch(b, sw)
                if cond is None or cond.kind != "int":
                    continue
                if lib.operand_key(b, {"k": "copy", "pl": cond.place}) != lib.operand_key(b, {"k": "copy", "pl": c.dest}):
                    continue
                table = {}
                sites = {}
                recv = panics.recv_root(b, c.args[0])
                for v, tg in t["arms"] + [["otherwise", t["otherwise"]]]:
                    # reads reachable from the arm before returning (arms do not merge before reading)
                    others = [tg2 for v2, tg2 in t["arms"] + [["otherwise", t["otherwise"]]] if tg2 != tg]
                    reach = b.reach([tg])
                    rd = []
                    for cc in b.calls:
                        if cc.bb in reach and cc.fn.get("trait") and canon(cc.fn["trait"]) == "bytes::Buf" and cc.mname in panics.BUF_READS \
                                and panics.recv_root(b, cc.args[0]) == recv:
                            # exclude reads that belong to other arms: reachable from them too
                            if all(cc.bb not in b.reach([o]) for o in others):
                                rd.append(cc)
                    table[v] = [cc.mname for cc in rd]
                    sites[v] = rd
                if not any(table.values()):
                    # the reads sit under a *later* match on the same marker byte (first match only picks the width):
                    # take the arms of the last switch on that operand
                    key0 = lib.operand_key(b, {"k": "copy", "pl": c.dest})
                    later = [w for w in sorted(b.reachable) if w != sw and b.term(w)["k"] == "switch" and w in b.reach([sw])]
                    for w in reversed(later):
                        cw = lib.decode_switch(b, w)
                        if cw is None or cw.kind != "int" or cw.place is None or lib.operand_key(b, {"k": "copy", "pl": cw.place}) != key0:
                            continue
                        t2 = b.term(w)
                        table, sites = {}, {}
                        for v, tg in t2["arms"] + [["otherwise", t2["otherwise"]]]:
                            others = [tg2 for v2, tg2 in t2["arms"] + [["otherwise", t2["otherwise"]]] if tg2 != tg]
                            reach = b.reach([tg])
                            rd = [cc for cc in b.calls if cc.bb in reach and cc.fn.get("trait") and canon(cc.fn["trait"]) == "bytes::Buf" and cc.mname in panics.BUF_READS
                                  and panics.recv_root(b, cc.args[0]) == recv and all(cc.bb not in b.reach([o]) for o in others)]
                            table[v] = [cc.mname for cc in rd]
                            sites[v] = rd
                        break
                return b, c, table, sites
    return None


def writer_table(F, bodies):
    """list of (interval, marker|None, [put method names after the marker])"""
    for b in bodies:
        puts = [c for c in b.calls if c.fn.get("trait") and canon(c.fn["trait"]) == "bytes::BufMut" and re.match(r"put_u(8|16|32|64)(_le)?$", c.mname or "")]
        if len({c.mname for c in puts}) < 3:
            continue
        if b.arg_count < 2:
            continue
        # the encoded value: the integer parameter
        val = None
        for i in range(1, b.arg_count + 1):
            if b.local_ty(i) in INT_RANGES:
                val = i
        if val is None:
            continue
        vo = {"k": "copy", "pl": {"l": val, "p": []}}
        # first put on each path
        first = set()
        pb = {c.bb for c in puts}
        for c in puts:
            if c.bb in b.reach([0], removed_nodes=pb - {c.bb}):
                first.add(c.bb)
        r = lib.path_intervals(b, vo, first)
        if r is None:
            return b, None, "path limit exceeded"
        res, dead = r
        rows = []
        for bb, ivs in res.items():
            m = lib.merge_intervals(ivs)
            c0 = [c for c in puts if c.bb == bb][0]
            arg = c0.args[1]
            ro = lib.root_operand(b, arg)
            marker = None
            seq = []
            if ro["k"] == "const" and "int" in ro:
                marker = int(ro["int"])
                seq = [c.mname for c in lib.next_calls(b, c0.target, lambda c: c in puts or (c.fn.get("trait") and canon(c.fn["trait"]) == "bytes::BufMut" and (c.mname or "").startswith("put")))]
                valargs = lib.next_calls(b, c0.target, lambda c: c.fn.get("trait") and canon(c.fn["trait"]) == "bytes::BufMut" and (c.mname or "").startswith("put"))
            else:
                valargs = [c0]
                seq = []
            rows.append({"bb": bb, "ranges": m, "marker": marker, "after": seq, "first": c0, "valcalls": valargs})
        return b, rows, dead
    return None


WIDTH_OF = {"get_u8": 1, "get_u16": 2, "get_u32": 4, "get_u64": 8, "put_u8": 1, "put_u16": 2, "put_u32": 4, "put_u64": 8}


def c18_t1(F, X, rep, bodies):
    rep.rule("C18-T1", "BigSize reader and writer tables agree; ranges partition u64 contiguously with minimal encodings; big-endian")
    rd = reader_table(F, bodies)
    wr = writer_table(F, bodies)
    rep.anchor("C18-T1", "BigSize reader (switch on the first byte read by Buf::get_u8)", 1 if rd else 0)
    rep.anchor("C18-T1", "BigSize writer (BufMut::put_u8/u16/u32/u64 on an integer parameter)", 1 if wr and wr[1] else 0)
    if not rd or not wr or not wr[1]:
        return
    rb, rcall, rtable, rsites = rd
    wb, rows, dead = wr
    rfn, wfn = F.root_of(rb), F.root_of(wb)
    # reader map marker->width
    rmap = {}
    ok_be = True
    for v, reads in rtable.items():
        if v == "otherwise":
            ok = reads == []
            rep.ob("C18-T1", ok, rfn, "reader: first byte below the markers is the value itself", where=rcall.loc,
                   how="no further read on the default arm", detail="" if ok else "default arm reads %s" % reads)
            continue
        ok = len(reads) == 1 and reads[0] in WIDTH_OF
        rep.ob("C18-T1", ok, rfn, "reader: marker %s reads one big-endian integer" % v, where=rcall.loc,
               how="reads %s" % reads, detail="" if ok else "marker %s arm reads %s" % (v, reads))
        if ok:
            rmap[int(v)] = WIDTH_OF[reads[0]]
    # conversions on the reader arms must be widening only (Into::into), checked by return type chain: the value
    # returned is the read integer: no arithmetic on it
    e = strip(X.local(rb, 0))
    bad = [x for x in walk(e) if x[0] in ("bin", "un") or (x[0] == "cast" and x[1].startswith("IntToInt") and _narrow(x))]
    rep.ob("C18-T1", not bad, rfn, "reader: value is the integer read, only widened", where=loc(rb.span),
           how="return value expression has no arithmetic / narrowing", detail="" if not bad else "reader transforms the value: %s" % show(bad[0])[:120])
    # writer rows
    rows = sorted(rows, key=lambda r: r["ranges"][0][0] if r["ranges"] else -1)
    ok = all(len(r["ranges"]) == 1 for r in rows)
    rep.ob("C18-T1", ok, wfn, "writer: each arm covers one contiguous value range", where=loc(wb.span),
           how="; ".join("%s->marker %s" % (panics.fmt(r["ranges"][0]) if r["ranges"] else "-", r["marker"]) for r in rows),
           detail="" if ok else "an arm of the writer covers a non-contiguous set of values")
    ok = not dead
    rep.ob("C18-T1", ok, wfn, "writer: every value is written", where=loc(wb.span), how="no feasible path ends without a put",
           detail="" if ok else "values %s reach the end of the writer without being encoded" % (dead[:2],))
    if not all(len(r["ranges"]) == 1 for r in rows):
        return
    # partition of u64
    cur = 0
    part_ok = True
    for r in rows:
        lo, hi = r["ranges"][0]
        if lo != cur:
            part_ok = False
        cur = hi + 1
    if cur != 2**64:
        part_ok = False
    rep.ob("C18-T1", part_ok, wfn, "writer: ranges partition [0, 2^64-1] contiguously", where=loc(wb.span),
           how="%d ranges" % len(rows), detail="" if part_ok else "writer ranges do not partition u64: %s" % [r["ranges"] for r in rows])
    prev_hi = -1
    for r in rows:
        lo, hi = r["ranges"][0]
        where = r["first"].loc
        if r["marker"] is None:
            # direct single byte: must stay below the smallest marker and fit u8
            smallest = min(rmap) if rmap else 253
            ok = hi < smallest and r["first"].mname == "put_u8"
            rep.ob("C18-T1", ok, wfn, "writer: direct byte range stays below the smallest marker", where=where,
                   how="%s < %d" % (panics.fmt((lo, hi)), smallest),
                   detail="" if ok else "values %s are written as a bare byte but the reader treats bytes >= %d as markers" % (panics.fmt((lo, hi)), smallest))
            prev_hi = hi
            continue
        seq = r["after"]
        ok_seq = len(seq) == 1 and seq[0] in WIDTH_OF
        w = WIDTH_OF.get(seq[0], None) if seq else None
        rep.ob("C18-T1", ok_seq, wfn, "writer: marker %d followed by one big-endian integer" % r["marker"], where=where,
               how="then %s" % seq, detail="" if ok_seq else "marker %d followed by %s" % (r["marker"], seq))
        if not ok_seq:
            continue
        # agreement with the reader
        ok = rmap.get(r["marker"]) == w
        rep.ob("C18-T1", ok, wfn, "writer/reader agree on marker %d" % r["marker"], where=where,
               how="width %d on both sides" % w,
               detail="" if ok else "writer emits marker %d + %d bytes but the reader reads %s bytes for that marker" % (r["marker"], w, rmap.get(r["marker"])))
        # value fits the width and is minimal
        fits_ = hi <= 2 ** (8 * w) - 1
        rep.ob("C18-T1", fits_, wfn, "writer: range of marker %d fits %d bytes" % (r["marker"], w), where=where,
               how="%s <= 2^%d-1" % (panics.fmt((lo, hi)), 8 * w),
               detail="" if fits_ else "values up to %d are truncated to %d bytes" % (hi, w))
        minimal = lo == prev_hi + 1 and (hi == 2 ** (8 * w) - 1)
        rep.ob("C18-T1", minimal, wfn, "writer: marker %d range is the minimal-encoding range of its width" % r["marker"], where=where,
               how="[%s] = (max of smaller width)+1 .. 2^%d-1" % (panics.fmt((lo, hi)), 8 * w),
               detail="" if minimal else "range %s of marker %d is not the canonical BigSize range for %d bytes" % (panics.fmt((lo, hi)), r["marker"], w))
        prev_hi = hi
        # the integer written is the value (narrowing cast of it), not something else
        vc = r["valcalls"][0] if r["valcalls"] else None
        if vc is not None:
            ev = strip(X.operand(wb, vc.args[1]))
            leaf = [x for x in walk(ev) if x[0] == "param"]
            arith = [x for x in walk(ev) if x[0] in ("bin", "un")]
            ok = bool(leaf) and not arith
            rep.ob("C18-T1", ok, wfn, "writer: bytes after marker %d are the value itself" % r["marker"], where=vc.loc,
                   how=show(ev)[:80], detail="" if ok else "writer emits %s instead of the value" % show(ev)[:100])
    # every reader marker has a writer row
    wm = {r["marker"] for r in rows if r["marker"] is not None}
    ok = set(rmap) == wm
    rep.ob("C18-T1", ok, rfn, "reader markers = writer markers", where=rcall.loc, how="%s" % sorted(wm),
           detail="" if ok else "reader markers %s but writer markers %s" % (sorted(rmap), sorted(wm)))
    # endianness: no *_le primitive anywhere in tlv.rs
    le = [c for b in bodies for c in b.calls if (c.mname or "").endswith("_le") and c.fn.get("trait") and canon(c.fn["trait"]) in ("bytes::Buf", "bytes::BufMut")]
    rep.ob("C18-T1", not le, "src/tlv.rs", "big-endian primitives only", how="no *_le call",
           where=le[0].loc if le else "", detail="" if not le else "little-endian primitive %s used" % le[0].mname)


def _narrow(x):
    fr, to = x[2], x[3]
    if fr in INT_RANGES and to in INT_RANGES:
        return not (INT_RANGES[to][0] <= INT_RANGES[fr][0] and INT_RANGES[fr][1] <= INT_RANGES[to][1])
    return False


# ---------------------------------------------------------------------------- L1
VEC_MUTATORS = {"insert", "remove", "swap_remove", "sort", "sort_by", "sort_by_key", "sort_unstable", "reverse", "dedup",
                "dedup_by_key", "retain", "truncate", "pop", "clear", "drain", "swap", "rotate_left", "rotate_right",
                "extend", "append", "split_off", "resize", "extend_from_slice", "sort_unstable_by", "sort_unstable_by_key"}
ITER_ADAPTORS = {"rev", "skip", "take", "filter", "filter_map", "step_by", "skip_while", "take_while", "map", "chain",
                 "zip", "enumerate", "peekable", "flat_map", "scan", "cycle", "dedup"}


def c18_l1(F, X, rep, bodies):
    rep.rule("C18-L1", "decoder pushes (typ, value) in input order with value = exactly len bytes; encoder writes typ,len,value for every record in order")
    dec = None
    for b in bodies:
        pushes = [c for c in b.calls if c.name == "std::vec::Vec::push" and "tlv::TlvEntry" in c.full]
        if pushes:
            dec = (b, pushes)
            break
    rep.anchor("C18-L1", "decoder loop (Vec<TlvEntry>::push)", 1 if dec else 0)
    if dec:
        b, pushes = dec
        fn = F.root_of(b)
        ok = len(pushes) == 1
        rep.ob("C18-L1", ok, fn, "one push per record", where=pushes[0].loc, how="1 push site", detail="" if ok else "%d push sites" % len(pushes))
        p = pushes[0]
        e = strip(X.operand(b, p.args[1]))
        typ_e = val_e = None
        rb = b                       # the body in which the record is read
        if not any(a[0] == "agg" and a[1] == "tlv::TlvEntry" for a in alts(e)):
            # the record is read by a same-file helper (`entries.push(read_tlv_entry(&mut b)?)`): the read discipline is
            # checked in the helper, whose buffer parameter is the decoder's buffer
            e1 = strip(mm.inline_pure(F, X, e, depth=1, keep=lambda n: F.by_cdef.get(n) is None or F.by_cdef[n].span.get("f") != b.span.get("f") or n.startswith("<")))
            for a in alts(e1):
                if a[0] == "agg" and a[1] == "tlv::TlvEntry" and a[4][0] in F.by_cdef:
                    hb = F.by_cdef[a[4][0]]
                    # parameters of the helper stay symbolic: evaluate the aggregate in the helper itself
                    for bi2 in sorted(hb.reachable):
                        for s2 in hb.blocks[bi2]["s"]:
                            if s2["k"] == "assign" and s2["rv"]["k"] == "agg" and canon(s2["rv"].get("adt") or "") == "tlv::TlvEntry":
                                e = strip(X.rvalue(hb, s2["rv"], (hb.cdef, bi2, ""), 0))
                                rb = hb
        for a in alts(e):
            if a[0] == "agg" and a[1] == "tlv::TlvEntry":
                d = dict(a[3])
                typ_e, val_e = d.get("typ"), d.get("value")
        okagg = typ_e is not None and val_e is not None
        rep.ob("C18-L1", okagg, fn, "pushed value is a TlvEntry aggregate", where=p.loc, how=show(e)[:100], detail="" if okagg else "pushed %s" % show(e)[:100])
        if okagg:
            reads = [c for c in rb.calls if c.name == "tlv::ProtoBuf::get_compact_size"]
            # typ = result of a compact-size read (via ?), value = to_vec(copy_to_bytes(recv, len)), len = next compact size
            def is_cs(x):
                x = _peel(x)
                return x[0] == "call" and x[1] == "tlv::ProtoBuf::get_compact_size"
            okt = is_cs(typ_e)
            rep.ob("C18-L1", okt, fn, "typ is the BigSize just read", where=p.loc, how=show(typ_e)[:80], detail="" if okt else "typ = %s" % show(typ_e)[:100])
            v = _peel(val_e)
            if v[0] == "field" and v[1] == "0" and v[4][0] == "call" and v[4][1].endswith("<impl [T]>::split_at"):
                v = v[4]                    # `let (value, rest) = b.split_at(len)`: the first len bytes of the input
            okv = v[0] == "call" and (v[1] == "bytes::Buf::copy_to_bytes" or v[1].endswith("<impl [T]>::split_at")) and len(v[2]) == 2 and is_cs(v[2][1])
            rep.ob("C18-L1", okv, fn, "value is copy_to_bytes(len) with len the second BigSize", where=p.loc, how=show(val_e)[:100],
                   detail="" if okv else "value = %s" % show(val_e)[:140])
            if okt and okv:
                tc = _peel(typ_e)[4]
                lc = _peel(v[2][1])[4]
                cc = v[4]
                same = len({panics.recv_root(rb, x.args[0]) for x in (tc, lc, cc)}) == 1
                order = rb.dominates(tc.bb, lc.bb) and rb.dominates(lc.bb, cc.bb) and tc.bb != lc.bb
                rep.ob("C18-L1", same and order, fn, "typ, len, value are read in that order from one receiver", where=tc.loc,
                       how="typ@%s < len@%s < value@%s" % (tc.loc, lc.loc, cc.loc),
                       detail="" if same and order else "reads are out of order or from different buffers")
                # nothing else consumes the receiver inside the loop
                recv = panics.recv_root(rb, tc.args[0])
                other = [c for c in rb.calls if c.args and panics.recv_root(rb, c.args[0]) == recv and c.mname in panics.BUF_CONSUMERS and c.bb not in (tc.bb, lc.bb, cc.bb) and c.mname not in ("take",)]
                rep.ob("C18-L1", not other, fn, "no other consuming read on the input", where=other[0].loc if other else tc.loc,
                       how="3 consuming calls per record", detail="" if not other else "extra consuming call %s" % other[0].name)
        # no other mutation of the record vector
        muts = [c for c in b.calls if c.name.startswith("std::vec::Vec::") and "tlv::TlvEntry" in c.full and c.mname in VEC_MUTATORS]
        muts += [c for c in b.calls if c.name.startswith("core::slice::<impl [T]>::") and "tlv::TlvEntry" in c.full and c.mname in VEC_MUTATORS]
        rep.ob("C18-L1", not muts, fn, "record vector only grows by push", where=muts[0].loc if muts else loc(b.span), how="no reorder/remove call",
               detail="" if not muts else "decoder calls %s on the records" % muts[0].name)
        # the loop has no exit that skips records silently other than the `remaining` guard and Err returns:
        # every Return with Ok must be dominated by the false edge of the loop guard (remaining() >= k)
        oks = _ok_returns(b)
        for bb_ok in oks:
            conds = lib.dominating_conditions(b, bb_ok)
            g = [c for c, t in conds if c.kind == "cmp"]
            okg = False
            for c, t in conds:
                if c.kind == "cmp":
                    for side in (c.a, c.b):
                        d = lib.def_rvalue(b, side)
                        if d and d[0] == "call" and d[1].mname in ("remaining", "has_remaining", "is_empty", "len"):
                            okg = True
                if c.kind == "call" and c.call.mname in ("has_remaining", "is_empty"):
                    okg = True
            rep.ob("C18-L1", okg, fn, "Ok(stream) only after the input is exhausted", where=loc(b.term(bb_ok)["sp"]),
                   how="dominated by the loop's remaining()-guard exit", detail="" if okg else "decoder can return Ok without consuming the input (early exit)")
            # what may be left when the decoder stops: less than the shortest record (one type byte + one length byte).
            # Two or more remaining bytes are a record header (possibly of an empty record) and must be parsed.
            for c, t in conds:
                if c.kind != "cmp":
                    continue
                for big, lim, flip in ((c.a, c.b, False), (c.b, c.a, True)):
                    d = lib.def_rvalue(b, big)
                    if not (d and d[0] == "call" and d[1].mname in ("remaining", "len")):
                        continue
                    k = lib.const_int(b, lim) if hasattr(lib, "const_int") else None
                    if k is None:
                        ro = lib.root_operand(b, lim)
                        if ro.get("k") == "const" and ro.get("int") is not None:
                            k = int(ro["int"])
                    if k is None:
                        continue
                    op = c.op if not flip else {"Lt": "Gt", "Le": "Ge", "Gt": "Lt", "Ge": "Le"}.get(c.op, c.op)
                    if not t:
                        op = {"Lt": "Ge", "Le": "Gt", "Gt": "Le", "Ge": "Lt", "Eq": "Ne", "Ne": "Eq"}[op]
                    # at the Ok exit: remaining `op` k holds
                    left_max = {"Lt": k - 1, "Le": k, "Eq": k}.get(op)
                    if left_max is None:
                        continue
                    okk = left_max <= 1
                    rep.ob("C18-L1", okk, fn, "at most one stray byte may be left unparsed", where=loc(b.term(bb_ok)["sp"]), how="stops when remaining() <= %d" % left_max,
                           detail="" if okk else "the decoder stops with up to %d bytes unparsed: a trailing record with an empty value (two bytes) or a truncated record header is silently dropped instead of parsed / rejected" % left_max)
    # encoder
    enc = None
    for b in bodies:
        wr = [c for c in b.calls if c.name == "tlv::ProtoBufMut::put_compact_size"]
        if len(wr) >= 2:
            enc = (b, wr)
            break
    rep.anchor("C18-L1", "encoder loop (put_compact_size x2 per record)", 1 if enc else 0)
    if enc:
        b, wr = enc
        fn = F.root_of(b)
        nx = [c for c in b.calls if c.name == "std::iter::Iterator::next"]
        fe_sites = []
        if not nx and b.kind == "Closure":
            # `records.into_iter().for_each(|r| { .. })`: the closure body is the loop body
            for (pb, bi, si, ops, st) in F.closure_sites.get(b.def_, []):
                for c in pb.calls:
                    if c.name == "std::iter::Iterator::for_each" and len(c.args) > 1 and any(y[0] == "agg" and y[1] == "closure:" + b.cdef for y in walk(strip(X.operand(pb, c.args[1])))):
                        fe_sites.append((pb, c))
        hl_sites = []
        if not nx and not fe_sites and b.kind in ("Fn", "AssocFn"):
            # the per-record writes sit in a helper (`e.write_to(&mut b)`) called from the loop over the records
            for c in F.callers.get(b.cdef, []):
                cb = c.body
                cnx = [x for x in cb.calls if x.name == "std::iter::Iterator::next" and c.bb in cb.reach_after([x.bb])]
                for x in cnx:
                    some_ = lib.enum_arm_target(cb, x.target, "Some") if x.target is not None else None
                    if some_ is not None and c.bb in cb.reach([some_]) and _all_paths_pass(cb, some_, x.bb, c.bb):
                        hl_sites.append((cb, x))
        ok = len(nx) == 1 or len(fe_sites) == 1 or len(hl_sites) == 1
        rep.ob("C18-L1", ok, fn, "single loop over the records", where=nx[0].loc if nx else loc(b.span), how="1 Iterator::next / for_each", detail="" if ok else "%d iterator loops" % (len(nx) + len(fe_sites)))
        if nx or fe_sites or hl_sites:
            if nx:
                it = strip(X.operand(b, nx[0].args[0]))
                itloc = nx[0].loc
            elif hl_sites:
                it = strip(X.operand(hl_sites[0][0], hl_sites[0][1].args[0]))
                itloc = hl_sites[0][1].loc
            else:
                it = strip(X.operand(fe_sites[0][0], fe_sites[0][1].args[0]))
                itloc = fe_sites[0][1].loc
            names = [x[1] for x in walk(it) if x[0] == "call"]
            adapt = [n for n in names if n.startswith("std::iter::Iterator::") and n.split("::")[-1] in ITER_ADAPTORS]
            src = [n for n in names if n in ("core::slice::<impl [T]>::iter", "std::iter::IntoIterator::into_iter")]
            # the record vector: the field of the stream type that holds Vec<TlvEntry> (whatever it is called)
            recf = {f["n"] for a in F.adts.values() for v in a.get("variants", []) for f in v.get("fields", []) if "Vec<tlv::TlvEntry>" in f.get("ty", "")}
            fld = [x for x in walk(it) if x[0] == "field" and x[1] in recf]
            ok = not adapt and bool(fld)
            rep.ob("C18-L1", ok, fn, "iterates the record vector front to back without adaptors", where=itloc, how=show(it)[:100],
                   detail="" if ok else "iterator is %s" % show(it)[:140])
            some = (lib.enum_arm_target(b, nx[0].target, "Some") if nx[0].target is not None else None) if nx else 0
            # writes: typ, len(value), value in that order, each once per iteration
            puts = [c for c in b.calls if c.name in ("tlv::ProtoBufMut::put_compact_size", "bytes::BufMut::put", "bytes::BufMut::put_slice", "bytes::BufMut::extend_from_slice")]
            seq = sorted(puts, key=lambda c: len(b.dom.get(c.bb, ())))
            chain_ok = all(b.dominates(seq[i].bb, seq[i + 1].bb) for i in range(len(seq) - 1))
            exprs = [strip(X.operand(b, c.args[1])) for c in seq]
            def has_field(e, f):
                return any(x[0] == "field" and x[1] == f for x in walk(e))
            want = len(seq) == 3 and has_field(exprs[0], "typ") and has_field(exprs[1], "value") and any(x[0] == "call" and x[1].endswith("::len") for x in walk(exprs[1])) \
                and has_field(exprs[2], "value") and not any(x[0] == "call" and x[1].endswith("::len") for x in walk(exprs[2]))
            rep.ob("C18-L1", chain_ok and want, fn, "writes typ, value.len(), value in that order for each record", where=seq[0].loc if seq else loc(b.span),
                   how=" ; ".join(show(e)[:50] for e in exprs), detail="" if chain_ok and want else "encoder writes %s" % [show(e)[:60] for e in exprs])
            # the output is what the writes appended: the buffer starts empty (a buffer pre-sized from a separately computed
            # length keeps whatever the writes did not cover)
            if seq:
                recv = strip(mm.expand_params(F, X, strip(X.operand(b, seq[0].args[0])), depth=2))
                made = [x[1] for x in walk(recv) if x[0] == "call" and x[1] in ("bytes::BytesMut::new", "bytes::BytesMut::with_capacity", "std::vec::Vec::new", "std::vec::Vec::with_capacity")]
                pre = [x[1] for x in walk(recv) if (x[0] == "call" and (x[1] in ("std::vec::from_elem", "bytes::BytesMut::zeroed") or x[1].endswith("::resize") or x[1].endswith("::set_len")))]
                # also anywhere in the encoder's own body
                pre += [c.name for c in b.calls if c.name in ("std::vec::from_elem", "bytes::BytesMut::zeroed") or c.name.endswith("Vec::resize") or c.name.endswith("BytesMut::resize") or c.name.endswith("::set_len")]
                rep.ob("C18-L1", not pre, fn, "the output buffer starts empty and grows by the writes", where=seq[0].loc, how=(made[0] if made else "no pre-sized buffer"),
                       detail="" if not pre else "the encoder writes into a buffer pre-sized by %s: its length is computed apart from the writer, bytes not covered by the writes stay in the output" % pre[0])
            # no conditional skipping inside the loop body: every put is reached on every iteration
            if some is not None and seq:
                if nx:
                    skip = [c for c in seq if not _all_paths_pass(b, some, nx[0].bb, c.bb)]
                else:
                    skip = [c for c in seq if any(not b.dominates(c.bb, r) for r in b.returns())]
                rep.ob("C18-L1", not skip, fn, "no record or field is skipped", where=seq[0].loc, how="each write is on every path of the loop body",
                       detail="" if not skip else "write at %s can be skipped" % skip[0].loc)
            # full value slice
            if len(seq) == 3:
                idx = [x for x in walk(exprs[2]) if x[0] == "call" and x[1] in ("std::ops::Index::index",)]
                bad = [x for x in idx if "RangeFull" not in x[4].full]
                rep.ob("C18-L1", not bad, fn, "the whole value is written", where=seq[2].loc, how="full-range slice or the vector itself",
                       detail="" if not bad else "value is sliced before writing")


def _peel(x):
    for _ in range(6):
        if x[0] in ("try", "await"):
            x = x[1]
        elif x[0] == "cast" and x[1].startswith("IntToInt"):
            x = x[4]
        elif x[0] == "call" and x[1] in ("std::slice::<impl [T]>::to_vec", "std::convert::Into::into", "bytes::Bytes::to_vec") and x[2]:
            x = x[2][0]
        else:
            break
    return x


def _ok_returns(b):
    """blocks that assign _0 = Result::Ok{..}"""
    out = []
    for bi in sorted(b.reachable):
        for s in b.blocks[bi]["s"]:
            if s["k"] == "assign" and s["lhs"]["l"] == 0 and not s["lhs"]["p"] and s["rv"]["k"] == "agg" and s["rv"].get("variant") == "Ok":
                out.append(bi)
    return out


def _all_paths_pass(b, start, back_to, via):
    """every path from start that comes back to `back_to` (loop head) passes block via"""
    if start == via:
        return True
    r = b.reach([start], removed_nodes=[via])
    return back_to not in r


# ---------------------------------------------------------------------------- L2
def c18_l2(F, X, rep, bodies):
    rep.rule("C18-L2", "length-prefixed and hex entry points delegate to the stream decoder; errors map to Err")
    tf = [b for b in bodies if "std::convert::TryFrom<std::vec::Vec<u8>>>::try_from" in b.cdef]
    rep.anchor("C18-L2", "TryFrom<Vec<u8>> entry point", len(tf))
    for b in tf:
        fn = F.root_of(b)
        fb = [c for c in b.calls if c.name == "tlv::FromBytes::from_bytes"]
        ok = len(fb) == 1
        rep.ob("C18-L2", ok, fn, "delegates to from_bytes once", where=fb[0].loc if fb else loc(b.span), how="1 call", detail="" if ok else "%d from_bytes calls" % len(fb))
        if fb:
            arg = strip(X.operand(b, fb[0].args[0]))
            has_param = any(x[0] == "param" for x in walk(arg))
            rep.ob("C18-L2", has_param, fn, "decoder input is the caller's buffer", where=fb[0].loc, how=show(arg)[:100], detail="" if has_param else "from_bytes(%s)" % show(arg)[:100])
            cs = [c for c in b.calls if c.name == "tlv::ProtoBuf::get_compact_size"]
            oth = [c for c in b.calls if c.fn.get("trait") and canon(c.fn["trait"]) == "bytes::Buf" and c.mname in panics.BUF_CONSUMERS and c.mname != "take"]
            ok = len(cs) == 1 and not oth and b.dominates(cs[0].bb, fb[0].bb)
            rep.ob("C18-L2", ok, fn, "skips exactly one BigSize length prefix before decoding", where=cs[0].loc if cs else loc(b.span),
                   how="1 get_compact_size dominating from_bytes, no other consuming read",
                   detail="" if ok else "prefix handling: %d compact-size reads, %d other reads" % (len(cs), len(oth)))
            # result is from_bytes' result or Err
            r0 = strip(X.local(b, 0))
            for a in alts(r0):
                okr = (a[0] == "call" and a[1] in ("tlv::FromBytes::from_bytes", "std::ops::FromResidual::from_residual")) or (a[0] == "agg" and a[2] in ("Ok", "Err"))
                if a[0] == "agg" and a[2] == "Ok":
                    # only the empty stream for empty input
                    conds = None
                    okr = any(x[0] == "call" and x[1] == "std::vec::Vec::new" for x in walk(a))
                rep.ob("C18-L2", okr, fn, "result is the decoder's result, an error, or the empty stream", where=loc(b.span), how=show(a)[:80],
                       detail="" if okr else "try_from returns %s" % show(a)[:120])
    de = [b for b in bodies if "Deserialize" in b.cdef and b.cdef.endswith("::deserialize") and "SerializedTlvStream" in b.cdef]
    rep.anchor("C18-L2", "Deserialize entry point", len(de))
    for b in de:
        fn = F.root_of(b)
        hx = [c for c in b.calls if c.name == "hex::decode"]
        tfc = [c for c in b.calls if c.name == "std::convert::TryFrom::try_from" and "tlv::SerializedTlvStream" in c.full]
        ok = len(hx) == 1 and len(tfc) == 1 and b.dominates(hx[0].bb, tfc[0].bb)
        rep.ob("C18-L2", ok, fn, "hex-decode then try_from", where=hx[0].loc if hx else loc(b.span), how="hex::decode dominates try_from",
               detail="" if ok else "deserialize does not decode hex then delegate")
        if ok:
            arg = strip(X.operand(b, tfc[0].args[0]))
            okk = any(x[0] == "call" and x[1] == "hex::decode" for x in walk(arg))
            rep.ob("C18-L2", okk, fn, "try_from input is the decoded hex", where=tfc[0].loc, how=show(arg)[:80], detail="" if okk else "try_from(%s)" % show(arg)[:100])
    # who constructs SerializedTlvStream
    cons = []
    for b in F.code_bodies():
        for bi in sorted(b.reachable):
            for s in b.blocks[bi]["s"]:
                if s["k"] == "assign" and s["rv"]["k"] == "agg" and s["rv"].get("adt") == "tlv::SerializedTlvStream" and not lib.third_party_expansion(s["sp"]):
                    cons.append((b, loc(s["sp"])))
    allowed = ("tlv::FromBytes>::from_bytes", "TryFrom<std::vec::Vec<u8>>>::try_from", "From<std::vec::Vec<tlv::TlvEntry>>>::from")
    for b, w in cons:
        ok = any(a in b.cdef for a in allowed)
        rep.ob("C18-L2", ok, F.root_of(b), "construction of SerializedTlvStream", where=w, how="decoder / empty / From<Vec<TlvEntry>>",
               detail="" if ok else "SerializedTlvStream built outside the decoder entry points")


# ---------------------------------------------------------------------------- U
def c18_u(F, X, rep, bodies):
    rep.rule("C18-U", "tu64: 0 bytes -> 0, more than 8 -> Err, otherwise right-aligned big-endian")
    tb = None
    for b in bodies:
        if any(c.name == "core::num::<impl u64>::from_be_bytes" for c in b.calls) and any(c.mname == "remaining" for c in b.calls):
            tb = b
    rep.anchor("C18-U", "tu64 reader (u64::from_be_bytes + remaining())", 1 if tb else 0)
    if not tb:
        return
    b = tb
    fn = F.root_of(b)
    fbe = [c for c in b.calls if c.name == "core::num::<impl u64>::from_be_bytes"][0]
    rem = [c for c in b.calls if c.mname == "remaining"]
    r0 = rem[0]
    ro = {"k": "copy", "pl": r0.dest}
    iv = Intervals(b).at(ro, fbe.bb)
    ok = iv is not None and iv[0] >= 1 and iv[1] <= 8
    rep.ob("C18-U", ok, fn, "conversion only for 1..=8 bytes", where=fbe.loc, how="remaining in %s at from_be_bytes" % (iv,),
           detail="" if ok else "from_be_bytes reached with remaining in %s" % (iv,))
    # Ok(0) on the remaining == 0 edge, Err on > 8
    # path-sensitive: along every feasible path from the length read to a result, refine the length by the tests on it
    # (`if`, `match` with literals and ranges alike); a path on which the length is 0 must end in Ok(0), a path on which
    # it can exceed 8 must end in Err
    sites = {}
    for bi in sorted(b.reachable):
        for s in b.blocks[bi]["s"]:
            if s["k"] == "assign" and s["lhs"]["l"] == 0 and not s["lhs"]["p"] and s["rv"]["k"] == "agg":
                sites[bi] = s
    res = lib.path_intervals(b, ro, set(sites), start=r0.target)
    okz = okbig = False
    zero_detail = big_detail = ""
    nz = nbig = 0
    badz = badbig = 0
    if res is not None:
        for bi, ivs in res[0].items():
            s = sites[bi]
            v = s["rv"].get("variant")
            for lo, hi in ivs:
                if lo == 0 and hi == 0:
                    nz += 1
                    e = strip(X.operand(b, s["rv"]["ops"][0])) if s["rv"]["ops"] else ("unknown",)
                    if not (v == "Ok" and e[0] == "const" and e[2] == 0):
                        badz += 1
                        zero_detail = "%s(%s)" % (v, show(e))
                elif lo == 0:
                    nz += 1
                    badz += 1
                    zero_detail = "an unrefined length (the empty input is not told apart)"
                if hi >= 9:
                    nbig += 1
                    if v != "Err":
                        badbig += 1
                        big_detail = "%s on a path where the length is in [%d, %d]" % (v, lo, hi)
        okz = nz > 0 and badz == 0
        okbig = nbig > 0 and badbig == 0
    rep.ob("C18-U", okz, fn, "0 bytes decode to 0", where=loc(b.span), how="Ok(0) on the remaining()==0 path", detail="" if okz else "empty input yields %s" % (zero_detail or "no explicit result"))
    rep.ob("C18-U", okbig, fn, "more than 8 bytes are rejected", where=loc(b.span), how="Err on the remaining()>8 path", detail="" if okbig else "over-long input yields %s" % (big_detail or "no Err"))
    # right alignment: destination index start = 8 - remaining into a zeroed [u8; 8]; source = chunk()
    arr = strip(X.operand(b, fbe.args[0]))
    zero = any(x[0] == "agg" and x[1] == "repeat" and x[3] and x[3][0][1][0] == "const" and x[3][0][1][2] == 0 for x in walk(arr))
    rep.ob("C18-U", zero, fn, "buffer is zero-initialised [u8; 8]", where=fbe.loc, how=show(arr)[:60], detail="" if zero else "from_be_bytes(%s)" % show(arr)[:80])
    idx = [c for c in b.calls if c.name in ("std::ops::IndexMut::index_mut",)]
    okidx = False
    for c in idx:
        e = strip(X.operand(b, c.args[1]))
        for x in walk(e):
            if x[0] == "bin" and x[1].startswith("Sub"):
                a, bb_ = x[2], x[3]
                if a[0] == "const" and a[2] == 8 and bb_[0] == "call" and bb_[1] == "bytes::Buf::remaining":
                    if any(y[0] == "agg" and y[1] == "std::ops::RangeFrom" for y in walk(e)):
                        okidx = True
    rep.ob("C18-U", okidx, fn, "bytes are right-aligned: written at [8-remaining..]", where=idx[0].loc if idx else fbe.loc,
           how="RangeFrom{8 - remaining()}", detail="" if okidx else "destination slice is not [8-remaining..]")
    cp = [c for c in b.calls if c.name == "core::slice::<impl [T]>::copy_from_slice"]
    okc = False
    for c in cp:
        e = strip(X.operand(b, c.args[1]))
        if any(x[0] == "call" and x[1] == "bytes::Buf::chunk" for x in walk(e)):
            okc = True
    rep.ob("C18-U", okc, fn, "source is the remaining input", where=cp[0].loc if cp else fbe.loc, how="copy_from_slice(chunk())", detail="" if okc else "source bytes are not chunk()")
