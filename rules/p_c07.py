"""C07 - one resolution for the whole set (DESIGN 5/C07)."""
import rules_lc as R
import rules_hh as H

EXPLANATION = (
    "Decides: (U1) the drain answers every popped listener with a clone of its single response parameter, the loop ends only when pop() is None, "
    "the drained state is the removed table entry, only push (add-listener) and pop (drain) mutate the listener list; (U2) every lifecycle path "
    "answers exactly once and one lifecycle exists per entry (C06-P2, C05-A3); (U3) all policy rejections (conflicting info, relative expiry, "
    "declared total) request failure before the HTLC is added, with the stated guards and responses, and the fail flag permanently disables "
    "readiness; (U5) a failure answered directly to one HTLC (classification / handler before the table entry) never depends on that HTLC's own amount, expiry or declared total - such rejections must go through the set; (U4) the fail arm forwards the requested response and cannot reach pay."
)
ASSUMPTIONS = ["which of two simultaneously ready select arms tokio picks is outside the statement"]


def run(F, X, rep):
    C = R.Ctx.get(F, X)
    if not (R.need_lc(C, rep, "C07-U2") and H.need_hh(C, rep, "C07-U3")):
        return
    H.p3_answer_reaches_everyone(C, rep, "C07-U1")
    R.p2_exactly_one_answer(C, rep, "C07-U2")
    R.a3_one_lifecycle_per_entry(C, rep, "C07-U2")
    H.u3_reject_before_add(C, rep, "C07-U3")
    H.p4b_answer_only_via_lifecycle(C, rep, "C07-U3")
    H.u5_no_individual_rejection(C, rep, "C07-U5")
    H.q_request_fields_verbatim(C, rep, "C07-Q")
    R.u4_fail_arm_forwards(C, rep, "C07-U4")
    # "all HTLCs held for the hash receive the response": the drain takes the table lock, so nothing may block while that lock is held - the
    # ready / fail signals are latched single-shot sends (a second send on the capacity-1 channel would block a handler forever with the
    # lock held, and no held HTLC would ever be answered): C14-L1, cited
    H.p6_no_blocking_under_lock(C, rep, "C07-B")
