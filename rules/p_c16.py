"""C16 - pay wrapper: success only with a real preimage, failure only when final (DESIGN 5/C16)."""
import rules_lc as R
import rules_provider as P
import rules_ext as E

EXPLANATION = (
    "Decides on the PaymentProvider impl's pay: (D) every exit after the pay RPC is classified by the arms dominating it: Ok(x) only with x = "
    "PayResponse::payment_preimage under status COMPLETE or wait_payment's Some payload; Err only under wait_payment==Ok(None), or FAILED with "
    "warning_partial_completion==None, or as wait_payment's own propagated error; status PENDING and the RPC-error arm cannot exit without passing "
    "wait_payment; (H) wait_payment is asked about req.payment_hash, which the lifecycle fills with the invoice hash (C01-K, cited)."
)
ASSUMPTIONS = ["CLN: status failed without warning_partial_completion means no part is pending or complete", "C15 for wait_payment"]


def run(F, X, rep):
    C = R.Ctx.get(F, X)
    P.d_dispatch(C, rep, "C16-D")
    # the wrapper's failure verdicts are only as good as wait_payment's `none`
    P.v_wait_payment(C, rep, "C16-W")
    if R.need_lc(C, rep, "C16-H"):
        E.k_key_is_invoice_hash(C, rep, "C16-H")
