"""Generic analyses the rules are built from: switch decoding, dominating conditions,
interval arithmetic, lock regions, effect classes."""
import re
import names as NM
from mir import Call, canon, loc, is_noise_span, span_macros, strip, walk, alts, show

INT_RANGES = {
    "u8": (0, 2**8 - 1), "u16": (0, 2**16 - 1), "u32": (0, 2**32 - 1), "u64": (0, 2**64 - 1),
    "u128": (0, 2**128 - 1), "usize": (0, 2**64 - 1),
    "i8": (-2**7, 2**7 - 1), "i16": (-2**15, 2**15 - 1), "i32": (-2**31, 2**31 - 1),
    "i64": (-2**63, 2**63 - 1), "i128": (-2**127, 2**127 - 1), "isize": (-2**63, 2**63 - 1),
    "bool": (0, 1),
}

PANIC_MACROS = {"panic", "todo", "unimplemented", "unreachable", "assert", "assert_eq", "assert_ne",
                "debug_assert", "debug_assert_eq", "debug_assert_ne"}


def third_party_expansion(sp):
    """span lies inside the expansion of a macro that is not one of std's panic-family macros and
    not a tracing macro: tokio::select!/join!, serde derives, serde_json::json!, async_trait ..."""
    macs = span_macros(sp)
    if not macs:
        return False
    root = macs[-1]
    return root not in PANIC_MACROS


def user_panic_macro(sp):
    macs = span_macros(sp)
    return bool(macs) and macs[-1] in PANIC_MACROS


# ---------------------------------------------------------------------------- def chains on locals
def single_def(body, l):
    ds = [d for d in body.defs.get(l, []) if not d[2]]
    if len(ds) == 1 and not any(d[2] for d in body.defs.get(l, []) if d[2] and any(p["k"] != "deref" for p in d[2])):
        return ds[0]
    if len(ds) == 1:
        return ds[0]
    return None


def root_operand(body, o, maxn=40):
    """follow `x = copy/move y` single-definition chains; returns the final operand (a const operand
    or a place operand whose local is a param / multi-def / non-copy def)"""
    n = 0
    while n < maxn:
        n += 1
        if o["k"] not in ("copy", "move"):
            return o
        pl = o["pl"]
        if pl["p"]:
            return o
        l = pl["l"]
        if 1 <= l <= body.arg_count:
            return o
        d = single_def(body, l)
        if d is None or d[3] != "rv":
            return o
        rv = d[4]
        if rv["k"] == "use":
            o = rv["op"]
            continue
        return o
    return o


def def_rvalue(body, o):
    """the rvalue/call defining operand o's root local: ('rv', rv, bb) | ('call', Call) | None"""
    o = root_operand(body, o)
    if o["k"] not in ("copy", "move") or o["pl"]["p"]:
        return None
    l = o["pl"]["l"]
    d = single_def(body, l)
    if d is None:
        return None
    if d[3] == "rv":
        return ("rv", d[4], d[0])
    if d[3] == "call":
        return ("call", Call(body, d[0], d[4]))
    return None


def place_key(pl):
    """hashable identity of a place (local + field path)"""
    parts = [pl["l"]]
    for p in pl["p"]:
        if p["k"] == "deref":
            continue
        if p["k"] == "field":
            parts.append("." + p["n"])
        elif p["k"] == "downcast":
            parts.append("@" + p["v"])
        else:
            parts.append("[" + p["k"] + "]")
    return tuple(parts)


def operand_key(body, o):
    o = root_operand(body, o)
    if o["k"] == "const":
        return ("const", o.get("int"), o.get("v"))
    if o["k"] in ("copy", "move"):
        return ("place",) + place_key(o["pl"])
    return ("?",)


# ---------------------------------------------------------------------------- switch decoding
class Cond:
    """decoded switch: kind in {'cmp','bool','enum','int','call'}"""

    def __init__(self):
        self.kind = None
        self.op = None        # comparison operator for 'cmp'
        self.a = None         # operand dicts
        self.b = None
        self.call = None      # Call for bool results of calls
        self.negated = False
        self.place = None     # for enum: the matched place; for bool: the place read
        self.variants = None  # value(str) -> variant name
        self.bb = None

    def __repr__(self):
        return "<cond %s %s>" % (self.kind, self.op or (self.call.name if self.call else ""))


def decode_switch(body, bb):
    t = body.term(bb)
    if t["k"] != "switch":
        return None
    c = Cond()
    c.bb = bb
    o = t["op"]
    neg = False
    for _ in range(6):
        d = def_rvalue(body, o)
        if d is None:
            break
        if d[0] == "rv" and d[1]["k"] == "un" and d[1]["op"] == "Not":
            neg = not neg
            o = d[1]["a"]
            continue
        if d[0] == "call" and d[1].name in ("anyhow::__private::not", "std::ops::Not::not") and len(d[1].args) == 1 and body.local_ty(d[1].dest["l"]) == "bool":
            # `ensure!(cond)` tests `not(cond)`; `cond.not()`
            neg = not neg
            o = d[1].args[0]
            continue
        break
    c.negated = neg
    d = def_rvalue(body, o)
    ty = t.get("ty", "")
    if d is not None and d[0] == "rv":
        rv = d[1]
        if rv["k"] == "bin" and rv["op"] in ("Eq", "Ne", "Lt", "Le", "Gt", "Ge"):
            c.kind = "cmp"
            c.op = rv["op"]
            c.a = rv["a"]
            c.b = rv["b"]
            return c
        if rv["k"] == "discr":
            c.kind = "enum"
            c.place = rv["pl"]
            c.variants = {v: n for v, n in rv.get("variants", [])}
            c.enum_ty = rv.get("ty", "")
            return c
    if d is not None and d[0] == "call":
        c.call = d[1]
        if ty == "bool":
            c.kind = "call"
            return c
        ro = root_operand(body, o)
        c.kind = "int"
        c.place = ro["pl"] if ro["k"] in ("copy", "move") else None
        return c
    ro = root_operand(body, o)
    if ty == "bool":
        c.kind = "bool"
        c.place = ro["pl"] if ro["k"] in ("copy", "move") else None
        return c
    c.kind = "int"
    c.place = ro["pl"] if ro["k"] in ("copy", "move") else None
    return c


def switch_edges(body, bb):
    """[(value_or_'otherwise', target)]"""
    t = body.term(bb)
    out = [(v, tg) for v, tg in t["arms"]]
    out.append(("otherwise", t["otherwise"]))
    return out


def bool_edge_targets(body, bb):
    """(false_target, true_target) for a boolean switch (arms [0:F] otherwise T) or None"""
    t = body.term(bb)
    if t["k"] != "switch":
        return None
    arms = t["arms"]
    if len(arms) == 1 and arms[0][0] == "0":
        return (arms[0][1], t["otherwise"])
    if len(arms) == 1 and arms[0][0] == "1":
        return (t["otherwise"], arms[0][1])
    if len(arms) == 2 and {arms[0][0], arms[1][0]} == {"0", "1"}:
        f = [tg for v, tg in arms if v == "0"][0]
        tr = [tg for v, tg in arms if v == "1"][0]
        return (f, tr)
    return None


def skip_false_edges(body, bb):
    """follow FalseEdge/Goto-only empty blocks to the real target"""
    seen = set()
    while bb not in seen:
        seen.add(bb)
        t = body.term(bb)
        if t["k"] == "false_edge" and not [s for s in body.blocks[bb]["s"] if s["k"] == "assign"]:
            bb = t["t"]
            continue
        break
    return bb


def enum_arm_target(body, bb, variant):
    """target block of the switch at bb for enum variant `variant` (None if not a switch on an enum)"""
    c = decode_switch(body, bb)
    if c is None or c.kind != "enum":
        return None
    t = body.term(bb)
    val = None
    for v, n in c.variants.items():
        if n == variant:
            val = v
    if val is None:
        return None
    for v, tg in t["arms"]:
        if v == val:
            return tg
    return t["otherwise"]


def _payload_proj(pl):
    pr = [p for p in pl["p"] if p["k"] != "deref"]
    if len(pr) == 2 and pr[0]["k"] == "downcast" and pr[1]["k"] == "field" and pr[1]["n"] == "0":
        return pr[0]["v"]
    return None


def variant_sources(body, l, depth=0):
    """where the value of enum-typed local l is made: [(variant or None, block)] - `l = V(..)` gives (V, block), a move
    of another local / `Try::branch` of one is followed, any other definition (a call, a projection) gives
    (None, block): some variant, made there.  None if l is a parameter or has no definition."""
    if depth > 5 or 1 <= l <= body.arg_count:
        return None
    out = []
    ds = [d for d in body.defs.get(l, []) if not (d[2] and not all(p["k"] == "deref" for p in d[2]))]
    if not ds:
        return None
    for d in ds:
        if d[3] == "rv":
            rv = d[4]
            if rv["k"] == "agg" and rv.get("ak") == "adt" and rv.get("variant") and \
                    (rv["variant"] in ("Ok", "Err", "Some", "None", "Continue", "Break") or rv["variant"] != canon(rv.get("adt") or "").split("::")[-1].split("<")[0]):
                # a variant of an enum (a struct literal carries its own name as `variant`)
                out.append((rv["variant"], d[0]))
            elif rv["k"] == "use" and rv["op"]["k"] in ("copy", "move") and not [p for p in rv["op"]["pl"]["p"] if p["k"] != "deref"]:
                r = variant_sources(body, rv["op"]["pl"]["l"], depth + 1)
                out += r if r is not None else [(None, d[0])]
            elif rv["k"] == "use" and rv["op"]["k"] in ("copy", "move") and _payload_proj(rv["op"]["pl"]) is not None:
                # `(w as Ready).0` / `(w as Some).0` where w is only ever built as that wrapper around a local
                V = _payload_proj(rv["op"]["pl"])
                inner = []
                okw = True
                wds = [x for x in body.defs.get(rv["op"]["pl"]["l"], []) if not (x[2] and not all(p["k"] == "deref" for p in x[2]))]
                for x in wds:
                    if x[3] == "rv" and x[4]["k"] == "agg" and x[4].get("variant") == V and x[4]["ops"] and x[4]["ops"][0]["k"] in ("copy", "move") \
                            and not [p for p in x[4]["ops"][0]["pl"]["p"] if p["k"] != "deref"]:
                        r = variant_sources(body, x[4]["ops"][0]["pl"]["l"], depth + 1)
                        if r is None:
                            okw = False
                        else:
                            inner += r
                    else:
                        okw = False
                out += inner if (okw and wds) else [(None, d[0])]
            else:
                out.append((None, d[0]))
        elif d[3] == "call":
            fn = d[4]["fn"]
            if canon(fn.get("def") or "") == "std::ops::Try::branch" and d[4]["args"] and d[4]["args"][0]["k"] in ("copy", "move") \
                    and not [p for p in d[4]["args"][0]["pl"]["p"] if p["k"] != "deref"]:
                r = variant_sources(body, d[4]["args"][0]["pl"]["l"], depth + 1)
                if r is None:
                    out.append((None, d[0]))
                else:
                    out += [({"Ok": "Continue", "Some": "Continue", "Err": "Break", "None": "Break"}.get(v, v), b) for v, b in r]
            elif canon(fn.get("def") or "") == "std::ops::FromResidual::from_residual":
                # the residual of `?`: an error / None by construction
                rty = d[4].get("rty") or ""
                out.append(("Err" if rty.startswith("std::result::Result") else ("None" if rty.startswith("std::option::Option") else None), d[0]))
            else:
                out.append((None, d[0]))
        else:
            out.append((None, d[0]))
    return out


def bool_sources(body, l, depth=0):
    """where the value of bool local l is made: [(True|False|None, block)] (constants, moves and negations followed)"""
    if depth > 5 or 1 <= l <= body.arg_count:
        return None
    out = []
    ds = [d for d in body.defs.get(l, []) if not (d[2] and not all(p["k"] == "deref" for p in d[2]))]
    if not ds:
        return None
    for d in ds:
        if d[3] != "rv":
            out.append((None, d[0]))
            continue
        rv = d[4]
        if rv["k"] == "use" and rv["op"]["k"] == "const" and rv["op"].get("ty") == "bool":
            out.append((rv["op"].get("v") == "true", d[0]))
        elif rv["k"] == "use" and rv["op"]["k"] in ("copy", "move") and not [p for p in rv["op"]["pl"]["p"] if p["k"] != "deref"]:
            r = bool_sources(body, rv["op"]["pl"]["l"], depth + 1)
            out += r if r is not None else [(None, d[0])]
        elif rv["k"] == "un" and rv["op"] == "Not" and rv["a"]["k"] in ("copy", "move") and not [p for p in rv["a"]["pl"]["p"] if p["k"] != "deref"]:
            r = bool_sources(body, rv["a"]["pl"]["l"], depth + 1)
            out += [((not v) if v is not None else None, b) for v, b in r] if r is not None else [(None, d[0])]
        elif rv["k"] == "use" and rv["op"]["k"] in ("copy", "move") and _payload_proj(rv["op"]["pl"]) is not None:
            # `(w as Ready).0` where w is only ever built as that wrapper around a local (the result of a spliced `.await`)
            V = _payload_proj(rv["op"]["pl"])
            inner = []
            okw = True
            wds = [x for x in body.defs.get(rv["op"]["pl"]["l"], []) if not (x[2] and not all(p["k"] == "deref" for p in x[2]))]
            for x in wds:
                if x[3] == "rv" and x[4]["k"] == "agg" and x[4].get("variant") == V and x[4]["ops"] and x[4]["ops"][0]["k"] in ("copy", "move") \
                        and not [p for p in x[4]["ops"][0]["pl"]["p"] if p["k"] != "deref"]:
                    r = bool_sources(body, x[4]["ops"][0]["pl"]["l"], depth + 1)
                    if r is None:
                        okw = False
                    else:
                        inner += r
                else:
                    okw = False
            out += inner if (okw and wds) else [(None, d[0])]
        else:
            out.append((None, d[0]))
    return out


def bool_sources_of_place(body, pl):
    """bool_sources for a place: a plain local, or `(w as V).0` of a wrapper local only ever built as V(local)"""
    pr = [p for p in pl["p"] if p["k"] != "deref"]
    if not pr:
        return bool_sources(body, pl["l"])
    V = _payload_proj(pl)
    if V is None:
        return None
    out = []
    wds = [x for x in body.defs.get(pl["l"], []) if not (x[2] and not all(p["k"] == "deref" for p in x[2]))]
    for x in wds:
        if x[3] == "rv" and x[4]["k"] == "agg" and x[4].get("variant") == V and x[4]["ops"] and x[4]["ops"][0]["k"] in ("copy", "move") \
                and not [p for p in x[4]["ops"][0]["pl"]["p"] if p["k"] != "deref"]:
            r = bool_sources(body, x[4]["ops"][0]["pl"]["l"])
            if r is None:
                return None
            out += r
        else:
            return None
    return out or None


def dominating_conditions(body, bb, _depth=0):
    """[(Cond, truth)] for bool/cmp/call switches S such that every path entry->bb takes exactly the
    true (or false) edge of S; for enum switches truth is the variant name (or ('not', [names])).
    Correlated conditions: if a forced enum arm is on a local that is only ever *built* as a known variant
    (`r = Ok(..)` here, `r = Err(..)` there - e.g. the result of a spliced guard helper or of an expanded combinator,
    possibly passed through `?`), the arm taken identifies the building site, and what is forced there holds too."""
    key = (bb, _depth)
    memo = body.__dict__.setdefault("_domc", {})
    if key in memo:
        return memo[key]
    out = _dominating_conditions(body, bb)
    if _depth < 6:
        extra = []
        for c, truth in out:
            if c.kind != "enum" or c.place is None or not isinstance(truth, tuple) or (truth and truth[0] == "not"):
                continue
            if [p for p in c.place["p"] if p["k"] != "deref"]:
                continue
            srcs = variant_sources(body, c.place["l"])
            if not srcs:
                continue
            sel = sorted({b for v, b in srcs if v is None or v in truth})
            if len(sel) == 1 and sel[0] != bb and len(srcs) > 1:
                for c2, t2 in dominating_conditions(body, sel[0], _depth + 1):
                    if not any(c2.bb == c3.bb for c3, _t in out + extra):
                        extra.append((c2, t2))
        out = out + extra
    memo[key] = out
    return out


def _dominating_conditions(body, bb):
    out = []
    if bb not in body.dom:
        return out
    for s in sorted(body.dom[bb]):
        t = body.term(s)
        if t["k"] != "switch" or s == bb and False:
            continue
        c = decode_switch(body, s)
        if c is None:
            continue
        succs = body.succ[s]
        if len(succs) < 2:
            continue
        # which successors can reach bb without coming back through s?  the edge (s,x) is forced if
        # removing all other edges of s keeps bb reachable and removing (s,x) makes it unreachable.
        forced = None
        for x in succs:
            if bb not in body.reach([0], removed_edges=[(s, x)]):
                forced = x
                break
        if forced is None:
            continue
        if c.kind in ("cmp", "bool", "call"):
            ft = bool_edge_targets(body, s)
            if ft is None:
                continue
            if ft[0] == ft[1]:
                continue
            truth = (forced == ft[1])
            if c.negated:
                truth = not truth
            out.append((c, truth))
        elif c.kind == "enum":
            names = []
            for v, tg in t["arms"]:
                if tg == forced:
                    names.append(c.variants.get(v, v))
            if forced == t["otherwise"]:
                covered = {c.variants.get(v, v) for v, tg in t["arms"]}
                rest = [n for n in c.variants.values() if n not in covered]
                names += rest
            out.append((c, tuple(sorted(set(names)))))
        elif c.kind == "int":
            vals = [v for v, tg in t["arms"] if tg == forced]
            if forced == t["otherwise"]:
                out.append((c, ("not", tuple(v for v, tg in t["arms"]))))
            else:
                out.append((c, ("in", tuple(vals))))
    return out


NEG_OP = {"Lt": "Ge", "Le": "Gt", "Gt": "Le", "Ge": "Lt", "Eq": "Ne", "Ne": "Eq"}
_ORD_SETS = {("Greater",): "Gt", ("Less",): "Lt", ("Equal",): "Eq", ("Equal", "Greater"): "Ge", ("Equal", "Less"): "Le", ("Greater", "Less"): "Ne"}
_CMP_CALLS = {"std::cmp::PartialOrd::lt": "Lt", "std::cmp::PartialOrd::le": "Le", "std::cmp::PartialOrd::gt": "Gt", "std::cmp::PartialOrd::ge": "Ge",
              "std::cmp::PartialEq::eq": "Eq", "std::cmp::PartialEq::ne": "Ne"}


def order_facts(body, X, bb, conds=None):
    """[(expr a, op, expr b, cond block)]: comparisons `a op b` that hold on every path entry->bb, whatever the surface
    form: `a > b`, `a.gt(&b)`, `match a.cmp(&b) { Greater => .. }` (or the negation / complement arms of those)"""
    from mir import strip
    out = []
    for cnd, truth in (dominating_conditions(body, bb) if conds is None else conds):
        if cnd.kind == "cmp":
            op = cnd.op if truth else NEG_OP[cnd.op]
            out.append((strip(X.operand(body, cnd.a)), op, strip(X.operand(body, cnd.b)), cnd.bb))
        elif cnd.kind == "call" and cnd.call.name in _CMP_CALLS and len(cnd.call.args) == 2:
            op = _CMP_CALLS[cnd.call.name]
            op = op if truth else NEG_OP[op]
            out.append((strip(X.operand(body, cnd.call.args[0])), op, strip(X.operand(body, cnd.call.args[1])), cnd.bb))
        elif cnd.kind == "enum" and isinstance(truth, tuple) and truth in _ORD_SETS and cnd.place is not None:
            e = strip(X.place(body, cnd.place))
            if e[0] == "call" and e[1] in ("std::cmp::Ord::cmp",) and len(e[2]) == 2:
                out.append((e[2][0], _ORD_SETS[truth], e[2][1], cnd.bb))
            elif e[0] == "field" and e[1] == "0" and e[3] == "Some" and e[4][0] == "call" and e[4][1] == "std::cmp::PartialOrd::partial_cmp":
                out.append((e[4][2][0], _ORD_SETS[truth], e[4][2][1], cnd.bb))
    return out


_VARIANT_TESTS = {"std::option::Option::is_some": ("Some", "None"), "std::option::Option::is_none": ("None", "Some"),
                  "std::result::Result::is_ok": ("Ok", "Err"), "std::result::Result::is_err": ("Err", "Ok")}


def local_path_conditions(body, bb, max_paths=8):
    """like path_conditions, but the paths start at the highest dominator of bb from which at most `max_paths` acyclic
    paths lead to bb; what holds at that dominator (by dominance) is prefixed to each path.  The branching far above a
    merge point (and in the callers of a helper) does not multiply the cases that way."""
    if bb not in body.reachable:
        return []
    doms = sorted((d for d in body.dom.get(bb, ()) if d != bb), key=lambda d: -len(body.dom.get(d, ())))
    best = None
    for d in doms:
        p = path_conditions(body, bb, max_paths=max_paths, start=d)
        if p is None:
            break
        best = (d, p)
    if best is None:
        return None
    d, paths = best
    pre = list(dominating_conditions(body, d))
    return [pre + p for p in paths]


def path_conditions(body, bb, max_paths=64, max_len=400, start=0):
    """the conditions taken along each acyclic path entry->bb: [[(Cond, truth)], ..] (None if there are too many paths);
    used where a fact holds on every path without being forced by a single dominating branch
    (`(Some(a), _) => ..` reached from `tlv == None` and from the failed guard `a != b`)"""
    if bb not in body.reachable:
        return []
    can = set()
    stack = [bb]
    while stack:
        x = stack.pop()
        if x in can:
            continue
        can.add(x)
        stack.extend(body.pred[x])
    out = []

    def go(x, seen, conds):
        if len(out) > max_paths or len(conds) > max_len:
            raise OverflowError()
        if x == bb:
            out.append(list(conds))
            return
        t = body.term(x)
        succs = [y for y in body.succ[x] if y in can and y not in seen]
        c = decode_switch(body, x) if t["k"] == "switch" else None
        for y in succs:
            add = []
            if c is not None:
                if c.kind in ("cmp", "bool", "call"):
                    ft = bool_edge_targets(body, x)
                    if ft is not None and ft[0] != ft[1]:
                        truth = (y == ft[1])
                        if c.negated:
                            truth = not truth
                        add = [(c, truth)]
                elif c.kind == "enum":
                    names = [c.variants.get(v, v) for v, tg in t["arms"] if tg == y]
                    if y == t["otherwise"]:
                        covered = {c.variants.get(v, v) for v, tg in t["arms"]}
                        names += [n for n in c.variants.values() if n not in covered]
                    add = [(c, tuple(sorted(set(names))))]
                elif c.kind == "int":
                    vals = [v for v, tg in t["arms"] if tg == y]
                    add = [(c, ("not", tuple(v for v, tg in t["arms"])) if y == t["otherwise"] and not vals else ("in", tuple(vals)))]
            go(y, seen | {y}, conds + add)
    try:
        go(start, {start}, [])
    except (OverflowError, RecursionError):
        return None
    return out


def variant_facts(body, X, bb, _depth=0, conds=None):
    """[(expr, variants tuple, Cond)]: on every path entry->bb the value `expr` is one of `variants`; from `match`/`if let`
    (a switch on the discriminant) and from `if e.is_some()` / `is_none()` / `is_ok()` / `is_err()` alike"""
    from mir import strip
    out = []
    for c, truth in (dominating_conditions(body, bb) if conds is None else conds):
        if c.kind == "enum":
            out.append((strip(X.place(body, c.place)), truth, c))
        elif c.kind == "call" and c.call.name in _VARIANT_TESTS and c.call.args:
            t, f = _VARIANT_TESTS[c.call.name]
            out.append((strip(X.operand(body, c.call.args[0])), (t if truth else f,), c))
    # facts about the values those values were made from
    i = 0
    while i < len(out) and len(out) < 400:
        e, truth, c = out[i]
        i += 1
        # the value is V and every way of making it is an aggregate: it was made by the (single) V(..) aggregate, so
        # whatever holds where that aggregate is built holds here (e.g. `x.map_err(f)?`: Ok(..) is built on x's Ok arm)
        al = e[1] if e[0] == "phi" else (e,)
        if _depth < 3 and isinstance(truth, tuple) and all(a[0] == "agg" and a[2] for a in al):
            sel = [a for a in al if a[2] in truth]
            if len(sel) == 1 and len(sel[0]) > 4 and isinstance(sel[0][4], tuple) and sel[0][4][0] == body.cdef and isinstance(sel[0][4][1], int) \
                    and 0 <= sel[0][4][1] < len(body.blocks) and sel[0][4][1] != bb:
                for f in variant_facts(body, X, sel[0][4][1], _depth + 1):
                    if f not in out:
                        out.append(f)
        for a in (e[1] if e[0] == "phi" else (e,)):
            if a[0] != "call" or not a[2]:
                continue
            n, x = a[1], a[2][0]
            if e[0] == "phi" and len(e[1]) > 1:
                continue
            if n == "std::ops::Try::branch":
                if truth == ("Continue",):
                    out.append((x, ("Ok",), c))
                    out.append((x, ("Some",), c))
                elif truth == ("Break",):
                    out.append((x, ("Err",), c))
                    out.append((x, ("None",), c))
            elif n in _PRESERVING and truth in (("Ok",), ("Err",), ("Some",), ("None",)):
                out.append((x, truth, c))
            elif n in ("std::option::Option::ok_or", "std::option::Option::ok_or_else") and truth in (("Ok",), ("Err",)):
                out.append((x, ("Some",) if truth == ("Ok",) else ("None",), c))
            elif n == "std::result::Result::ok" and truth in (("Some",), ("None",)):
                out.append((x, ("Ok",) if truth == ("Some",) else ("Err",), c))
            elif n == "std::result::Result::err" and truth in (("Some",), ("None",)):
                out.append((x, ("Err",) if truth == ("Some",) else ("Ok",), c))
    return out


_PRESERVING = {"std::result::Result::map_err", "anyhow::Context::context", "anyhow::Context::with_context", "std::option::Option::as_ref",
               "std::option::Option::as_mut", "std::result::Result::as_ref", "std::result::Result::as_mut", "std::option::Option::as_deref",
               "std::result::Result::map", "std::option::Option::map", "std::option::Option::copied", "std::option::Option::cloned",
               "std::result::Result::inspect_err", "std::option::Option::inspect", "std::result::Result::inspect"}


def _int_constraints(body, bb):
    """{operand key: ("in", {values}) | ("not", {values})} from the integer `match` arms / `== const` tests forced on the way to bb,
    for operands that are assigned once (immutable)"""
    out = {}
    for c, truth in dominating_conditions(body, bb):
        if c.kind == "int" and c.place is not None and isinstance(truth, tuple) and truth and truth[0] in ("in", "not"):
            key = operand_key(body, {"k": "copy", "pl": c.place})
            try:
                vals = {int(v) for v in truth[1]}
            except (TypeError, ValueError):
                continue
        elif c.kind == "cmp" and c.op in ("Eq", "Ne"):
            ka, kb = operand_key(body, c.a), operand_key(body, c.b)
            if kb[0] == "const" and kb[1] is not None and ka[0] == "place":
                key, vals = ka, {int(kb[1])}
            elif ka[0] == "const" and ka[1] is not None and kb[0] == "place":
                key, vals = kb, {int(ka[1])}
            else:
                continue
            eq = (c.op == "Eq") == bool(truth)
            truth = ("in" if eq else "not", None)
        else:
            continue
        if key[0] != "place" or len(key) != 2:
            continue
        nd = len([d for d in body.defs.get(key[1], []) if not d[2]])
        if not ((1 <= key[1] <= body.arg_count and nd == 0) or nd == 1):
            continue
        kind = truth[0]
        if key in out:
            k0, v0 = out[key]
            if k0 == "in" and kind == "in":
                out[key] = ("in", v0 & vals)
            elif k0 == "in" and kind == "not":
                out[key] = ("in", v0 - vals)
            elif k0 == "not" and kind == "in":
                out[key] = ("in", vals - v0)
            else:
                out[key] = ("not", v0 | vals)
        else:
            out[key] = (kind, set(vals))
    return out


def _compatible(a, b):
    """can the two constraint sets hold together?"""
    for k, (ka, va) in a.items():
        if k not in b:
            continue
        kb, vb = b[k]
        if ka == "in" and kb == "in" and not (va & vb):
            return False
        if ka == "in" and kb == "not" and not (va - vb):
            return False
        if ka == "not" and kb == "in" and not (vb - va):
            return False
    return True


def const_bytes(e):
    """the bytes of a byte-string constant expression (`b"\\n\\n"`, possibly unsized): list of ints or None"""
    import ast
    x = e
    for _ in range(4):
        if x[0] == "cast":
            x = x[4]
    if x[0] == "const" and isinstance(x[1], str) and x[1].startswith('b"'):
        try:
            return list(ast.literal_eval(x[1]))
        except Exception:   # noqa
            return None
    return None


def const_len(e):
    """value of `<[T]>::len(constant byte string)` / of an integer constant expression; None otherwise"""
    if e[0] == "const" and e[2] is not None:
        return e[2]
    if e[0] == "call" and e[1].endswith("<impl [T]>::len") and e[2]:
        bs = const_bytes(e[2][0])
        if bs is not None:
            return len(bs)
    return None


# ---------------------------------------------------------------------------- intervals
def int_ty(ty):
    return ty if ty in INT_RANGES else None


def clip(iv, ty):
    lo, hi = INT_RANGES[ty]
    if iv is None:
        return (lo, hi)
    if iv[0] < lo or iv[1] > hi:
        return (lo, hi)   # wrapped: anything
    return iv


def fits(iv, ty):
    lo, hi = INT_RANGES[ty]
    return iv is not None and iv[0] >= lo and iv[1] <= hi


class Intervals:
    """non-relational interval evaluation of integer operands at a program point"""

    def __init__(self, body):
        self.body = body
        self.depth = 0
        self.bb = None
        self._conds = None
        self._in_refine = False

    def operand_ty(self, o):
        if o["k"] == "const":
            return int_ty(o.get("ty", ""))
        pl = o["pl"]
        if pl["p"]:
            last = [p for p in pl["p"] if p["k"] == "field"]
            if last and pl["p"][-1]["k"] == "field":
                return int_ty(pl["p"][-1].get("t", ""))
            if all(p["k"] == "deref" for p in pl["p"]):
                t = self.body.local_ty(pl["l"])
                t = re.sub(r"^&(mut )?", "", t)
                return int_ty(t)
            return None
        return int_ty(self.body.local_ty(pl["l"]))

    def at(self, o, bb):
        """interval of operand o when control is at block bb (None = unknown / not an integer)"""
        self.bb = bb
        self._conds = None
        iv = self._eval(o, 0)
        ty = self.operand_ty(o)
        if iv is None and ty:
            iv = INT_RANGES[ty]
        if iv is None:
            return None
        return self._refine(o, iv, bb)

    def conds(self):
        if self._conds is None:
            self._conds = dominating_conditions(self.body, self.bb) if self.bb is not None else []
        return self._conds

    # -- refinement by dominating comparisons
    def _refine(self, o, iv, bb):
        key = operand_key(self.body, o)
        if key[0] != "place":
            return iv
        # only immutable roots: a local with a single definition (or a parameter never reassigned)
        l = key[1]
        if len(key) == 2:
            nd = len([d for d in self.body.defs.get(l, []) if not d[2]])
            if not ((1 <= l <= self.body.arg_count and nd == 0) or nd == 1):
                return iv
        else:
            # field of something: only if nothing in the body writes that field path
            if self._field_written(key):
                return iv
        lo, hi = iv
        if self._in_refine:
            return iv
        self._in_refine = True
        try:
            return self._refine2(key, lo, hi)
        finally:
            self._in_refine = False

    def _refine2(self, key, lo, hi):
        for c, truth in self.conds():
            if c.kind == "int" and c.place is not None and operand_key(self.body, {"k": "copy", "pl": c.place}) == key and isinstance(truth, tuple):
                # `match x { 0 => .., 5 => .., _ => .. }`
                try:
                    vals = sorted(int(v) for v in truth[1])
                except (TypeError, ValueError):
                    vals = []
                if truth[0] == "in" and vals:
                    lo, hi = max(lo, vals[0]), min(hi, vals[-1])
                elif truth[0] == "not":
                    ch = True
                    while ch:
                        ch = False
                        if lo in vals:
                            lo += 1
                            ch = True
                        if hi in vals:
                            hi -= 1
                            ch = True
                continue
            if c.kind != "cmp":
                continue
            ka = operand_key(self.body, c.a)
            kb = operand_key(self.body, c.b)
            op = c.op
            if ka == key:
                other = self._eval(c.b, 0)
            elif kb == key:
                other = self._eval(c.a, 0)
                op = {"Lt": "Gt", "Le": "Ge", "Gt": "Lt", "Ge": "Le"}.get(op, op)
            else:
                continue
            if other is None:
                continue
            if not truth:
                op = {"Lt": "Ge", "Le": "Gt", "Gt": "Le", "Ge": "Lt", "Eq": "Ne", "Ne": "Eq"}[op]
            olo, ohi = other
            if op == "Lt":
                hi = min(hi, ohi - 1)
            elif op == "Le":
                hi = min(hi, ohi)
            elif op == "Gt":
                lo = max(lo, olo + 1)
            elif op == "Ge":
                lo = max(lo, olo)
            elif op == "Eq":
                lo = max(lo, olo)
                hi = min(hi, ohi)
            elif op == "Ne":
                if olo == ohi:
                    if lo == olo:
                        lo += 1
                    if hi == olo:
                        hi -= 1
        if lo > hi:
            return (lo, lo)  # dead code: any claim holds; keep a degenerate interval
        return (lo, hi)

    def _field_written(self, key):
        l = key[1]
        for d in self.body.defs.get(l, []):
            if d[2] and any(p["k"] == "field" for p in d[2]):
                return True
        return False

    def _eval(self, o, depth):
        r = self._eval0(o, depth)
        if r is not None and self.bb is not None and o.get("k") in ("copy", "move") and not self._in_refine:
            r = self._refine(o, r, self.bb)
        return r

    def _eval0(self, o, depth):
        if depth > 25:
            return None
        if o["k"] == "const":
            if "int" in o:
                v = int(o["int"])
                ty = int_ty(o.get("ty", ""))
                if ty and ty.startswith("i"):
                    bits = {"i8": 8, "i16": 16, "i32": 32, "i64": 64, "i128": 128, "isize": 64}[ty]
                    if v >= 2 ** (bits - 1):
                        v -= 2 ** bits
                return (v, v)
            return None
        if o["k"] not in ("copy", "move"):
            return None
        pl = o["pl"]
        body = self.body
        ty = self.operand_ty(o)
        projs = [p for p in pl["p"] if p["k"] != "deref"]
        if projs:
            # (_t.0) of a WithOverflow tuple or (x as Some).0 of a checked op
            if len(projs) == 1 and projs[0]["k"] == "field" and projs[0]["n"] == "0":
                d = single_def(body, pl["l"])
                if d and d[3] == "rv" and d[4]["k"] == "bin" and d[4]["op"].endswith("WithOverflow"):
                    r = self._binop(d[4]["op"][:-len("WithOverflow")], d[4]["a"], d[4]["b"], depth)
                    return clip(r, ty) if ty else r
            if len(projs) == 2 and projs[0]["k"] == "downcast" and projs[0]["v"] == "Some" and projs[1]["k"] == "field":
                d = single_def(body, pl["l"])
                if d and d[3] == "call":
                    c = Call(body, d[0], d[4])
                    m = re.match(r"core::num::<impl (\w+)>::checked_(add|sub|mul|div)$", c.name)
                    if m:
                        r = self._binop({"add": "Add", "sub": "Sub", "mul": "Mul", "div": "Div"}[m.group(2)], c.args[0], c.args[1], depth)
                        lo, hi = INT_RANGES[m.group(1)]
                        if r is None:
                            return (lo, hi)
                        return (max(r[0], lo), min(r[1], hi)) if max(r[0], lo) <= min(r[1], hi) else (lo, hi)
            return INT_RANGES[ty] if ty else None
        l = pl["l"]
        if 1 <= l <= body.arg_count:
            return INT_RANGES[ty] if ty else None
        defs = [d for d in body.defs.get(l, []) if not d[2]]
        if not defs:
            return INT_RANGES[ty] if ty else None
        res = None
        if len(defs) > 1 and self.bb is not None:
            # `let w = match tag { 253 => 2, 254 => 4, .. }` read where `tag == 255` is known: only the assignments
            # made under conditions that can hold together with the conditions known here contribute
            here = _int_constraints(body, self.bb)
            if here:
                keep = [d for d in defs if _compatible(_int_constraints(body, d[0]), here)]
                if keep:
                    defs = keep
        for d in defs:
            if d[3] == "rv":
                r = self._rv(d[4], depth + 1, ty)
            elif d[3] == "call":
                r = self._call(Call(body, d[0], d[4]), depth + 1, ty)
            else:
                r = None
            if r is None:
                r = INT_RANGES[ty] if ty else None
            if r is None:
                return None
            res = r if res is None else (min(res[0], r[0]), max(res[1], r[1]))
        return res

    def _rv(self, rv, depth, ty):
        k = rv["k"]
        if k == "use":
            return self._eval(rv["op"], depth)
        if k == "cast" and rv["ck"].startswith("IntToInt"):
            inner = self._eval(rv["op"], depth)
            to = int_ty(rv["to"])
            if inner is None:
                fr = int_ty(rv["from"])
                inner = INT_RANGES[fr] if fr else None
            if inner is None or to is None:
                return None
            return inner if fits(inner, to) else INT_RANGES[to]
        if k == "bin":
            op = rv["op"]
            if op in ("Eq", "Ne", "Lt", "Le", "Gt", "Ge"):
                return (0, 1)
            if op.endswith("WithOverflow"):
                return None
            r = self._binop(op, rv["a"], rv["b"], depth)
            return clip(r, ty) if ty and r is not None else r
        return None

    def _binop(self, op, a, b, depth):
        ia = self._eval(a, depth + 1)
        ib = self._eval(b, depth + 1)
        if ia is None:
            t = self.operand_ty(a)
            ia = INT_RANGES[t] if t else None
        if ib is None:
            t = self.operand_ty(b)
            ib = INT_RANGES[t] if t else None
        if ia is None or ib is None:
            return None
        return arith(op, ia, ib)

    def _call(self, c, depth, ty):
        name = c.name
        m = re.match(r"core::num::<impl (\w+)>::(saturating|wrapping)_(add|sub|mul)$", name)
        if m:
            t = m.group(1)
            r = self._binop({"add": "Add", "sub": "Sub", "mul": "Mul"}[m.group(3)], c.args[0], c.args[1], depth)
            lo, hi = INT_RANGES[t]
            if r is None:
                return (lo, hi)
            if m.group(2) == "saturating":
                return (min(max(r[0], lo), hi), max(min(r[1], hi), lo))
            return r if fits(r, t) else (lo, hi)
        if name in ("std::cmp::min", "std::cmp::Ord::min"):
            ia, ib = self._eval(c.args[0], depth), self._eval(c.args[1], depth)
            if ia and ib:
                return (min(ia[0], ib[0]), min(ia[1], ib[1]))
            return None
        if name in ("std::cmp::max", "std::cmp::Ord::max"):
            ia, ib = self._eval(c.args[0], depth), self._eval(c.args[1], depth)
            if ia and ib:
                return (max(ia[0], ib[0]), max(ia[1], ib[1]))
            return None
        if name in ("std::convert::Into::into", "std::convert::From::from") and c.args:
            inner = self._eval(c.args[0], depth)
            if inner is not None and ty and fits(inner, ty):
                return inner
            return None
        if name in ("bytes::Buf::remaining", "std::vec::Vec::len", "core::slice::<impl [T]>::len", "bytes::Bytes::len",
                    "bytes::BytesMut::len", "core::str::<impl str>::len", "std::string::String::len"):
            return (0, 2**63 - 1)
        return None


def arith(op, a, b):
    alo, ahi = a
    blo, bhi = b
    if op == "Add":
        return (alo + blo, ahi + bhi)
    if op == "Sub":
        return (alo - bhi, ahi - blo)
    if op == "Mul":
        c = [alo * blo, alo * bhi, ahi * blo, ahi * bhi]
        return (min(c), max(c))
    if op in ("Div", "Rem"):
        if blo <= 0 <= bhi:
            return None
        if op == "Rem":
            m = max(abs(blo), abs(bhi)) - 1
            return (0, m) if alo >= 0 else (-m, m)
        c = [alo // blo, alo // bhi, ahi // blo, ahi // bhi]
        return (min(c), max(c))
    if op in ("Shl", "Shr", "BitAnd", "BitOr", "BitXor"):
        return None
    return None


# ---------------------------------------------------------------------------- effect classes
EFFECT_PRIMS = [
    ("ANSWER", lambda c: c.name == "tokio::sync::oneshot::Sender::send" and "HtlcAcceptedResponse" in c.full),
    ("TABLE_INS", lambda c: c.name in ("std::collections::HashMap::entry", "std::collections::HashMap::insert") and "PaymentState" in c.full and "htlc_manager" in c.full),
    ("TABLE_REM", lambda c: c.name == "std::collections::HashMap::remove" and NM.PS() in c.full),
    ("PAY", lambda c: c.is_trait_method("payment_provider::PaymentProvider", "pay") or c.is_trait_method("rpc::ClnRpc", "pay")),
    ("WAIT", lambda c: c.is_trait_method("payment_provider::PaymentProvider", "wait_payment") or c.is_trait_method("rpc::ClnRpc", "listsendpays") or c.is_trait_method("rpc::ClnRpc", "waitsendpay")),
    ("STORE_R", lambda c: c.is_trait_method("store::Datastore", "fetch_payment_info") or c.is_trait_method("rpc::ClnRpc", "listdatastore")),
    ("STORE_W", lambda c: (c.is_trait_method("store::Datastore") and c.mname in ("add_payment_attempt", "mark_failed", "mark_succeeded")) or c.is_trait_method("rpc::ClnRpc", "datastore")),
    ("HEIGHT", lambda c: c.is_trait_method("block_watcher::BlockProvider", "current_height") or c.is_trait_method("rpc::ClnRpc", "get_info")),
    ("NOTIFY", lambda c: c.is_trait_method("email::NotificationService", "notify_payment_failed")),
    ("SPAWN", lambda c: c.name in ("tokio::spawn", "tokio::task::spawn")),
    ("LOCK", lambda c: c.name in ("tokio::sync::Mutex::lock", "std::sync::Mutex::lock", "tokio::sync::Mutex::try_lock", "std::sync::Mutex::try_lock", "tokio::sync::Mutex::blocking_lock",
                                  "tokio::sync::Mutex::lock_owned", "tokio::sync::Mutex::try_lock_owned", "tokio::sync::RwLock::read", "tokio::sync::RwLock::write", "tokio::sync::RwLock::try_read",
                                  "tokio::sync::RwLock::try_write", "std::sync::RwLock::read", "std::sync::RwLock::write", "tokio::sync::Semaphore::acquire", "tokio::sync::Semaphore::try_acquire", "tokio::sync::Semaphore::acquire_owned", "tokio::sync::Semaphore::acquire_many", "tokio::sync::Semaphore::try_acquire_owned")),
    ("CHAN", lambda c: c.name in ("tokio::sync::mpsc::Sender::send", "tokio::sync::mpsc::Receiver::recv", "tokio::sync::mpsc::Receiver::try_recv", "tokio::sync::mpsc::Receiver::recv_many",
                                  "tokio::sync::mpsc::Sender::try_send")),
    ("SLEEP", lambda c: c.name == "tokio::time::sleep"),
    ("OUT", lambda c: c.name == "futures::SinkExt::send"),
    ("RPCCONN", lambda c: c.name in ("cln_rpc::ClnRpc::new", "cln_rpc::ClnRpc::call_typed", "cln_rpc::ClnRpc::call")),
]


def call_effects(c):
    return [n for n, p in EFFECT_PRIMS if p(c)]


def may_effects(F, root_cdef, _memo=None, _stack=None):
    """MAY effect summary of a fn group, following calls to local functions (bottom-up, with cycle cut).
    returns dict effect -> list of (call) witnesses"""
    if _memo is None:
        _memo = {}
    if _stack is None:
        _stack = set()
    if root_cdef in _memo:
        return _memo[root_cdef]
    if root_cdef in _stack:
        return {}
    _stack.add(root_cdef)
    res = {}
    for b in F.group(root_cdef):
        for c in b.calls:
            if c.noise:
                continue
            for e in call_effects(c):
                res.setdefault(e, []).append(c)
            callee = c.resolved or c.name
            if callee in F.fns or F.group(callee):
                sub = may_effects(F, callee, _memo, _stack)
                for e, w in sub.items():
                    res.setdefault(e, []).extend(w[:1])
    _stack.discard(root_cdef)
    _memo[root_cdef] = res
    return res


def has_yield(F, root_cdef):
    for b in F.group(root_cdef):
        if b.yields():
            return True
    return False


# ---------------------------------------------------------------------------- await helpers
def await_of_call(body, call):
    """for a call producing a future: the blocks of the await loop consuming it.
    returns dict {into_future_bb, poll_bb, ready_bb, yield_bbs} or None if the future is not awaited
    in this body via the .await desugaring."""
    # follow dest through moves to an IntoFuture::into_future call
    dest = call.dest["l"]
    cur = {dest}
    into = None
    for _ in range(6):
        nxt = set()
        for c in body.calls:
            if c.name == "std::future::IntoFuture::into_future" and c.args and c.args[0]["k"] in ("copy", "move") and c.args[0]["pl"]["l"] in cur:
                into = c
                break
        if into:
            break
        for l, ds in body.defs.items():
            for d in ds:
                if d[3] == "rv" and d[4]["k"] in ("use",) and d[4]["op"]["k"] in ("copy", "move") and d[4]["op"]["pl"]["l"] in cur and not d[4]["op"]["pl"]["p"]:
                    nxt.add(l)
                # Box::pin(fut) / tracing instrument wrappers
            for d in ds:
                if d[3] == "call":
                    cc = Call(body, d[0], d[4])
                    if cc.name in ("std::boxed::Box::pin", "tracing::Instrument::instrument", "std::pin::pin", "std::pin::Pin::new") and cc.args and cc.args[0]["k"] in ("copy", "move") and cc.args[0]["pl"]["l"] in cur:
                        nxt.add(l)
        if not nxt - cur:
            break
        cur |= nxt
    if into is None:
        return None
    # the awaitee local: into.dest moved into __awaitee; poll calls whose arg roots at it
    aw = {into.dest["l"]}
    for _ in range(4):
        for l, ds in body.defs.items():
            for d in ds:
                if d[3] == "rv" and d[4]["k"] in ("use", "ref") :
                    src = d[4].get("op", {}).get("pl") if d[4]["k"] == "use" else d[4]["pl"]
                    if src and src["l"] in aw:
                        aw.add(l)
                elif d[3] == "call":
                    cc = Call(body, d[0], d[4])
                    if cc.name == "std::pin::Pin::new_unchecked" and cc.args and cc.args[0]["k"] in ("copy", "move") and cc.args[0]["pl"]["l"] in aw:
                        aw.add(l)
    polls = [c for c in body.calls if c.name.endswith("Future::poll") and c.args and c.args[0]["k"] in ("copy", "move") and c.args[0]["pl"]["l"] in aw]
    if not polls:
        return None
    poll = polls[0]
    # ready edge: switch on discr of poll result
    sw = poll.target
    ready = None
    pending = None
    if sw is not None and body.term(sw)["k"] == "switch":
        ready = enum_arm_target(body, sw, "Ready")
        pending = enum_arm_target(body, sw, "Pending")
    return {"into": into, "poll": poll, "switch": sw, "ready": ready, "pending": pending}


# ---------------------------------------------------------------------------- path-sensitive intervals
def path_intervals(body, var_operand, stops, start=0, init=None, limit=20000):
    """enumerate acyclic paths from `start`; along each, refine the interval of the (immutable)
    integer `var_operand` by every comparison of it against a constant; infeasible paths are pruned.
    Returns (dict stop_block -> list of intervals, list of (interval, terminal_block) for paths that end
    without reaching a stop) or None when the path limit is exceeded."""
    key = operand_key(body, var_operand)
    iv0 = Intervals(body)
    ty = iv0.operand_ty(var_operand)
    if init is None:
        init = INT_RANGES[ty] if ty else (0, 2**64 - 1)
    stops = set(stops)
    res = {}
    dead_ends = []
    count = [0]
    # `uN::try_from(var)`: on its Ok arm var fits in N bits (and the payload IS var), on its Err arm it does not
    keys = {key}
    tf = {}
    for c_ in body.calls:
        if (c_.name.endswith("TryFrom::try_from") or c_.name.endswith("TryInto::try_into")) and c_.args and operand_key(body, c_.args[0]) == key and not c_.dest["p"]:
            m_ = re.match(r"^std::result::Result<([ui]\d+|usize),", (c_.t.get("rty") or ""))
            if m_ and m_.group(1) in INT_RANGES:
                tf[c_.dest["l"]] = INT_RANGES[m_.group(1)]
                keys.add(operand_key(body, {"k": "copy", "pl": {"l": c_.dest["l"], "p": [{"k": "downcast", "v": "Ok"}, {"k": "field", "i": 0, "n": "0"}]}}))

    def cmp_refine(c, truth, lo, hi):
        ka, kb = operand_key(body, c.a), operand_key(body, c.b)
        op = c.op
        if ka in keys and kb[0] == "const" and kb[1] is not None:
            k = int(kb[1])
        elif kb in keys and ka[0] == "const" and ka[1] is not None:
            k = int(ka[1])
            op = {"Lt": "Gt", "Le": "Ge", "Gt": "Lt", "Ge": "Le"}.get(op, op)
        else:
            return lo, hi
        if not truth:
            op = {"Lt": "Ge", "Le": "Gt", "Gt": "Le", "Ge": "Lt", "Eq": "Ne", "Ne": "Eq"}[op]
        if op == "Lt":
            hi = min(hi, k - 1)
        elif op == "Le":
            hi = min(hi, k)
        elif op == "Gt":
            lo = max(lo, k + 1)
        elif op == "Ge":
            lo = max(lo, k)
        elif op == "Eq":
            lo, hi = max(lo, k), min(hi, k)
        elif op == "Ne":
            if lo == k:
                lo += 1
            if hi == k:
                hi -= 1
        return lo, hi

    def go(bb, lo, hi, seen):
        count[0] += 1
        if count[0] > limit:
            raise OverflowError()
        if bb in stops:
            res.setdefault(bb, []).append((lo, hi))
            return
        t = body.term(bb)
        succs = body.succ[bb]
        if not succs:
            dead_ends.append(((lo, hi), bb))
            return
        if t["k"] == "switch":
            c = decode_switch(body, bb)
            ft = bool_edge_targets(body, bb)
            if c is not None and c.kind == "cmp" and ft is not None and ft[0] != ft[1]:
                for truth, tg in ((False, ft[0]), (True, ft[1])):
                    tr = (not truth) if c.negated else truth
                    l2, h2 = cmp_refine(c, tr, lo, hi)
                    if l2 <= h2 and tg not in seen:
                        go(tg, l2, h2, seen | {tg})
                return
            if c is not None and c.kind == "enum" and c.place is not None and c.place["l"] in tf and not [p for p in c.place["p"] if p["k"] != "deref"]:
                tlo, thi = tf[c.place["l"]]
                names = c.variants
                done = set()
                for v, tg in t["arms"]:
                    nm = names.get(v, v)
                    l2, h2 = (max(lo, tlo), min(hi, thi)) if nm == "Ok" else ((max(lo, thi + 1), hi) if nm == "Err" else (lo, hi))
                    done.add(nm)
                    if l2 <= h2 and tg not in seen:
                        go(tg, l2, h2, seen | {tg})
                rest = [n for n in names.values() if n not in done]
                if rest and t["otherwise"] not in seen:
                    for nm in rest:
                        l2, h2 = (max(lo, tlo), min(hi, thi)) if nm == "Ok" else ((max(lo, thi + 1), hi) if nm == "Err" else (lo, hi))
                        if l2 <= h2:
                            go(t["otherwise"], l2, h2, seen | {t["otherwise"]})
                return
            if c is not None and c.kind == "int" and c.place is not None and operand_key(body, {"k": "copy", "pl": c.place}) in keys:
                covered = []
                for v, tg in t["arms"]:
                    k = int(v)
                    covered.append(k)
                    if lo <= k <= hi and tg not in seen:
                        go(tg, k, k, seen | {tg})
                # otherwise: the interval minus covered points (kept as one interval when points are at the ends)
                l2, h2 = lo, hi
                for k in sorted(covered):
                    if k == l2:
                        l2 += 1
                for k in sorted(covered, reverse=True):
                    if k == h2:
                        h2 -= 1
                if l2 <= h2 and t["otherwise"] not in seen:
                    go(t["otherwise"], l2, h2, seen | {t["otherwise"]})
                return
        for tg in succs:
            if tg not in seen:
                go(tg, lo, hi, seen | {tg})

    try:
        go(start, init[0], init[1], {start})
    except OverflowError:
        return None
    return res, dead_ends


def merge_intervals(ivs):
    """union of intervals as a sorted list of disjoint intervals"""
    out = []
    for lo, hi in sorted(ivs):
        if out and lo <= out[-1][1] + 1:
            out[-1] = (out[-1][0], max(out[-1][1], hi))
        else:
            out.append((lo, hi))
    return out


def next_calls(body, bb, pred, stop_pred=None, maxn=12):
    """calls satisfying pred reachable from bb by following single-successor chains (straight-line)"""
    out = []
    seen = set()
    cur = bb
    while cur is not None and cur not in seen and len(seen) < maxn:
        seen.add(cur)
        t = body.term(cur)
        if t["k"] == "call":
            c = Call(body, cur, t)
            if pred(c):
                out.append(c)
            elif stop_pred and stop_pred(c):
                break
        s = body.succ[cur]
        if len(s) != 1:
            break
        cur = s[0]
    return out
