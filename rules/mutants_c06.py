H = "src/htlc_manager.rs"
T = "src/tlv.rs"
M = "src/messages.rs"
MUTANTS = [
    {"name": "revert-D2", "control": True, "expect": ["C06-P1"],
     "edits": [(T, "if self.remaining() < 2 {\n                    return Err(anyhow!(\"unexpected end of data in compact size\"));\n                }\n", "")]},
    {"name": "revert-D6", "control": True, "expect": ["C06-P1"],
     "edits": [(H, "        self.amount_received_msat = self\n            .amount_received_msat\n            .saturating_add(req.htlc.amount_msat);", "        self.amount_received_msat += req.htlc.amount_msat;")]},
    {"name": "revert-D3", "expect": ["C06-P1"],
     "edits": [(M, "        match invoice_msat.checked_add(fee_msat) {\n            Some(required_msat) => total_msat >= required_msat,\n            None => false,\n        }", "        total_msat >= invoice_msat + fee_msat")]},
    {"name": "new-unwrap-on-total", "control": True, "expect": ["C06-P1"],
     "edits": [(H, "            let total_msat = match req.onion.total_msat {\n                Some(total_msat) => total_msat,\n                None => forward_msat,\n            };", "            let total_msat = req.onion.total_msat.unwrap();\n            let _ = forward_msat;")]},
    {"name": "extra-resolve-after-mark-failed", "expect": ["C06-P2", "C06-P1"],
     "edits": [(H, "            if let Err(e) = params.store.mark_failed(&trampoline, &attempt_id).await {\n                error!(\"Failed to mark payment as failed: {:?}\", e);\n            }", "            if let Err(e) = params.store.mark_failed(&trampoline, &attempt_id).await {\n                error!(\"Failed to mark payment as failed: {:?}\", e);\n                resolve(&payments, &trampoline, HtlcAcceptedResponse::temporary_node_failure()).await;\n            }")]},
    {"name": "resolve-future-dropped", "expect": ["C06-P2"],
     "edits": [(H, "            debug!(\"Payment fail requested.\");\n            resolve(&payments, &trampoline, failure).await;\n            return;", "            debug!(\"Payment fail requested.\");\n            let _ = resolve(&payments, &trampoline, failure);\n            return;")]},
    {"name": "is-ready-reset-in-add", "expect": ["C06-P6"],
     "edits": [(H, "        self.htlcs.push(sender);\n        if !self.is_ready", "        self.htlcs.push(sender);\n        if req.htlc.amount_msat == 1 { self.is_ready = false; }\n        if !self.is_ready")]},
    {"name": "channel-capacity-zero", "expect": ["C06-P1", "C06-P6"],
     "edits": [(H, "let (s1, r1) = mpsc::channel(1);", "let (s1, r1) = mpsc::channel(0);")]},
    {"name": "lock-held-across-fetch", "expect": ["C06-P6"],
     "edits": [(H, "    let state = match params.store.fetch_payment_info(&trampoline).await {", "    let _early_guard = payments.lock().await;\n    let state = match params.store.fetch_payment_info(&trampoline).await {"), (H, "    let time_left = match state {", "    drop(_early_guard);\n    let time_left = match state {")]},
    {"name": "drain-breaks-after-first", "expect": ["C06-P3"],
     "edits": [(H, "                Err(e) => error!(\"htlc listener hung up, could not send response {:?}\", e),\n            };", "                Err(e) => { error!(\"htlc listener hung up, could not send response {:?}\", e); break; }\n            };")]},
    {"name": "handler-skips-add-on-conflict", "expect": ["C06-P4", "C06-P1"],
     "edits": [(H, "                payment_state\n                    .fail(HtlcAcceptedResponse::temporary_trampoline_failure())\n                    .await;\n            }", "                payment_state\n                    .fail(HtlcAcceptedResponse::temporary_trampoline_failure())\n                    .await;\n                drop(payments);\n                return receiver.await.unwrap_or(HtlcAcceptedResponse::temporary_node_failure());\n            }")]},
    {"name": "fail-no-flag", "expect": ["C06-P6"],
     "edits": [(H, "            self.is_ready = false;\n            self.is_fail_requested = true;\n", "            self.is_ready = false;\n")]},
]
from mutants_common import EQUIV_LC as EQUIV
