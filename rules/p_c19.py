"""C19 - startup configuration is validated and applied faithfully (DESIGN 5/C19)."""
import re
from mir import Call, canon, loc, strip, walk, alts, show
import lib
import rules_lc as R
import rules_provider as P
import rules_pay as PY

EXPLANATION = (
    "Decides on main()'s MIR (never executed by any test): (W) the provenance of every configured parameter: each sink (HtlcManagerParams fields, the "
    "routing policy's three fields, PayPaymentProvider::new's timeout and xpay arguments) is reached from cp.option(&CONST) of the expected option "
    "name through `?`, a checked TryInto to the sink's declared width, Duration::from_secs or a boolean Not only - no `as` cast, no arithmetic; local_pubkey "
    "is getinfo.id; (R) every option read was registered with Builder::option; (O) ConfiguredPlugin::start (the init reply) is reachable only when "
    "policy delta > safety delta and is dominated by every conversion; (C) retry_for = try_into(timeout secs) saturating at u16::MAX and is forwarded; "
    "(D) the policy aggregate built in main is the one stored in HtlcManagerParams.routing_policy; (J) the framework stores the init message's option values verbatim (as_i64 for numbers, the JSON payload itself for booleans and strings; defaults only for absent options). CLN's own option parsing is not decided."
)
ASSUMPTIONS = ["cln_plugin's option() returns the value the node sent (or the default)", "TryInto between integer types fails exactly when the value does not fit"]

WIRING = [
    ("htlc_manager::HtlcManagerParams", "cltv_delta", "trampoline-cltv-delta", "u16", ()),
    ("messages::TrampolineRoutingPolicy", "cltv_expiry_delta", "trampoline-policy-cltv-delta", "u16", ()),
    ("messages::TrampolineRoutingPolicy", "fee_base_msat", "trampoline-policy-fee-base", "u32", ()),
    ("messages::TrampolineRoutingPolicy", "fee_proportional_millionths", "trampoline-policy-fee-per-satoshi", "u32", ()),
    ("htlc_manager::HtlcManagerParams", "mpp_timeout", "trampoline-mpp-timeout", "u64", ("from_secs",)),
    ("htlc_manager::HtlcManagerParams", "allow_self_route_hints", "trampoline-no-self-route-hints", "bool", ("not",)),
]


def i_params_immutable(F, X, rep, rid):
    rep.rule(rid, "the configured parameters are used as configured: no field of HtlcManagerParams / TrampolineRoutingPolicy is assigned or mutably borrowed after the value was constructed (a policy adjusted on its way in is enforced and advertised instead of the configured one)")
    import rules_hh as HH
    n = 0
    for adt in ("htlc_manager::HtlcManagerParams", "messages::TrampolineRoutingPolicy"):
        a = F.adts.get(adt)
        if not a or not a.get("variants"):
            continue
        for f in a["variants"][0]["fields"]:
            n += 1
            writes, borrows = HH.field_writes(F, adt, f["n"])
            writes = [w for w in writes if not HH.mm.derive_like(w[0])]
            borrows = [w for w in borrows if not HH.mm.derive_like(w[0])]
            bad = writes or borrows
            rep.ob(rid, not bad, adt, "%s.%s is never modified" % (adt.split("::")[-1], f["n"]), where=loc(bad[0][2]["sp"]) if bad else "", how="no assignment / &mut borrow",
                   detail="" if not bad else "%s.%s is modified at %s after construction: the value in force differs from the configured one" % (adt.split("::")[-1], f["n"], loc(bad[0][2]["sp"])), nontrivial=False)
    rep.anchor(rid, "fields of HtlcManagerParams and TrampolineRoutingPolicy", n, 6)


def j_init_values_verbatim(F, X, rep, rid):
    rep.rule(rid, "the plugin framework stores the option value lightningd sent, verbatim: an integer option is the JSON number's as_i64() - no narrowing (as_u64, try_from) whose failure would fall back to the default")
    n = 0
    for b in F.code_bodies():
        if "src/cln_plugin/" not in b.span.get("f", ""):
            continue
        for bi in sorted(b.reachable):
            for s in b.blocks[bi]["s"]:
                if s["k"] == "assign" and s["rv"]["k"] == "agg" and canon(s["rv"].get("adt") or "") == "cln_plugin::options::Value" and s["rv"].get("variant") == "Integer" and s["rv"]["ops"]:
                    e = strip(X.operand(b, s["rv"]["ops"][0]))
                    calls = [y[1] for y in walk(e) if y[0] == "call"]
                    if not any("serde_json" in c_ for c_ in calls):
                        continue            # not the conversion from the init message (a literal default, a test)
                    n += 1
                    ok = any(c_.endswith("Number::as_i64") or c_.endswith("Value::as_i64") for c_ in calls) and not any(c_.endswith("as_u64") or c_.endswith("as_f64") or "try_from" in c_ or "try_into" in c_ for c_ in calls)
                    rep.ob(rid, ok, F.root_of(b), "integer option value is the JSON number's as_i64()", where=loc(s["sp"]), how=show(e)[:80],
                           detail="" if ok else "an integer option is stored as %s: a configured value that does not convert (negative, large) is not refused - the option's default is used instead" % show(e)[:100])
    rep.anchor(rid, "conversion of the init message's numbers into option values", n, 1)
    # booleans and strings likewise: the stored value is the JSON value's payload itself
    nb = 0
    for b in F.code_bodies():
        if "src/cln_plugin/" not in b.span.get("f", ""):
            continue
        for bi in sorted(b.reachable):
            for s in b.blocks[bi]["s"]:
                if not (s["k"] == "assign" and s["rv"]["k"] == "agg" and canon(s["rv"].get("adt") or "") == "cln_plugin::options::Value" and s["rv"].get("variant") in ("Boolean", "String") and s["rv"]["ops"]):
                    continue
                var = s["rv"]["variant"]
                e = strip(X.operand(b, s["rv"]["ops"][0]))
                jv = "Bool" if var == "Boolean" else "String"
                src = [y for y in walk(e) if y[0] == "field" and "serde_json" in str(y[2]) and y[3] == jv]
                if not src:
                    continue                # a literal default / a test value
                nb += 1
                if var == "Boolean":
                    ok = all(a[0] == "field" and "serde_json" in str(a[2]) and a[3] == "Bool" for a in alts(e))
                else:
                    def peel(a):
                        for _ in range(6):
                            if a[0] == "call" and a[2] and a[1].split("::")[-1] in ("to_string", "clone", "to_owned", "from", "into", "as_str", "deref", "borrow", "as_ref"):
                                a = strip(a[2][0])
                            else:
                                break
                        return a
                    ok = all((lambda a: a[0] == "field" and "serde_json" in str(a[2]) and a[3] == "String")(peel(a)) for a in alts(e))
                rep.ob(rid, ok, F.root_of(b), "%s option value is the JSON value's payload" % var.lower(), where=loc(s["sp"]), how=show(e)[:80],
                       detail="" if ok else "a %s option is stored as %s, not as the value lightningd sent" % (var.lower(), show(e)[:100]))
    rep.anchor(rid, "conversion of the init message's booleans/strings into option values", nb, 2)
    # an option's default is taken only where lightningd sent no value for it
    nd = 0
    for b in F.code_bodies():
        if "src/cln_plugin/" not in b.span.get("f", ""):
            continue
        for c in b.calls:
            if c.noise or not c.name.endswith("Clone::clone") or "options::Value" not in (c.full or "") or not c.args or b.cdef.endswith("Clone>::clone"):
                continue
            import model_msgs as mm_
            e = strip(mm_.expand_params(F, X, strip(X.operand(b, c.args[0])), depth=2))     # (the match may sit in a helper taking both values)
            if not any(y[0] == "call" and y[1].endswith("ConfigOption::default") for y in walk(e)) and \
                    not any(y[0] == "field" and y[1] == "default" and "ConfigOption" in str(y[2]) for y in alts(e)):
                continue
            nd += 1
            absent = False
            for fe, truth, _c in lib.variant_facts(b, X, c.bb):
                fx = strip(mm_.expand_params(F, X, strip(fe), depth=2))
                if truth == ("None",) and any(y[0] == "call" and y[1].endswith("HashMap::get") and "options" in show(y) for y in walk(fx)):
                    absent = True
            rep.ob(rid, absent, F.root_of(b), "default used only for an option lightningd did not send", where=c.loc, how="under `options.get(name) == None`",
                   detail="" if absent else "the option's default is taken at %s although lightningd may have sent a value: the configured value is ignored (and an out-of-range one is not refused)" % c.loc)
    rep.anchor(rid, "use of an option's default in the init handler", nd, 1)


def main_body(F):
    c = [b for b in F.code_bodies() if b.coroutine and "cln_plugin/" not in b.span.get("f", "") and any(x.name == "cln_plugin::ConfiguredPlugin::start" for x in b.calls)]
    return c[0] if len(c) == 1 else None


def analyse_chain(e):
    """-> (option name | None, wrappers used, problems)"""
    wr = []
    probs = []
    x = e
    for _ in range(12):
        if x[0] == "try":
            x = x[1]
        elif x[0] == "field" and x[3] in ("Ok", "Continue", "Some") and x[1] == "0":
            x = x[4]
        elif x[0] == "call" and x[1] == "std::time::Duration::from_secs" and x[2]:
            wr.append("from_secs")
            x = x[2][0]
        elif x[0] == "un" and x[1] == "Not":
            wr.append("not")
            x = x[2]
        elif x[0] == "call" and x[1] in ("std::convert::TryInto::try_into", "std::convert::TryFrom::try_from") and x[2]:
            wr.append("try_into:" + (x[4].t.get("rty", "")))
            x = x[2][0]
        elif x[0] == "cast":
            probs.append("`as` cast %s -> %s" % (x[2], x[3]))
            x = x[4]
        elif x[0] == "bin":
            probs.append("arithmetic %s" % x[1])
            return None, wr, probs
        elif x[0] == "call" and x[1] in ("cln_plugin::ConfiguredPlugin::option", "cln_plugin::Plugin::option"):
            opt = x[2][1] if len(x[2]) > 1 else None
            name = None
            for y in walk(opt):
                if y[0] == "call" and y[1].startswith("cln_plugin::options::ConfigOption::new_") and y[2]:
                    n = y[2][0]
                    if n[0] == "const":
                        name = n[1].strip('"')
            return name, wr, probs
        elif x[0] == "call" and x[1] in ("std::option::Option::unwrap_or", "std::result::Result::unwrap_or", "std::option::Option::unwrap_or_default", "std::result::Result::unwrap_or_default"):
            probs.append("fallback value via %s" % x[1].split("::")[-1])
            x = x[2][0]
        elif x[0] == "call":
            probs.append("call %s" % x[1])
            return None, wr, probs
        else:
            break
    return None, wr, probs + ["chain ends in %s" % show(x)[:60]]


def run(F, X, rep):
    b = main_body(F)
    if not rep.anchor("C19-W", "main coroutine (the one calling ConfiguredPlugin::start)", 1 if b else 0):
        return
    fn = F.root_of(b)
    w_wiring(F, X, rep, b, fn)
    r_registered(F, X, rep, b, fn)
    o_gate(F, X, rep, b, fn)
    C = R.Ctx.get(F, X)
    P.c_retry_cap(C, rep, "C19-C")
    P.r6_verbatim(C, rep, "C19-C")
    if R.need_lc(C, rep, "C19-C"):
        PY.e_maxdelay(C, rep, "C19-C")
    i_params_immutable(F, X, rep, "C19-I")
    j_init_values_verbatim(F, X, rep, "C19-J")
    # "runs with exactly those values": the configured MPP timeout is what the lifecycle sleeps on, for every accepted value
    if R.need_lc(C, rep, "C19-T"):
        R.t1_timer_value(C, rep, "C19-T")


def _agg_fields(F, X, b, adt):
    out = []
    for bi in sorted(b.reachable):
        for s in b.blocks[bi]["s"]:
            if s["k"] == "assign" and s["rv"]["k"] == "agg" and s["rv"].get("adt") == adt:
                out.append((bi, s, {f: strip(X.operand(b, o)) for f, o in zip(s["rv"]["fields"], s["rv"]["ops"])}))
    return out


def w_wiring(F, X, rep, b, fn, rid="C19-W"):
    rep.rule(rid, "each parameter is cp.option(expected option) through checked conversions only")
    aggs = {}
    for adt in ("htlc_manager::HtlcManagerParams", "messages::TrampolineRoutingPolicy"):
        a = _agg_fields(F, X, b, adt)
        if not a and adt == "messages::TrampolineRoutingPolicy" and aggs.get("htlc_manager::HtlcManagerParams"):
            # built by a conversion (`TrampolineRoutingPolicy::from(&options)`): the aggregate that conversion returns, its
            # parameters replaced by the caller's arguments
            import model_msgs as mm
            pbi, ps, pd = aggs["htlc_manager::HtlcManagerParams"]
            rp = pd.get("routing_policy")
            if rp is not None:
                rp2 = strip(mm.inline_pure(F, X, rp, keep=lambda n: n.startswith("cln_plugin::") or n.startswith("<cln_plugin::")))
                if all(y[0] == "agg" and y[1] == adt for y in alts(rp2)):
                    a = [(pbi, ps, {f: strip(e) for f, e in y[3]}) for y in alts(rp2)]
                    pd["routing_policy"] = rp2
        rep.anchor(rid, "construction of %s in main" % adt, len(a), 1, fn=fn)
        if a:
            aggs[adt] = a[0]
            aggs[adt + "#all"] = a
    for adt, field, opt, width, wrappers in [w for w in WIRING for _ in range(1)]:
      for (bi, s, d) in aggs.get(adt + "#all", []):
        e = d.get(field)
        if e is not None:
            import model_msgs as mm
            e = mm.inline_pure(F, X, e, keep=lambda n: n.startswith("cln_plugin::") or n.startswith("<cln_plugin::"))
        name, wr, probs = analyse_chain(e) if e is not None else (None, [], ["field missing"])
        ok = name == opt and not probs
        rep.ob(rid, ok, fn, "%s.%s <- option %s" % (adt.split("::")[-1], field, opt), where=loc(s["sp"]), how="%s via %s" % (name, wr),
               detail="" if ok else "%s.%s is configured from %s%s (expected option `%s`)" % (adt.split("::")[-1], field, ("option `%s`" % name) if name else "?", ("; " + "; ".join(probs)) if probs else "", opt))
        if ok:
            for w in wrappers:
                okw = w in wr
                rep.ob(rid, okw, fn, "%s uses %s" % (field, w), where=loc(s["sp"]), how=str(wr), detail="" if okw else "%s is not wrapped with %s" % (field, w), nontrivial=False)
            if "not" not in wrappers and "not" in wr:
                rep.ob(rid, False, fn, "%s polarity" % field, where=loc(s["sp"]), detail="%s is negated" % field)
            if width not in ("bool",):
                ti = [w for w in wr if w.startswith("try_into:")]
                # (a generic helper `fn integer<T: TryFrom<i64>>(..) -> Result<T>`: T is the sink's declared width - checked below - since no `as` cast lies between)
                okt = len(ti) == 1 and (("Result<%s," % width) in ti[0].replace("std::result::", "") or re.match(r"^try_into:Result<[A-Z]\w*, <[A-Z]\w* as std::convert::TryFrom<i64>>::Error>$", ti[0].replace("std::result::", "")) is not None)
                rep.ob(rid, okt, fn, "%s converted with a checked TryInto<%s>" % (field, width), where=loc(s["sp"]), how=str(ti)[:80],
                       detail="" if okt else "%s is converted by %s (expected a checked conversion to %s)" % (field, ti or "nothing", width))
            # declared width of the sink
            a = F.adts.get(adt)
            if a and width != "bool":
                fs = {f["n"]: f["ty"] for f in a["variants"][0]["fields"]}
                dt = fs.get(field, "")
                okd = dt == width or (field == "mpp_timeout" and dt == "std::time::Duration")
                rep.ob(rid, okd, adt, "declared width of %s" % field, how=dt, detail="" if okd else "%s is declared %s" % (field, dt), nontrivial=False)
    # routing policy stored in the params is the aggregate built here (D)
    if "htlc_manager::HtlcManagerParams" in aggs:
        bi, s, d = aggs["htlc_manager::HtlcManagerParams"]
        rp = d.get("routing_policy")
        ok = rp is not None and all(a[0] == "agg" and a[1] == "messages::TrampolineRoutingPolicy" for a in alts(rp))
        rep.ob("C19-D" if rid == "C19-W" else rid, ok, fn, "params.routing_policy is the policy built from the options", where=loc(s["sp"]), how="same aggregate", detail="" if ok else "params.routing_policy is %s" % show(rp)[:100])
        lp = d.get("local_pubkey")
        okl = lp is not None and all(a[0] == "field" and a[1] == "id" and any(y[0] == "call" and y[1] == "rpc::ClnRpc::get_info" for y in walk(a)) for a in alts(lp))
        rep.ob(rid, okl, fn, "local_pubkey <- getinfo.id", where=loc(s["sp"]), how=show(lp)[:60] if lp else "?", detail="" if okl else "local_pubkey is %s" % (show(lp)[:80] if lp else "?"))
    # provider constructor
    pn = [c for c in b.calls if c.name == "payment_provider::PayPaymentProvider::new"]
    rep.anchor(rid, "PayPaymentProvider::new call", len(pn), 1, fn=fn)
    for c in pn:
        e1 = strip(X.operand(b, c.args[1]))
        name, wr, probs = analyse_chain(e1)
        ok = name == "trampoline-payment-timeout" and not probs and "from_secs" in wr
        rep.ob(rid, ok, fn, "payment timeout <- from_secs(option trampoline-payment-timeout)", where=c.loc, how="%s via %s" % (name, wr),
               detail="" if ok else "the provider's payment timeout is configured from %s %s" % (name, probs))
        e2 = strip(X.operand(b, c.args[2]))
        name2, wr2, probs2 = analyse_chain(e2)
        ok2 = name2 == "trampoline-xpay" and not probs2 and "not" not in wr2
        rep.ob(rid, ok2, fn, "xpay <- option trampoline-xpay", where=c.loc, how="%s via %s" % (name2, wr2), detail="" if ok2 else "xpay is configured from %s %s %s" % (name2, wr2, probs2))


def r_registered(F, X, rep, b, fn):
    rid = "C19-R"
    rep.rule(rid, "every option that is read was registered with the builder")

    def names_of(calls, argi):
        out = set()
        for c in calls:
            e = strip(X.operand(c.body, c.args[argi]))
            for y in walk(e):
                if y[0] == "call" and y[1].startswith("cln_plugin::options::ConfigOption::new_") and y[2] and y[2][0][0] == "const":
                    out.add(y[2][0][1].strip('"'))
                    break
        return out
    reg_calls = [c for bb in F.code_bodies() for c in bb.calls if c.name == "cln_plugin::Builder::option"]
    read_calls = [c for bb in F.code_bodies() for c in bb.calls if c.name == "cln_plugin::ConfiguredPlugin::option" and bb.span.get("f", "").endswith("main.rs")]
    reg = names_of(reg_calls, 1)
    read = names_of(read_calls, 1)
    rep.anchor(rid, "registered options", len(reg), 8, fn=fn)
    rep.anchor(rid, "options read", len(read), 8, fn=fn)
    miss = sorted(read - reg)
    rep.ob(rid, not miss, fn, "registered superset of read", how="%d registered, %d read" % (len(reg), len(read)), detail="" if not miss else "options %s are read but never registered: the node rejects them and cp.option() fails at startup" % miss)


def o_gate(F, X, rep, b, fn):
    rid = "C19-O"
    rep.rule(rid, "the init reply is sent only if policy delta > safety delta, after every conversion succeeded")
    st = [c for c in b.calls if c.name == "cln_plugin::ConfiguredPlugin::start"]
    if not rep.anchor(rid, "ConfiguredPlugin::start call", len(st), 1, fn=fn):
        return
    s = st[0]
    ok = False
    why = "no comparison between the two deltas dominates the init reply"
    for cnd, truth in lib.dominating_conditions(b, s.bb):
        if cnd.kind != "cmp":
            continue
        na, _, _ = analyse_chain(strip(X.operand(b, cnd.a)))
        nb, _, _ = analyse_chain(strip(X.operand(b, cnd.b)))
        op = cnd.op if truth else {"Lt": "Ge", "Le": "Gt", "Gt": "Le", "Ge": "Lt", "Eq": "Ne", "Ne": "Eq"}[cnd.op]
        pair = (na, nb)
        if pair == ("trampoline-policy-cltv-delta", "trampoline-cltv-delta"):
            ok = op == "Gt"
            why = "the plugin starts when policy delta %s safety delta" % op
        elif pair == ("trampoline-cltv-delta", "trampoline-policy-cltv-delta"):
            ok = op == "Lt"
            why = "the plugin starts when safety delta %s policy delta" % op
        if ok:
            break
    rep.ob(rid, ok, fn, "start requires policy delta > safety delta", where=s.loc, how="forced edge of the comparison", detail="" if ok else why)
    # the rejecting edge returns Err
    convs = [c for c in b.calls if c.name in ("std::convert::TryInto::try_into", "std::convert::TryFrom::try_from") and not c.noise and not lib.third_party_expansion(c.sp)]
    rep.anchor(rid, "checked conversions in main", len(convs), 6, fn=fn)
    for c in convs:
        okc = b.dominates(c.bb, s.bb)
        # and its failure cannot reach start
        sw = None
        for bb2, cond, e in __import__("model_lc").enum_switches(b, X):
            for a in alts(e):
                if a[0] == "call" and a[1] == "std::ops::Try::branch" and a[2] and any(y[0] == "call" and y[3][1] == c.bb for y in walk(a[2][0])) and not any(y[0] == "call" and y[1] in ("std::convert::TryInto::try_into",) and y[3][1] != c.bb and c.bb in [z[3][1] for z in walk(y) if z[0] == "call"] and False for y in walk(a)):
                    sw = (bb2, cond)
        rep.ob(rid, okc, fn, "conversion precedes the init reply", where=c.loc, how="dominates start", detail="" if okc else "a conversion at %s happens after (or beside) the init reply" % c.loc)
    opts = [c for c in b.calls if c.name == "cln_plugin::ConfiguredPlugin::option"]
    after = b.reach_after([s.bb])
    for c in opts:
        okc = c.bb not in after and c.bb in b.reach([0], removed_nodes=[s.bb])
        rep.ob(rid, okc, fn, "option read precedes the init reply", where=c.loc, how="not reachable from start", detail="" if okc else "an option is read after the init reply", nontrivial=False)
