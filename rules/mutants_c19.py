M = "src/main.rs"
P = "src/payment_provider.rs"
MUTANTS = [
    {"name": "swap-delta-options", "control": True, "expect": ["C19-W", "C19-O"],
     "edits": [(M, "    let cltv_delta = cp.option(&OPTION_CLTV_DELTA)?.try_into()?;\n    let cltv_expiry_delta = cp.option(&OPTION_POLICY_CLTV_DELTA)?.try_into()?;\n    if cltv_expiry_delta <= cltv_delta {", "    let cltv_expiry_delta = cp.option(&OPTION_CLTV_DELTA)?.try_into()?;\n    let cltv_delta = cp.option(&OPTION_POLICY_CLTV_DELTA)?.try_into()?;\n    if cltv_delta <= cltv_expiry_delta {")]},
    {"name": "swap-timeouts", "control": True, "expect": ["C19-W"],
     "edits": [(M, "    let mpp_timeout_secs = cp.option(&OPTION_MPP_TIMEOUT)?.try_into()?;", "    let mpp_timeout_secs = cp.option(&OPTION_PAYMENT_TIMEOUT)?.try_into()?;"), (M, "    let payment_timeout_secs = cp.option(&OPTION_PAYMENT_TIMEOUT)?.try_into()?;", "    let payment_timeout_secs = cp.option(&OPTION_MPP_TIMEOUT)?.try_into()?;")]},
    {"name": "as-u16-cast", "control": True, "expect": ["C19-W"],
     "edits": [(M, "    let cltv_delta = cp.option(&OPTION_CLTV_DELTA)?.try_into()?;", "    let cltv_delta = cp.option(&OPTION_CLTV_DELTA)? as u16;")]},
    {"name": "forget-xpay-registration", "expect": ["C19-R"],
     "edits": [(M, "        .option(OPTION_EMAIL_SUBJECT)\n        .option(OPTION_XPAY);", "        .option(OPTION_EMAIL_SUBJECT);")]},
    {"name": "gate-lt-instead-of-le", "expect": ["C19-O"],
     "edits": [(M, "    if cltv_expiry_delta <= cltv_delta {", "    if cltv_expiry_delta < cltv_delta {")]},
    {"name": "gate-after-start", "expect": ["C19-O"],
     "edits": [(M, "    if cltv_expiry_delta <= cltv_delta {\n        return Err(anyhow!(\n            \"{} ({}) must be greater than {} ({})\",\n            NAME_POLICY_CLTV_DELTA,\n            cltv_expiry_delta,\n            NAME_CLTV_DELTA,\n            cltv_delta,\n        ));\n    }\n", ""), (M, "    info!(\"Trampoline plugin started\");", "    if cltv_expiry_delta <= cltv_delta {\n        return Err(anyhow!(\"{} must be greater than {}\", NAME_POLICY_CLTV_DELTA, NAME_CLTV_DELTA));\n    }\n    info!(\"Trampoline plugin started\");")], "note": "needs Copy of the deltas; may not compile"},
    {"name": "self-route-hint-flag-not-negated", "expect": ["C19-W"],
     "edits": [(M, "let allow_self_route_hints: bool = !cp.option(&OPTION_NO_SELF_ROUTE_HINTS)?;", "let allow_self_route_hints: bool = cp.option(&OPTION_NO_SELF_ROUTE_HINTS)?;")]},
    {"name": "fee-base-from-ppm-option", "expect": ["C19-W"],
     "edits": [(M, "let fee_base_msat = cp.option(&OPTION_POLICY_FEE_BASE)?.try_into()?;", "let fee_base_msat = cp.option(&OPTION_POLICY_FEE_PER_SATOSHI)?.try_into()?;")]},
    {"name": "retry-for-wraps", "expect": ["C19-C"],
     "edits": [(P, "let retryfor = payment_timeout.as_secs().try_into().unwrap_or(u16::MAX);", "let retryfor = payment_timeout.as_secs() as u16;")]},
    {"name": "mpp-timeout-millis", "expect": ["C19-W"],
     "edits": [(M, "let mpp_timeout = Duration::from_secs(mpp_timeout_secs);", "let mpp_timeout = Duration::from_millis(mpp_timeout_secs);")]},
    {"name": "policy-params-different-aggregate", "expect": ["C19-D", "C19-W"],
     "edits": [(M, "        payment_provider,\n        routing_policy,\n        store: Arc::clone(&store),", "        payment_provider,\n        routing_policy: TrampolineRoutingPolicy { fee_base_msat: 0, ..routing_policy.clone() },\n        store: Arc::clone(&store),")]},
    {"name": "xpay-hardcoded", "expect": ["C19-W"],
     "edits": [(M, "        Duration::from_secs(payment_timeout_secs),\n        xpay,", "        Duration::from_secs(payment_timeout_secs),\n        xpay && false,")]},
]
EQUIV = [
    {"name": "eq-gate-flipped", "edits": [(M, "    if cltv_expiry_delta <= cltv_delta {", "    if cltv_delta >= cltv_expiry_delta {")]},
    {"name": "eq-reorder-reads", "edits": [(M, "    let fee_base_msat = cp.option(&OPTION_POLICY_FEE_BASE)?.try_into()?;\n    let fee_proportional_millionths = cp.option(&OPTION_POLICY_FEE_PER_SATOSHI)?.try_into()?;", "    let fee_proportional_millionths = cp.option(&OPTION_POLICY_FEE_PER_SATOSHI)?.try_into()?;\n    let fee_base_msat = cp.option(&OPTION_POLICY_FEE_BASE)?.try_into()?;")]},
    {"name": "eq-u16-try-from", "edits": [(M, "    let cltv_delta = cp.option(&OPTION_CLTV_DELTA)?.try_into()?;", "    let cltv_delta = u16::try_from(cp.option(&OPTION_CLTV_DELTA)?)?;")]},
]
