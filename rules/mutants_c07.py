H = "src/htlc_manager.rs"
MUTANTS = [
    {"name": "drain-swaps-response", "control": True, "expect": ["C07-U1"],
     "edits": [(H, "            match listener.send(resp.clone()) {", "            match listener.send(if self.htlcs.len() % 2 == 1 { HtlcAcceptedResponse::temporary_node_failure() } else { resp.clone() }) {")]},
    {"name": "drain-breaks", "control": True, "expect": ["C07-U1"],
     "edits": [(H, "                Ok(_) => {}\n                Err(e) => error!(\"htlc listener hung up, could not send response {:?}\", e),", "                Ok(_) => {}\n                Err(_) => break,")]},
    {"name": "add-before-gates", "control": True, "expect": ["C07-U3"],
     "edits": [(H, "            // If the trampoline info doesn't match previous trampoline infos,\n            // fail the payment asap.\n            if trampoline != payment_state.trampoline {", "            payment_state.add_htlc(req, sender).await;\n            let (sender, _unused) = oneshot::channel();\n            if trampoline != payment_state.trampoline {")]},
    {"name": "fail-forgets-flag", "expect": ["C07-U3"],
     "edits": [(H, "            self.is_ready = false;\n            self.is_fail_requested = true;\n", "            self.is_ready = false;\n")]},
    {"name": "conflict-gate-removed", "expect": ["C07-U3"],
     "edits": [(H, "            if trampoline != payment_state.trampoline {", "            if trampoline != payment_state.trampoline && trampoline.amount_msat == 12345 {")], "skip": True},
    {"name": "total-gate-wrong-amount", "expect": ["C07-U3"],
     "edits": [(H, "                .fee_sufficient(total_msat, trampoline.amount_msat)", "                .fee_sufficient(total_msat, payment_state.amount_received_msat)")]},
    {"name": "fail-arm-answers-constant", "expect": ["C07-U4"],
     "edits": [(H, "            debug!(\"Payment fail requested.\");\n            resolve(&payments, &trampoline, failure).await;", "            debug!(\"Payment fail requested.\");\n            let _ = failure;\n            resolve(&payments, &trampoline, HtlcAcceptedResponse::temporary_trampoline_failure()).await;")]},
    {"name": "conflict-response-is-policy", "expect": ["C07-U3"],
     "edits": [(H, "                payment_state\n                    .fail(HtlcAcceptedResponse::temporary_trampoline_failure())\n                    .await;", "                payment_state\n                    .fail(HtlcAcceptedResponse::temporary_node_failure())\n                    .await;")]},
]
MUTANTS = [m for m in MUTANTS if not m.get("skip")]
from mutants_common import EQUIV_LC as EQUIV
