"""C15 - wait_payment reports 'none' only if nothing is pending or complete (DESIGN 5/C15)."""
import rules_lc as R
import rules_provider as P

EXPLANATION = (
    "Decides on the PaymentProvider impl's wait_payment: (V1) returned preimages are payment_preimage of a COMPLETE-listed part or of a successful "
    "waitsendpay; (V2) Ok(None) is dominated by the None edge of the stream into which one waitsendpay future per element of the PENDING listing "
    "was pushed (no adaptor, no early exit, request names that element's groupid/partid and the argument hash, no timeout); (V3) the switch on "
    "the RPC error code continues the wait exactly for {202,203,204,208,209}; every other error exit is Err and none becomes Ok; (V4) the COMPLETE "
    "listing is issued only after the PENDING listing returned (sequential awaits); (V5) both listings filter by the argument hash only."
)
ASSUMPTIONS = ["listsendpays/waitsendpay status semantics of CLN", "parts created after the snapshot by a pay still running inside the node are out of reach"]


def run(F, X, rep):
    C = R.Ctx.get(F, X)
    P.v_wait_payment(C, rep, "C15")
