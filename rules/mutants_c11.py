H = "src/htlc_manager.rs"
MUTANTS = [
    {"name": "age-minus-timeout", "control": True, "expect": ["C11-T1"],
     "edits": [(H, "                    params.mpp_timeout.saturating_sub(\n                        std::time::SystemTime::now()\n                            .duration_since(std::time::UNIX_EPOCH)\n                            .context(\"duration since unix epoch should always work\")\n                            .unwrap()\n                            .saturating_sub(Duration::from_secs(attempt_time_seconds)),\n                    )", "                    std::time::SystemTime::now()\n                            .duration_since(std::time::UNIX_EPOCH)\n                            .context(\"duration since unix epoch should always work\")\n                            .unwrap()\n                            .saturating_sub(Duration::from_secs(attempt_time_seconds)).saturating_sub(params.mpp_timeout)")]},
    {"name": "sleep-double", "control": True, "expect": ["C11-T1", "C11-T2"],
     "edits": [(H, "_ = tokio::time::sleep(time_left) => {", "_ = tokio::time::sleep(time_left * 2) => {")]},
    {"name": "timeout-answers-node-failure", "control": True, "expect": ["C11-T3"],
     "edits": [(H, "resolve(&payments, &trampoline, HtlcAcceptedResponse::temporary_trampoline_failure()).await;\n            return;", "resolve(&payments, &trampoline, HtlcAcceptedResponse::temporary_node_failure()).await;\n            return;")]},
    {"name": "timeout-arm-continues-into-pay", "expect": ["C11-T3"],
     "edits": [(H, "            debug!(\"Payment timed out waiting for htlcs.\");\n            resolve(&payments, &trampoline, HtlcAcceptedResponse::temporary_trampoline_failure()).await;\n            return;", "            debug!(\"Payment timed out waiting for htlcs.\");\n            if time_left.as_secs() != 77 {\n            resolve(&payments, &trampoline, HtlcAcceptedResponse::temporary_trampoline_failure()).await;\n            return;\n            }")]},
    {"name": "pending-resets-full-timeout", "expect": ["C11-T1"],
     "edits": [(H, "                    params.mpp_timeout.saturating_sub(\n                        std::time::SystemTime::now()", "                    params.mpp_timeout.max(Duration::ZERO).saturating_add(Duration::ZERO); params.mpp_timeout.saturating_sub(\n                        std::time::SystemTime::now()")], "skip_reason": "equivalent"},
    {"name": "pending-full-timeout", "expect": ["C11-T1"],
     "edits": [(H, "                            .saturating_sub(Duration::from_secs(attempt_time_seconds)),\n                    )", "                            .saturating_sub(Duration::from_secs(attempt_time_seconds)),\n                    ).max(params.mpp_timeout)")]},
    {"name": "zero-guard-removed", "expect": ["C11-T2"],
     "edits": [(H, "    if time_left.is_zero() {", "    if time_left.is_zero() && params.cltv_delta == 9999 {")]},
    {"name": "zero-guard-pays", "expect": ["C11-T2", "C11"],
     "edits": [(H, "        debug!(\"MPP timeout has expired.\");\n        resolve(\n            &payments,\n            &trampoline,\n            HtlcAcceptedResponse::temporary_trampoline_failure(),\n        )\n        .await;\n        return;", "        debug!(\"MPP timeout has expired.\");\n        resolve(\n            &payments,\n            &trampoline,\n            HtlcAcceptedResponse::temporary_node_failure(),\n        )\n        .await;\n        return;")]},
    {"name": "extra-select-arm", "expect": ["C11-T4"],
     "edits": [(H, "        _ = payment_ready.recv() => {\n            debug!(\"Received payment ready.\");\n        }", "        _ = payment_ready.recv() => {\n            debug!(\"Received payment ready.\");\n        }\n        _ = tokio::time::sleep(Duration::from_secs(1)) => {\n            resolve(&payments, &trampoline, HtlcAcceptedResponse::temporary_trampoline_failure()).await;\n            return;\n        }")]},
]
MUTANTS = [m for m in MUTANTS if not m.get("skip_reason")]

from mutants_common import EQUIV_LC as EQUIV
