"""C13 - plain forwards pass through untouched (DESIGN 5/C13)."""
import rules_lc as R
import rules_hh as H
import p_c18

EXPLANATION = (
    "Decides: (N1) every handler path that does not take the payments lock has no Yield and calls only synchronous functions whose transitive "
    "MAY-effect summary (RPC, store, table, spawn, lock, channel, sleep, output) is empty; the lock is taken only under arm(Trampoline) and "
    "forward_msat=Some; pass-through results are `continue`; (N2) short_channel_id present and every Err/None of the extractor reach only the default "
    "continue; (R1) the single payload rewrite is to_bytes(clone(req.onion.payload) with record 16 removed) behind `metadata parsed and contains "
    "33001 or 33003`; (R2) the removal is Vec::remove(position(typ==..)) / retain, never reordering; (R3) re-serialisation preserves the other "
    "records byte-for-byte: C18-T1/L1 (evaluated here as well); the decoders that see the sender's bytes before classification are total (C18-P/C18-U), so the HTLC is answered."
)
ASSUMPTIONS = ["C18 for byte-level fidelity of decode/encode"]


def run(F, X, rep):
    C = R.Ctx.get(F, X)
    if not H.need_hh(C, rep, "C13-N1"):
        return
    H.n1_continue_paths_effect_free(C, rep, "C13-N1")
    H.n2_forward_classification(C, rep, "C13-N2")
    # N3: what makes metadata "usable" is the extractor's gates (hash, signature, amount table): cited from C10
    import rules_ext as E
    E.g_hash_gate(C, rep, "C13-N3")
    E.s_signature_gate(C, rep, "C13-N3")
    E.a_amount_table(C, rep, "C13-N3")
    E.x_info_built_from_request(C, rep, "C13-N3")
    H.r1_rewrite(C, rep, "C13-R1")
    H.r2_order_preserving_removal(C, rep, "C13-R2")
    H.g1_lookup_by_type(C, rep, "C13-L")
    # "without waiting on any external event": nothing between the node's request and the handler can queue behind other
    # payments (no permit pool, no shared lock held across an await)
    H.l2_no_shared_blocking_state(C, rep, "C13-W")
    bodies = p_c18.tlv_bodies(F)
    p_c18.c18_t1(F, X, rep, bodies)
    p_c18.c18_l1(F, X, rep, bodies)
    p_c18.c18_e(F, X, rep, bodies)
    # "is answered with `continue`": the decoders run on sender-chosen bytes BEFORE the HTLC is classified, so a panic in one of them (an
    # over-long amount field, a truncated record) leaves a non-trampoline HTLC unanswered: decoder totality (C18-P) and the tu64 length gate (C18-U)
    p_c18.c18_p(F, X, rep, bodies)
    p_c18.c18_u(F, X, rep, bodies)
