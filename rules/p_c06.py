"""C06 - exactly one response, no panic, no hang (DESIGN 5/C06)."""
import rules_lc as R
import rules_hh as H
import panics

EXPLANATION = (
    "Decides: (P1) panic-site discipline over the whole handler scope (everything that runs after init): every MIR assert, diverging call, "
    "unwrap/expect, partial bytes::Buf read, slice index, unchecked arithmetic, partial third-party call is discharged by a dominating guard on the "
    "same receiver, an interval proof, a typestate/origin argument or a named exception; (P2) every lifecycle path to its end answers exactly once "
    "and every effectful future is awaited; (P3) the removed entry is drained completely; (P4/P5) after taking the lock the handler always hands "
    "its oneshot sender to the add-listener, which answers or stores it on every path; (P6) nothing but latched single-shot sends is awaited "
    "under the table lock; (P7) the timer bounds the wait (C11-T1/T2); (P8) the hook wrapper returns the serialised response. Liveness of awaited "
    "RPCs and fairness are not decided. One known finding (D7): todo!() when wait_payment errs while the stored state is Pending."
)
ASSUMPTIONS = ["the node's RPC keeps answering (stated in the property)", "tokio oneshot/mpsc semantics", "named exceptions listed in rules/panics.py"]


def run(F, X, rep):
    C = R.Ctx.get(F, X)
    rep.rule("C06-P1", "every panic-capable site in the handler scope is discharged")
    bodies = [b for b in F.code_bodies() if panics.in_handler_scope(F, b)]
    rep.anchor("C06-P1", "bodies in handler scope", len(bodies), 100)
    sites = panics.enumerate_sites(F, bodies)
    rep.anchor("C06-P1", "panic-capable sites", len(sites), 25)
    D = panics.Discharger(F, X)
    for s in sites:
        ok, how = D.discharge(s)
        rep.ob("C06-P1", ok, s.root, s.what, where=s.where, how=how if ok else "", detail="" if ok else how)
    if not (R.need_lc(C, rep, "C06-P2") and H.need_hh(C, rep, "C06-P4")):
        return
    R.p2_exactly_one_answer(C, rep, "C06-P2")
    H.p3_answer_reaches_everyone(C, rep, "C06-P3")
    H.p4_p5_register_or_return(C, rep, "C06-P4")
    H.p4b_answer_only_via_lifecycle(C, rep, "C06-P4")
    H.p6_no_blocking_under_lock(C, rep, "C06-P6")
    R.t1_timer_value(C, rep, "C06-P7")
    R.t2_zero_means_immediate(C, rep, "C06-P7")
    # "no later than one MPP timeout": the configured trampoline-mpp-timeout option is what reaches params.mpp_timeout
    import p_c19
    mb = p_c19.main_body(F)
    if rep.anchor("C06-P7", "main coroutine", 1 if mb else 0):
        p_c19.w_wiring(F, X, rep, mb, F.root_of(mb), rid="C06-P7")
    H.p8_hook_wrapper(C, rep, "C06-P8")
