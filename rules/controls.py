"""Mutants / positive controls: apply a textual single-site edit to a scratch copy of the *current*
/repo sources (outside /repo and /verif), extract facts with the driver directly (no cargo), run the
property's rules on the variant and require a violation.  This never influences the verdict on /repo;
it only shows that the rules are alive.  (Analysis of variant sources - the plugin is never executed.)"""
import importlib
import os
import re
import shutil
import tempfile
import time
from concurrent.futures import ThreadPoolExecutor, ProcessPoolExecutor

import engine
import mir

SCRATCH_ROOT = "/var/tmp"


def make_variant(edits, repo=None):
    """edits: list of (relative file, old text, new text[, count]).  Returns (dir, applied: bool, why)"""
    repo = repo or engine.REPO
    d = tempfile.mkdtemp(prefix="verif-mut-", dir=SCRATCH_ROOT)
    shutil.copytree(os.path.join(repo, "src"), os.path.join(d, "src"))
    for f in ("Cargo.toml", "Cargo.lock"):
        shutil.copy(os.path.join(repo, f), os.path.join(d, f))
    for ed in edits:
        path, old, new = ed[0], ed[1], ed[2]
        p = os.path.join(d, path)
        if not os.path.exists(p):
            return d, False, "file %s missing" % path
        s = open(p).read()
        if ed[3:] and ed[3] == "re":
            s2, n = re.subn(old, new, s, count=1, flags=re.S)
            if n == 0:
                return d, False, "pattern not found in %s" % path
        else:
            if old not in s:
                return d, False, "anchor text not found in %s" % path
            s2 = s.replace(old, new, 1)
        open(p, "w").write(s2)
    return d, True, ""


def make_variant_from_diff(diff, repo=None):
    """scratch copy of the current sources with a unified diff applied (seeded changes kept under /verif/seeded)"""
    import subprocess
    repo = repo or engine.REPO
    d = tempfile.mkdtemp(prefix="verif-mut-", dir=SCRATCH_ROOT)
    shutil.copytree(os.path.join(repo, "src"), os.path.join(d, "src"))
    for f in ("Cargo.toml", "Cargo.lock"):
        shutil.copy(os.path.join(repo, f), os.path.join(d, f))
    r = subprocess.run(["patch", "-p1", "-s", "-i", os.path.abspath(diff)], cwd=d, stdout=subprocess.PIPE, stderr=subprocess.STDOUT, text=True)
    if r.returncode != 0:
        return d, False, "patch does not apply to the current tree"
    return d, True, ""


def variant_facts(edits, overflow=True):
    """returns (Facts or None, status) status in {'ok','skipped:<why>','compile-error:<msg>'}"""
    if isinstance(edits, str):
        d, applied, why = make_variant_from_diff(edits)
    else:
        d, applied, why = make_variant(edits)
    try:
        if not applied:
            return None, "skipped:" + why
        # the captured argument vector must exist (main extraction ran)
        out, log = engine.extract_variant(d, overflow)
        if out is None:
            return None, "compile-error:" + log[-1500:]
        F = mir.Facts(out)
        return F, "ok"
    finally:
        shutil.rmtree(d, ignore_errors=True)


def run_rules_on(mod, F, prop):
    X = mir.ExprBuilder(F)
    rep = engine.Report(prop, "control", "variant")
    try:
        mod.run(F, X, rep)
    except Exception as e:   # noqa - same fail-closed convention as ./check
        rep.rule(prop + "-INTERNAL", "every rule of the property can be evaluated on this tree")
        rep.ob(prop + "-INTERNAL", False, "-", "rules evaluated without internal error", detail="anchor-missing: a rule could not be evaluated (%s: %s)" % (type(e).__name__, str(e)[:120]))
    return rep


def run_mutant(mod, prop, mutant, known_keys=()):
    """mutant: dict(name, edits, expect(optional rule-id prefix list)).  returns result dict"""
    t0 = time.time()
    F, st = variant_facts(mutant.get("diff") or mutant["edits"], overflow=mutant.get("overflow", True))
    if F is None:
        return {"name": mutant["name"], "status": st.split(":")[0], "why": st[:300], "fired": [], "wall": round(time.time() - t0, 2)}
    rep = run_rules_on(mod, F, prop)
    viol = [o for o in rep.violations() if o["key"] not in known_keys]
    fired = sorted({o["rule"] for o in viol})
    exp = mutant.get("expect")
    ok = bool(fired) if not exp else any(any(f.startswith(e) for e in exp) for f in fired)
    return {"name": mutant["name"], "status": "fired" if ok else "missed", "fired": fired,
            "first": (viol[0]["detail"] or viol[0]["what"])[:200] if viol else "", "wall": round(time.time() - t0, 2)}


def _mutant_job(args):
    """worker-process entry: (property id, mutant, known keys) -> result dict"""
    prop, mutant, known = args
    mod = importlib.import_module("p_" + prop.lower())
    return run_mutant(mod, prop, mutant, known)


def _map_mutants(prop, todo, known):
    """replay variants in worker processes (loading and normalising the facts of a variant is CPU-bound Python)"""
    if not todo:
        return []
    n = min(int(os.environ.get("VERIF_JOBS", "12")), len(todo))
    jobs = [(prop, m, tuple(known)) for m in todo]
    if n <= 1:
        return [_mutant_job(j) for j in jobs]
    try:
        with ProcessPoolExecutor(max_workers=n) as ex:
            return list(ex.map(_mutant_job, jobs))
    except Exception:   # noqa - fall back to in-process replay
        return [_mutant_job(j) for j in jobs]


def load_catalogue(prop):
    try:
        m = importlib.import_module("mutants_" + prop.lower())
        cat = list(m.MUTANTS)
    except ImportError:
        cat = []
    # the seeded changes of independent sub-agents kept for this property (replayed in the thorough tier)
    import glob
    here = os.path.dirname(os.path.dirname(os.path.abspath(__file__)))
    for d in sorted(glob.glob(os.path.join(here, "seeded", prop + "-*"))):
        p = os.path.join(d, "patch.diff")
        if os.path.exists(p):
            cat.append({"name": "seeded:" + os.path.basename(d), "diff": p, "control": False})
    return cat


def run_controls(mod, prop, tier, seed):
    """quick: up to 3 catalogue mutants marked control=True (rotated by seed); thorough: whole catalogue."""
    cat = load_catalogue(prop)
    if not cat:
        return {"fired": 0, "skipped": 0, "dead": [], "note": "no catalogue"}
    known = {k["key"] for k in engine.load_known() if k.get("status") == "known" and k.get("property") == prop}
    if tier == "quick":
        ctl = [m for m in cat if m.get("control")]
        if len(ctl) > 3:
            k = seed % len(ctl)
            ctl = (ctl[k:] + ctl[:k])[:3]
        todo = ctl
    else:
        todo = cat
    results = _map_mutants(prop, todo, known)
    fired = [r for r in results if r["status"] == "fired"]
    skipped = [r for r in results if r["status"] in ("skipped", "compile-error")]
    missed = [r for r in results if r["status"] == "missed"]
    # only control mutants are allowed to fail the self-test; other misses are reported as weaknesses
    ctl_names = {m["name"] for m in cat if m.get("control")}
    dead = [r["name"] for r in missed if r["name"] in ctl_names]
    out = {"fired": len(fired), "skipped": len(skipped), "missed": [r["name"] for r in missed], "dead": dead,
           "applicable": len(results) - len(skipped),
           "results": [{k: r[k] for k in ("name", "status", "fired", "wall")} for r in results]}
    if tier != "quick":
        # behaviour-preserving edits: the rules must stay silent (informational self-test of the checker)
        try:
            eq = importlib.import_module("mutants_" + prop.lower()).EQUIV
        except (ImportError, AttributeError):
            eq = []
        eres = _map_mutants(prop, eq, known)
        out["equivalence_edits"] = {"silent": len([r for r in eres if r["status"] == "missed"]),
                                    "false_alarms": [{"name": r["name"], "rules": r["fired"]} for r in eres if r["status"] == "fired"],
                                    "skipped": len([r for r in eres if r["status"] in ("skipped", "compile-error")])}
    return out
