"""Catalogue of single-edit variants for C18 (each compiles and passes the 56 tests unless noted)."""
T = "src/tlv.rs"
MUTANTS = [
    {"name": "revert-D2-guard-u16", "control": True, "expect": ["C18-P"],
     "edits": [(T, "if self.remaining() < 2 {\n                    return Err(anyhow!(\"unexpected end of data in compact size\"));\n                }\n", "")]},
    {"name": "guard-too-small", "control": True, "expect": ["C18-P"],
     "edits": [(T, "if self.remaining() < 4 {", "if self.remaining() < 3 {")]},
    {"name": "guard-first-byte-dropped", "expect": ["C18-P"],
     "edits": [(T, "if self.remaining() < 1 {\n            return Err(anyhow!(\"unexpected end of data in compact size\"));\n        }\n", "")]},
    {"name": "writer-boundary-fe", "control": True, "expect": ["C18-T1"],
     "edits": [(T, "0..=0xFC => self.put_u8(cs as u8),\n            0xFD..=0xFFFF", "0..=0xFD => self.put_u8(cs as u8),\n            0xFE..=0xFFFF")]},
    {"name": "writer-u16-le", "expect": ["C18-T1"],
     "edits": [(T, "self.put_u16(cs as u16);", "self.put_u16_le(cs as u16);")]},
    {"name": "writer-nonminimal-u32", "expect": ["C18-T1"],
     "edits": [(T, "0xFD..=0xFFFF => {", "0xFD..=0xFFF => {")]},
    {"name": "reader-marker-swap", "expect": ["C18-T1"],
     "edits": [(T, "            254 => {\n                if self.remaining() < 4 {", "            252 => {\n                if self.remaining() < 4 {")]},
    {"name": "encoder-rev", "control": True, "expect": ["C18-L1"],
     "edits": [(T, "for e in s.entries.iter() {", "for e in s.entries.iter().rev() {")]},
    {"name": "encoder-skip-empty", "expect": ["C18-L1"],
     "edits": [(T, "            b.put_compact_size(e.typ);", "            if e.value.is_empty() { continue; }\n            b.put_compact_size(e.typ);")]},
    {"name": "decoder-stop-early", "expect": ["C18-L1"],
     "edits": [(T, "            entries.push(TlvEntry { typ, value });", "            entries.push(TlvEntry { typ, value });\n            if typ == 0xFFFF_FFFF_0000 { break; }")]},
    {"name": "decoder-swap-len-typ", "expect": ["C18-L1"],
     "edits": [(T, "            let typ = b.get_compact_size()?;\n            let len = b.get_compact_size()? as usize;", "            let len = b.get_compact_size()? as usize;\n            let typ = b.get_compact_size()?;")]},
    {"name": "tu64-left-aligned", "expect": ["C18-U", "C18-P"],
     "edits": [(T, "b[(8 - remaining)..].copy_from_slice(self.chunk());", "b[..remaining].copy_from_slice(self.chunk());")]},
    {"name": "tu64-accept-9", "control": True, "expect": ["C18-U", "C18-P"],
     "edits": [(T, "if remaining > 8 {", "if remaining > 9 {")]},
    {"name": "tu64-empty-is-error", "expect": ["C18-U"],
     "edits": [(T, "        if remaining == 0 {\n            return Ok(0);\n        }", "        if remaining == 0 {\n            return Err(anyhow::anyhow!(\"empty\"));\n        }")]},
    {"name": "tryfrom-skip-two-prefixes", "expect": ["C18-L2"],
     "edits": [(T, "        let l = b.get_compact_size()?;", "        let _ = b.get_compact_size()?;\n        let l = b.get_compact_size()?;")]},
]

# behaviour-preserving edits: the rules must stay silent on these
EQUIV = [
    {"name": "eq-for-ref-entries", "edits": [(T, "for e in s.entries.iter() {", "for e in &s.entries {")]},
    {"name": "eq-guard-le", "edits": [(T, "if self.remaining() < 2 {", "if self.remaining() <= 1 {")]},
    {"name": "eq-has-remaining", "edits": [(T, "if self.remaining() < 1 {", "if !self.has_remaining() {")]},
    {"name": "eq-put-slice", "edits": [(T, "b.put(&e.value[..]);", "b.put_slice(&e.value);")]},
    {"name": "eq-guard-bigger", "edits": [(T, "if self.remaining() < 8 {", "if self.remaining() < 9 - 1 {")]},
    {"name": "eq-retain", "edits": [(T, "        if let Some(position) = self.entries.iter().position(|e| e.typ == typ) {\n            self.entries.remove(position);\n        }", "        if let Some(position) = self.entries.iter().position(|e| e.typ == typ) {\n            let _removed = self.entries.remove(position);\n        }")]},
]
