H = "src/htlc_manager.rs"
from mutants_c01 import GATE
MUTANTS = [
    {"name": "revert-D1-no-hash-gate", "control": True, "expect": ["C10-H"], "edits": [(H, GATE, "")]},
    {"name": "signature-check-inverted", "control": True, "expect": ["C10-S"],
     "edits": [(H, "if invoice.check_signature().is_err() {", "if invoice.check_signature().is_err() && invoice.route_hints().len() > 50 {")]},
    {"name": "payee-from-field", "expect": ["C10-S"],
     "edits": [(H, "let payee = invoice.get_payee_pub_key();", "let payee = match invoice.payee_pub_key() { Some(k) => *k, None => self.params.local_pubkey };")]},
    {"name": "prefer-tlv-amount", "control": True, "expect": ["C10-A"],
     "edits": [(H, "                    if invoice_amount_msat == tlv_amount_msat {\n                        invoice_amount_msat\n                    } else {", "                    if invoice_amount_msat >= tlv_amount_msat {\n                        tlv_amount_msat\n                    } else {")]},
    {"name": "drop-eq-guard", "expect": ["C10-A"],
     "edits": [(H, "                    if invoice_amount_msat == tlv_amount_msat {\n                        invoice_amount_msat\n                    } else {", "                    if invoice_amount_msat == tlv_amount_msat || tlv_amount_msat == 0 {\n                        invoice_amount_msat\n                    } else {")]},
    {"name": "overlong-amount-is-zero", "expect": ["C10-A"],
     "edits": [(H, "                        debug!(\"Got invalid amount of len {} in htlc TLV: {:?}\", b.len(), e);\n                        None", "                        debug!(\"Got invalid amount of len {} in htlc TLV: {:?}\", b.len(), e);\n                        Some(0)")]},
    {"name": "route-hint-first-hop", "control": True, "expect": ["C10-R"],
     "edits": [(H, "            hint.0\n                .last()\n                .map(|hop| hop.src_node_id.eq(&self.params.local_pubkey))", "            hint.0\n                .first()\n                .map(|hop| hop.src_node_id.eq(&self.params.local_pubkey))")]},
    {"name": "route-hint-only-first-hint", "expect": ["C10-R"],
     "edits": [(H, "if let Some(our_hint) = route_hints.iter().find(|hint| {", "if let Some(our_hint) = route_hints.iter().take(1).find(|hint| {")]},
    {"name": "self-hint-gate-ignored-for-amountless", "expect": ["C10-R"],
     "edits": [(H, "            if !self.params.allow_self_route_hints {", "            if !self.params.allow_self_route_hints && trampoline.invoice.amount_milli_satoshis().is_some() {")]},
    {"name": "extract-error-fails-htlc", "expect": ["C10-C"],
     "edits": [(H, "                debug!(\"Failed to extract trampoline info from htlc: {:?}\", e);\n                return HtlcCheckResult::Response(default_response(req));", "                debug!(\"Failed to extract trampoline info from htlc: {:?}\", e);\n                return HtlcCheckResult::Response(HtlcAcceptedResponse::temporary_node_failure());")]},
    {"name": "invoice-from-other-record", "expect": ["C10-S"],
     "edits": [(H, "let invoice_blob = match payment_metadata.get(TLV_TRAMPOLINE_INVOICE) {", "let invoice_blob = match payment_metadata.get(TLV_TRAMPOLINE_INVOICE + 2) {")]},
]
from mutants_common import EQUIV_LC as EQUIV
