"""C17 - wire protocol: any chunking decodes each request once; one response per id (DESIGN 5/C17)."""
import re
from mir import Call, canon, loc, strip, walk, alts, show
import lib
import panics
import model_lc as ml
import rules_lc as R
import rules_hh as HHm

EXPLANATION = (
    "Decides: (D1) the three codecs carry no state (ADT table: no fields but the inner codec), so a decode result is a function of the buffer; (D2) the "
    "line decoder's Ok(None) path does not touch the buffer, its Some path consumes exactly one split_to(offset+2) with offset from a search over "
    "the whole buffer for two consecutive newlines, UTF-8 validation is applied to that piece minus the separator; the JSON layers call the inner "
    "decode exactly once and never touch the buffer; (R1) the task spawned per request sends exactly once on every path, and every sent object "
    "carries `id` = the dispatched request's id with exactly one of result/error; (R2) the future raced against the writer in the driver's select "
    "awaits only the framed reader's next() and does nothing before it - all handler work is behind tokio::spawn; (R6) the message decoder builds a (Custom)Request carrying the message's id exactly where the id is present and a (Custom)Notification where it is absent; (W) every frame is written with SinkExt::send (or feed + awaited flush); every SinkExt::send goes "
    "through a guard of the one Arc<Mutex<FramedWrite>>, is awaited while the guard is live and is not a raced select operand; one FramedWrite is "
    "constructed; nothing else writes to stdout; the encoder appends the text then two newlines; (P) panic discipline on codec/driver/logging bodies."
)
ASSUMPTIONS = ["tokio_util FramedRead/FramedWrite honour the Decoder/Encoder contracts", "serde_json::Value::to_string is compact (no blank line inside a document)"]

BUF_MUT = {"split_to", "split_off", "advance", "clear", "truncate", "put", "put_slice", "put_u8", "extend_from_slice", "resize", "unsplit", "freeze", "set_len", "reserve"}


def run(F, X, rep):
    d1(F, X, rep)
    d2(F, X, rep)
    r1(F, X, rep)
    r2(F, X, rep)
    r3(F, X, rep)
    t_id_type(F, X, rep)
    r4_dispatch_table(F, X, rep)
    r5_unknown_topic(F, X, rep)
    r6_id_classification(F, X, rep)
    w(F, X, rep)
    p(F, X, rep)


def codec_adts(F):
    out = []
    for imp in F.impls:
        if imp.get("trait") and canon(imp["trait"]) in ("tokio_util::codec::Decoder", "tokio_util::codec::Encoder"):
            st = canon(imp["self_ty"])
            if st not in out:
                out.append(st)
    return out


def d1(F, X, rep):
    rid = "C17-D1"
    rep.rule(rid, "codecs are stateless: no field other than the inner codec")
    cs = codec_adts(F)
    rep.anchor(rid, "codec types (impl Decoder/Encoder)", len(cs), 3)
    for st in cs:
        a = F.adts.get(st)
        if a is None:
            rep.ob(rid, False, st, "codec ADT in the table", detail="anchor-missing: ADT %s" % st)
            continue
        for v in a["variants"]:
            for f in v["fields"]:
                ok = canon(f["ty"]) in cs
                rep.ob(rid, ok, st, "field %s: %s" % (f["n"], f["ty"]), how="inner codec", detail="" if ok else "codec %s keeps state in field %s: %s (a remembered offset/flag makes decoding depend on how the stream was chunked)" % (st, f["n"], f["ty"]))
        if not any(v["fields"] for v in a["variants"]):
            rep.ob(rid, True, st, "no fields", how="unit-like struct", nontrivial=False)


def _decode_bodies(F):
    out = {}
    for imp in F.impls:
        if imp.get("trait") and canon(imp["trait"]) == "tokio_util::codec::Decoder":
            for it in imp["items"]:
                c = canon(it)
                if c.endswith("::decode"):
                    b = F.by_cdef.get(c)
                    if b is not None:
                        out[canon(imp["self_ty"])] = b
    return out


def d2(F, X, rep):
    rid = "C17-D2"
    rep.rule(rid, "decode consumes exactly one message or nothing; the separator is searched over the whole buffer on every call")
    dec = _decode_bodies(F)
    rep.anchor(rid, "Decoder::decode bodies", len(dec), 3)
    import rules_provider as RP
    for st, b in dec.items():
        fn = F.root_of(b)
        bufcalls = [c for c in b.calls if (c.name.startswith("bytes::BytesMut::") or c.name.startswith("bytes::Buf::") or c.name.startswith("bytes::BufMut::")) and c.mname in BUF_MUT]
        inner = [c for c in b.calls if c.name == "tokio_util::codec::Decoder::decode"]
        if inner:
            ok = len(inner) == 1 and not bufcalls and inner[0].bb not in b.reach_after([inner[0].bb])
            rep.ob(rid, ok, fn, "layer calls the inner decode exactly once and leaves the buffer alone", where=inner[0].loc, how="1 inner decode, 0 buffer mutations",
                   detail="" if ok else "%s calls the inner decoder %d time(s) and mutates the buffer %d time(s)" % (st, len(inner), len(bufcalls)))
            # Ok(None) of the inner maps to Ok(None); Some maps to Some or Err
            for kind, e, site, where in RP.result_alternatives(b, X):
                if kind == "Ok" and e is not None and e[0] == "agg" and e[2] == "None":
                    g = any(truth == ("None",) for fe, truth, c in RP.enum_facts(b, X, site))
                    rep.ob(rid, g, fn, "Ok(None) only when the inner decoder had no message", where=where, how="None arm", detail="" if g else "%s drops a decoded message (returns None for it)" % st)
            continue
        # the line decoder
        sp = [c for c in bufcalls if c.mname == "split_to"]
        others = [c for c in bufcalls if c.mname != "split_to"]
        ok = len(sp) == 1 and not others
        rep.ob(rid, ok, fn, "one split_to, no other buffer mutation", where=sp[0].loc if sp else loc(b.span), how="%d split_to, %d other" % (len(sp), len(others)),
               detail="" if ok else "the line decoder mutates the buffer with %s" % [c.mname for c in bufcalls])
        if not sp:
            continue
        s = sp[0]
        n = strip(X.operand(b, s.args[1]))
        # n = offset + 2, offset = Some payload of the search over the buffer parameter
        okn = False
        srch = None
        for x in walk(n):
            if x[0] == "bin" and x[1].startswith("Add"):
                a0, a1 = x[2], x[3]
                k = a1 if lib.const_len(a1) is not None else a0
                off = a0 if k is a1 else a1
                if lib.const_len(k) == 2 and off[0] == "field" and off[3] == "Some" and off[4][0] == "call":
                    okn = True
                    srch = off[4]
        rep.ob(rid, okn, fn, "consumes offset + 2 bytes", where=s.loc, how=show(n)[:80], detail="" if okn else "the decoder consumes %s bytes: the separator is not consumed with its message (or more is consumed)" % show(n)[:80])
        for kind, e, site, where in RP.result_alternatives(b, X):
            if kind == "Ok" and e is not None and e[0] == "agg" and e[2] == "None":
                before = s.bb in b.reach([0], removed_nodes=[site]) and site in b.reach_after([s.bb])
                rep.ob(rid, not before, fn, "Ok(None) path leaves the buffer untouched", where=where, how="split_to not on that path", detail="" if not before else "bytes are consumed although no complete message was returned")
            if kind == "Ok" and e is not None and e[0] == "agg" and e[2] == "Some":
                txt = e[3][0][1]
                oku = any(y[0] == "call" and y[1] == "std::str::from_utf8" for y in walk(txt)) or any(y[0] == "call" and F.by_cdef.get(y[1]) is not None and any(c.name == "std::str::from_utf8" for c in F.by_cdef[y[1]].calls) for y in walk(txt))
                piece = any(y[0] == "call" and y[3][1] == s.bb for y in walk(txt))
                rep.ob(rid, oku and piece, fn, "message text = UTF-8 of the split-off piece", where=where, how="utf8(split_to(..)[..len-2])", detail="" if oku and piece else "decoded text is %s" % show(txt)[:100])
        if srch is not None:
            sb = F.by_cdef.get(srch[1])
            okb = srch[2] and srch[2][0][0] == "param"
            rep.ob(rid, okb, fn, "search runs on the decode buffer", where=s.loc, how=show(srch)[:60], detail="" if okb else "separator search runs on %s" % show(srch)[:60])
            if sb is not None:
                r = strip(X.local(sb, 0))
                pos = [y for y in walk(r) if y[0] == "call" and y[1] == "std::iter::Iterator::position"]
                okp = len(pos) == 1
                whole = False
                if okp and pos[0][2][0][0] == "call" and pos[0][2][0][1].endswith("<impl [T]>::windows"):
                    # `buf.windows(2).position(|w| w == b"\n\n")`: every adjacent byte pair from index 0
                    w = pos[0][2][0]
                    whole = len(w[2]) == 2 and w[2][0][0] == "param" and lib.const_len(w[2][1]) == 2
                elif okp:
                    it = pos[0][2][0]
                    z = it
                    whole = z[0] == "call" and z[1] == "std::iter::Iterator::zip" and len(z[2]) == 2 and \
                        z[2][0][0] == "call" and z[2][0][1] == "core::slice::<impl [T]>::iter" and z[2][0][2][0][0] == "param" and \
                        z[2][1][0] == "call" and z[2][1][1] == "std::iter::Iterator::skip" and z[2][1][2][1][0] == "const" and z[2][1][2][1][2] == 1 and \
                        z[2][1][2][0][0] == "call" and z[2][1][2][0][1] == "core::slice::<impl [T]>::iter" and z[2][1][2][0][2][0][0] == "param"
                rep.ob(rid, okp and whole, F.root_of(sb), "search = position over (buf, buf shifted by one), from index 0", where=loc(sb.span), how=show(r)[:100],
                       detail="" if okp and whole else "separator search is %s: it does not scan every adjacent byte pair of the whole buffer" % show(r)[:120])
                for g in F.group(F.root_of(sb)):
                    if g is sb:
                        continue
                    rr = strip(X.local(g, 0))
                    cmps = [y for y in walk(rr) if y[0] == "bin" and y[1] == "Eq"]
                    conds = [c for bb2 in sorted(g.reachable) for c in [lib.decode_switch(g, bb2)] if c is not None and c.kind == "cmp" and c.op == "Eq"]
                    vals = sorted([y[3][2] for y in cmps if y[3][0] == "const"] + [int(lib.root_operand(g, c.b)["int"]) for c in conds if lib.root_operand(g, c.b)["k"] == "const"])
                    if not vals:
                        # the pair is compared with a byte-string constant: `window == b"\n\n"`
                        for y in walk(rr):
                            if y[0] == "call" and y[1] in ("std::cmp::PartialEq::eq",) and len(y[2]) == 2:
                                for side in y[2]:
                                    bs = lib.const_bytes(side)
                                    if bs is not None:
                                        vals = sorted(bs)
                    okc = vals == [10, 10]
                    rep.ob(rid, okc, F.root_of(sb), "separator is two consecutive newlines", where=loc(g.span), how=str(vals), detail="" if okc else "separator predicate compares with %s" % vals)


def _spawned_request_closure(F, X):
    """the coroutine closure spawned in the request arm: it sends on Plugin::sender"""
    out = []
    for b in F.code_bodies():
        if not b.coroutine or "src/cln_plugin/" not in b.span.get("f", ""):
            continue
        sends = [c for c in b.calls if c.name == "tokio::sync::mpsc::Sender::send" and "serde_json::Value" in c.full]
        if sends and _spawn_sites(F, X, b):
            out.append((b, sends))
    return out


def _spawn_sites(F, X, b):
    """tokio::spawn calls whose argument is the coroutine closure `b`"""
    sp = []
    for (pb, bi, si, ops, st) in F.closure_sites.get(b.def_, []):
        for c in pb.calls:
            if c.name == "tokio::spawn" and c.args and any(y[0] == "agg" and y[1] == "closure:" + b.cdef for y in walk(strip(X.operand(pb, c.args[0])))):
                sp.append((pb, c))
    return sp


def _object_keys(b, X, send, F=None):
    """keys inserted into the serde_json::Map that becomes the sent Value (json! expansion).  Returns a list of
    {key: value expr} - one per place where the sent object can be built (the object may be built by a same-file pure
    helper with one json! per outcome; its parameters are then bound to the caller's arguments)"""
    import model_msgs as mm
    sent = strip(X.operand(b, send.args[1]))
    if F is not None and not any(y[0] == "call" and y[1] == "serde_json::Map::new" and y[3][0] == b.cdef for y in walk(sent)):
        bfile = b.span.get("f")
        sent = strip(mm.inline_pure(F, X, sent, depth=2, keep=lambda n: F.by_cdef.get(n) is None or F.by_cdef[n].span.get("f") != bfile or n.startswith("<")))
    sites = []
    for y in walk(sent):
        if y[0] == "call" and y[1] == "serde_json::Map::new" and (y[3][0], y[3][1]) not in sites:
            sites.append((y[3][0], y[3][1]))
    out = []
    for cdef, site in sites:
        hb = b if cdef == b.cdef or F is None else F.by_cdef.get(cdef)
        if hb is None:
            continue
        keys = {}
        for c in hb.calls:
            if c.name != "serde_json::Map::insert":
                continue
            if hb is b and send.bb not in b.reach([c.bb]):
                continue
            m = strip(X.operand(hb, c.args[0]))
            if not any(y[0] == "call" and y[1] == "serde_json::Map::new" and y[3][1] == site for y in walk(m)):
                continue
            kx = strip(X.operand(hb, c.args[1]))
            ks = None
            for y in walk(kx):
                if y[0] == "const" and y[1].startswith('"'):
                    ks = y[1].strip('"')
            v = strip(X.operand(hb, c.args[2]))
            if hb is not b and F is not None:
                v = strip(mm.expand_params(F, X, v, depth=2))
            keys[ks] = v
        out.append(keys)
    if not out:
        out.append({})
    return out


def r1(F, X, rep):
    rid = "C17-R1"
    rep.rule(rid, "the per-request task sends exactly one reply on every path, tagged with the request's id and exactly one of result/error")
    cl = _spawned_request_closure(F, X)
    # the hand-off to the writer must not be lossy: on the bounded reply channel only the awaited `send` delivers always
    lossy = [c for b in F.code_bodies() if "src/cln_plugin/" in b.span.get("f", "") for c in b.calls
             if re.match(r"^tokio::sync::mpsc::(Sender|UnboundedSender)::(try_send|send_timeout|blocking_send|try_reserve|try_reserve_owned)$", c.name) and "serde_json::Value" in (c.full or "") and not c.noise]
    rep.ob(rid, not lossy, lossy[0].body.cdef if lossy else "cln_plugin", "replies are handed to the writer with an awaited send", where=lossy[0].loc if lossy else "", how="no try_send / send_timeout on the reply channel",
           detail="" if not lossy else "%s at %s: when the bounded reply channel is full (several handlers finishing at once) the reply is dropped and that request id is never answered" % (lossy[0].name, lossy[0].loc))
    if not rep.anchor(rid, "spawned per-request task (sends a Value on Plugin::sender)", len(cl), 1):
        return
    for b, sends in cl:
        fn = b.cdef
        val = R.count_on_paths(b, {c.bb for c in sends})
        for r in b.returns():
            v = val.get(r, set())
            ok = v == {1}
            rep.ob(rid, ok, fn, "replies on paths to the task's end", where=loc(b.term(r)["sp"]), how="count set {1}", detail="" if ok else "a request can be answered %s times" % sorted(v))
        for s in sends:
            aw = lib.await_of_call(b, s)
            rep.ob(rid, aw is not None, fn, "reply send is awaited", where=s.loc, how="awaited", detail="" if aw else "reply future dropped")
            for keys in _object_keys(b, X, s, F):
                kid = keys.get("id")
                okid = kid is not None and any(y[0] == "upvar" or (y[0] == "field" and y[3] == "CustomRequest") or y[0] == "param" for y in walk(kid)) and not any(y[0] == "const" and y[1] in ("null",) for y in walk(kid))
                # the id must be the captured request id: expression rooted in the decoded CustomRequest's first field
                rooted = kid is not None and any(y[0] == "field" and y[3] == "CustomRequest" and y[1] == "0" for y in walk(kid))
                rep.ob(rid, okid and rooted, fn, "reply carries the request's id", where=s.loc, how=show(kid)[:80] if kid else "no id key",
                       detail="" if okid and rooted else "reply at %s has id %s" % (s.loc, show(kid)[:80] if kid else "missing"))
                ks = set(k for k in keys if k)
                one = len(ks & {"result", "error"}) == 1 and "jsonrpc" in ks
                rep.ob(rid, one, fn, "exactly one of result/error", where=s.loc, how=str(sorted(ks)), detail="" if one else "reply object has keys %s" % sorted(ks))
    # the closure is spawned, not awaited inline, in the request arm
    sp = [x for b, _sends in cl for x in _spawn_sites(F, X, b)]
    rep.anchor(rid, "tokio::spawn of the per-request task", len(sp), 1)


def r2(F, X, rep, rid="C17-R2"):
    rep.rule(rid, "the reader future raced in the driver loop awaits only FramedRead::next and does nothing before it; handlers run in spawned tasks")
    runs = [b for b in F.code_bodies() if b.coroutine and "src/cln_plugin/" in b.span.get("f", "") and ml.selects(b, X)]
    if not rep.anchor(rid, "driver loop with select!", len(runs), 1):
        return
    b = runs[0]
    sel = ml.selects(b, X)[0]
    ops = [f for f in sel.futures if f is not None]
    rd = [f for f in ops if (f.resolved or f.name) in F.fns and "src/cln_plugin/" in F.by_cdef[f.resolved or f.name].span.get("f", "")]
    wr = [f for f in ops if f.name == "tokio::sync::mpsc::Receiver::recv"]
    ok = len(rd) == 1 and len(wr) == 1 and len(sel.futures) == 2
    rep.ob(rid, ok, F.root_of(b), "select races {read one message, receive one outgoing value}", where=loc(b.term(sel.switch_bb)["sp"]), how=str([f.name if f else None for f in sel.futures]),
           detail="" if ok else "driver select operands are %s" % [f.name if f else None for f in sel.futures])
    if not rd:
        return
    callee = rd[0].resolved or rd[0].name
    for g in F.group(callee):
        if not g.coroutine or g.cdef != callee + "::{closure#0}":
            continue
        polls = HHm.polls_in(g, g.reachable)
        for p in polls:
            e = HHm.awaited_future_of_poll(g, X, p)
            okp = all(a[0] == "call" and a[1] in ("tokio_stream::StreamExt::next", "futures::StreamExt::next") for a in alts(e))
            rep.ob(rid, okp, callee, "only the framed reader is awaited", where=p.loc, how=show(e)[:60],
                   detail="" if okp else "the raced reader future also awaits %s: if the writer arm wins, that work is cancelled half-way (lost or duplicated message)" % show(e)[:80])
        nx = [c for c in g.calls if c.name in ("tokio_stream::StreamExt::next", "futures::StreamExt::next")]
        rep.anchor(rid, "FramedRead::next call", len(nx), 1, fn=callee)
        if nx:
            pre = [c for c in g.calls if not c.noise and c.bb != nx[0].bb and c.bb in g.reach([0], removed_nodes=[nx[0].bb]) and c.name not in lib_transparent() and lib.call_effects(c)]
            rep.ob(rid, not pre, callee, "no effect before the read", where=pre[0].loc if pre else nx[0].loc, how="first effectful call is next()", detail="" if not pre else "%s happens before the cancel-safe read" % pre[0].name)
        # handler futures: created by calling the callback, must flow into tokio::spawn, never polled here
        cbs = [c for c in g.calls if c.name == "std::ops::Fn::call"]
        for c in cbs:
            aw = lib.await_of_call(g, c)
            rep.ob(rid, aw is None, callee, "handler future is not awaited inline", where=c.loc, how="moved into a spawned task", detail="" if aw is None else "a handler is awaited inside the reader future: the loop stops reading (and writing replies) until it finishes, and a select cancellation aborts it")


def r3(F, X, rep):
    rid = "C17-R3"
    rep.rule(rid, "the node's byte stream is read through ONE FramedRead for the whole life of the plugin (handshake and driver loop): it is constructed once and never taken apart (into_inner/into_parts/get_mut/read_buffer_mut), because bytes already read but not yet decoded live in its buffer")
    cons = [(b, c) for b in F.code_bodies() for c in b.calls if re.match(r"^tokio_util::codec::FramedRead::(new|with_capacity)$", c.name) or c.name == "tokio_util::codec::FramedParts::new" or c.name == "tokio_util::codec::Framed::new"]
    sites = sorted({c.loc for b, c in cons})
    rep.anchor(rid, "FramedRead constructions", len(sites), 1)
    rep.ob(rid, len(sites) == 1, "crate", "a single FramedRead is constructed", where=sites[1] if len(sites) > 1 else (sites[0] if sites else ""), how="%d" % len(sites),
           detail="" if len(sites) == 1 else "%d FramedRead constructions: the bytes buffered by the first reader (the tail of the read that completed the handshake) are not seen by the second" % len(sites))
    esc = [(b, c) for b in F.code_bodies() for c in b.calls if re.match(r"^tokio_util::codec::(FramedRead|Framed)::(into_inner|into_parts|get_mut|get_pin_mut|read_buffer_mut|get_ref)$", c.name)]
    rep.ob(rid, not esc, "crate", "the reader is never taken apart", where=esc[0][1].loc if esc else "", how="no into_inner/into_parts/get_mut/read_buffer_mut",
           detail="" if not esc else "%s at %s gives access to the raw input behind the reader's buffer: bytes already read but not decoded are lost or re-ordered" % (esc[0][1].name, esc[0][1].loc))
    # positive control for the name patterns: the reader's next() exists
    nx = [c for b in F.code_bodies() if "src/cln_plugin/" in b.span.get("f", "") for c in b.calls if c.name in ("tokio_stream::StreamExt::next", "futures::StreamExt::next") and "FramedRead" in c.full]
    rep.anchor(rid, "StreamExt::next on the FramedRead", len(nx), 1)


def r4_dispatch_table(F, X, rep):
    rid = "C17-R4"
    rep.rule(rid, "every registered hook and rpc method reaches the dispatch table: the builder's `rpcmethods` and `hooks` maps are each moved into it exactly once (a hook that is advertised but not dispatchable ends the reader loop on its first call)")
    drains = {}
    for b in F.code_bodies():
        if "src/cln_plugin/" not in b.span.get("f", ""):
            continue
        for c in b.calls:
            if c.noise or not (c.name.endswith("HashMap::drain") or c.name.endswith("HashMap::into_iter") or c.name.endswith("IntoIterator::into_iter")) or not c.args:
                continue
            e = strip(X.operand(b, c.args[0]))
            if not c.name.endswith("HashMap::drain") and not all(t[0] == "field" for t in alts(e)):
                continue                          # `for m in self.rpcmethods.values()`: a borrowing view is iterated, the map stays
            for y in walk(e):
                if y[0] == "field" and canon(y[2] or "").endswith("cln_plugin::Builder") and y[1] in ("rpcmethods", "hooks", "subscriptions"):
                    drains.setdefault(y[1], set()).add(c.loc)
    for f in ("rpcmethods", "hooks", "subscriptions"):
        n = len(drains.get(f, ()))
        rep.ob(rid, n == 1, "cln_plugin::Builder", "Builder::%s is moved into its dispatch table once" % f, where=sorted(drains.get(f, [""]))[0], how="%d site(s)" % n,
               detail="" if n == 1 else "Builder::%s is drained at %d sites (%s): what was registered there %s" % (f, n, sorted(drains.get(f, ())), "never becomes dispatchable" if n == 0 else "is taken twice - the second takes nothing"))
    rep.anchor(rid, "registration maps of the builder that are moved into dispatch tables", len(drains), 3)


def r5_unknown_topic(F, X, rep):
    rid = "C17-R5"
    rep.rule(rid, "a well-formed notification for a topic nobody subscribed to does not end the reader loop: no error is raised under `subscriptions.get(topic) == None` (the loop's end costs every pending and later request its reply)")
    n = 0
    bad = []
    for b in F.code_bodies():
        if "src/cln_plugin/" not in b.span.get("f", ""):
            continue
        for bi in sorted(b.reachable):
            facts = None
            for s in b.blocks[bi]["s"]:
                if not (s["k"] == "assign" and s["rv"]["k"] == "agg" and s["rv"].get("variant") == "Err" and canon(s["rv"].get("adt") or "").endswith("Result")):
                    continue
                if facts is None:
                    facts = lib.variant_facts(b, X, bi)
                for fe, truth, _c in facts:
                    if truth == ("None",) and any(y[0] == "call" and y[1].endswith("HashMap::get") and any(z[0] == "field" and z[1] == "subscriptions" for z in walk(y)) for y in walk(strip(fe))):
                        bad.append((b, s))
    subs = [c for b in F.code_bodies() if "src/cln_plugin/" in b.span.get("f", "") for c in b.calls
            if c.name.endswith("HashMap::get") and c.args and any(z[0] == "field" and z[1] == "subscriptions" for z in walk(strip(X.operand(b, c.args[0]))))]
    rep.anchor(rid, "lookup of the notification topic in the subscriptions", len(subs), 1)
    rep.ob(rid, not bad, "cln_plugin", "unknown topic is not an error", where=loc(bad[0][1]["sp"]) if bad else (subs[0].loc if subs else ""), how="no Err under subscriptions.get(..) == None",
           detail="" if not bad else "a notification without subscriber makes dispatch fail at %s: the driver loop ends, requests in flight lose their reply and later ones are never read" % loc(bad[0][1]["sp"]))


def r6_id_classification(F, X, rep):
    rid = "C17-R6"
    rep.rule(rid, "the message decoder classifies by the presence of `id`: every JsonRpc value built where the id is present is a (Custom)Request carrying exactly that id, every value built where it is absent is a (Custom)Notification - a request decoded as a notification is never answered")
    import model_msgs as mm_

    def id_fact(b, bi):
        for fe, truth, _c in lib.variant_facts(b, X, bi):
            if truth in (("Some",), ("None",)) and any(y[0] == "field" and y[1] == "id" for y in walk(strip(fe))):
                return (strip(fe), truth)
        return None

    def callers(b):
        return [(hb, c) for hb in F.code_bodies() if hb is not b and "src/cln_plugin/messages.rs" in hb.span.get("f", "") for c in hb.calls if (c.resolved or c.name) == b.cdef or c.name == b.cdef]

    n = 0
    for b, bi, s in F.aggregates("cln_plugin::messages::JsonRpc"):
        if "src/cln_plugin/messages.rs" not in b.span.get("f", "") or "::test" in b.cdef:
            continue
        n += 1
        fn = F.root_of(b)
        var = s["rv"].get("variant")
        facts = []
        f0 = id_fact(b, bi)
        if f0 is not None:
            facts = [f0]
        else:
            # the arm's body was moved into a helper (`Some(id) => Self::request_from_value(id, v)`): what holds at its call sites
            owner = b
            if "{closure" in b.cdef and F.by_cdef.get(F.root_of(b)) is not None:
                owner = F.by_cdef[F.root_of(b)]           # `.unwrap_or_else(|_| JsonRpc::CustomNotification(raw))` inside the helper
            cs = callers(owner)
            facts = [id_fact(hb, c.bb) for hb, c in cs]
            if not cs or any(f is None for f in facts):
                facts = []
        if not facts or len({f[1] for f in facts}) != 1:
            rep.ob(rid, False, fn, "JsonRpc::%s is built under a test on the id" % var, where=loc(s["sp"]), detail="JsonRpc::%s is built on a path that does not depend on whether the message has an id" % var)
            continue
        present = facts[0][1] == ("Some",)
        want = ("Request", "CustomRequest") if present else ("Notification", "CustomNotification")
        ok = var in want
        rep.ob(rid, ok, fn, "id %s => %s" % ("present" if present else "absent", "/".join(want)), where=loc(s["sp"]), how=var,
               detail="" if ok else "a message %s id is decoded as JsonRpc::%s: %s" % ("with an" if present else "without", var, "the request's id is dropped and no reply with that id is ever written" if present else "a reply is produced for a notification"))
        if ok and present:
            e0 = strip(X.operand(b, s["rv"]["ops"][0]))
            if f0 is None:
                e0 = strip(mm_.expand_params(F, X, e0, depth=1))
            okid = all(a[0] == "field" and a[1] == "0" and a[3] == "Some" and any(show(strip(a[4])) == show(f[0]) for f in facts) for a in alts(e0))
            rep.ob(rid, okid, fn, "the request carries the message's own id", where=loc(s["sp"]), how=show(e0)[:80],
                   detail="" if okid else "JsonRpc::%s carries id %s, not the id of the decoded message" % (var, show(e0)[:80]))
    rep.anchor(rid, "JsonRpc values built by the message decoder", n, 2)      # (4 today; a variant constructor passed to `map` builds no aggregate here)


def t_id_type(F, X, rep):
    rid = "C17-T"
    rep.rule(rid, "a request's id is carried as an arbitrary JSON value (JSON-RPC ids are strings or numbers): every `id` of the plugin's message types is serde_json::Value")
    n = 0
    for name, adt in sorted(F.adts.items()):
        if not name.startswith("cln_plugin::") or "::test" in name:
            continue
        for v in adt.get("variants", []):
            fs = v.get("fields", [])
            for i, f in enumerate(fs):
                is_id = f["n"] in ("id", "init_id") or (name.endswith("::JsonRpc") and v.get("n", v.get("name", "")) in ("Request", "CustomRequest") and i == 0)
                if not is_id:
                    continue
                n += 1
                t = f["ty"].replace(" ", "")
                ok = t in ("serde_json::Value", "std::option::Option<serde_json::Value>")
                rep.ob(rid, ok, name, "id field %s.%s is a JSON value" % (v.get("n", v.get("name", "?")), f["n"]), how=f["ty"],
                       detail="" if ok else "%s.%s has type %s: a request whose id is not of that JSON type fails to decode - the reader loop ends and neither it nor any pending request is answered" % (name.split("::")[-1], f["n"], f["ty"]), nontrivial=False)
    rep.anchor(rid, "id fields of the plugin's message types", n, 3)


def lib_transparent():
    from mir import TRANSPARENT_CALLS
    return TRANSPARENT_CALLS


def w(F, X, rep):
    rid = "C17-W"
    rep.rule(rid, "all output goes through the one Arc<Mutex<FramedWrite>> under its guard; frames = text + two newlines; nothing else writes to stdout")
    outs = [(b, c) for b in F.code_bodies() for c in b.calls if c.name == "futures::SinkExt::send" and not c.noise]
    rep.anchor(rid, "SinkExt::send sites", len(outs), 4)
    for b, c in outs:
        fn = F.root_of(b)
        e = strip(X.operand(b, c.args[0]))
        ok = all(a[0] == "await" and a[1][0] == "call" and a[1][1] == "tokio::sync::Mutex::lock" for a in alts(e))
        rep.ob(rid, ok, fn, "writer reached through the mutex guard", where=c.loc, how=show(e)[:60], detail="" if ok else "output is written through %s (not the shared guarded writer)" % show(e)[:80])
        aw = lib.await_of_call(b, c)
        rep.ob(rid, aw is not None, fn, "send is awaited directly", where=c.loc, how=".await", detail="" if aw else "the frame write is not awaited directly (raced: a cancelled write leaves a partial frame on stdout)")
        # guard live during the await: the poll of this send lies inside a guard region of a FramedWrite guard
        regs = [r for r in HHm.guard_regions(F, b, r"^tokio::sync::MutexGuard<'_, tokio_util::codec::FramedWrite<")]
        if aw is not None:
            inreg = any(aw["poll"].bb in r.blocks for r in regs)
            rep.ob(rid, inreg, fn, "guard is live while the frame is written", where=c.loc, how="poll inside the guard region", detail="" if inreg else "the writer guard is released before the frame is fully written")
        for s in ml.selects(b, X):
            israced = any(f is not None and f.bb == c.bb for f in s.futures or [])
            rep.ob(rid, not israced, fn, "send is not a select operand", where=c.loc, how="inside an arm body", detail="" if not israced else "the frame write is raced in a select")
    # a frame only reaches the node once the writer is flushed: `send` = feed + flush; a bare feed / start_send leaves the reply in the
    # FramedWrite buffer until somebody else happens to flush it
    for b in F.code_bodies():
        for c in b.calls:
            if c.noise or c.name not in ("futures::SinkExt::feed", "futures::Sink::start_send", "futures::SinkExt::send_all"):
                continue
            if "src/cln_plugin/" not in b.span.get("f", "") or "FramedWrite" not in (c.full or ""):
                continue
            after = b.reach([c.bb])
            fl = [x for x in b.calls if x.name in ("futures::SinkExt::flush", "futures::SinkExt::close") and x.bb in after and x.bb != c.bb and lib.await_of_call(b, x) is not None]
            rep.ob(rid, bool(fl), F.root_of(b), "a buffered frame is flushed", where=c.loc, how=c.name.split("::")[-1] + (" + flush" if fl else ""),
                   detail="" if fl else "the frame is written with %s and never flushed: the reply stays in the writer's buffer (send = feed + flush)" % c.name.split("::")[-1])
    fw = [(b, c) for b in F.code_bodies() for c in b.calls if c.name == "tokio_util::codec::FramedWrite::new"]
    # (a helper spliced into several callers shows the same source construction once per caller: count source sites)
    fwl = sorted({c.loc for _b, c in fw})
    rep.ob(rid, len(fwl) == 1, "crate", "a single FramedWrite is constructed", where=fwl[1] if len(fwl) > 1 else (fwl[0] if fwl else ""), how="%d" % len(fwl),
           detail="" if len(fwl) == 1 else "%d FramedWrite instances: frames from different writers can interleave on stdout" % len(fwl))
    esc = [(b, c) for b in F.code_bodies() for c in b.calls if c.name in ("tokio_util::codec::FramedWrite::get_mut", "tokio_util::codec::FramedWrite::into_inner", "tokio_util::codec::FramedWrite::get_ref", "tokio_util::codec::FramedWrite::write_buffer_mut")]
    rep.ob(rid, not esc, "crate", "the raw writer never escapes", where=esc[0][1].loc if esc else "", how="no get_mut/into_inner", detail="" if not esc else "raw stdout obtained via %s" % esc[0][1].name)
    raw = [(b, c) for b in F.code_bodies() for c in b.calls if c.name in ("std::io::_print", "std::io::stdout", "std::io::_eprint") or (c.name == "tokio::io::stdout" and F.root_of(b) != "plugin::init")]
    raw = [(b, c) for b, c in raw if c.name != "std::io::_eprint"]
    rep.ob(rid, not raw, "crate", "no direct stdout writes", where=raw[0][1].loc if raw else "", how="no println!/stdout()", detail="" if not raw else "%s writes to stdout outside the framed writer" % raw[0][1].name)
    # encoder layout
    for imp in F.impls:
        if imp.get("trait") and canon(imp["trait"]) == "tokio_util::codec::Encoder":
            for it in imp["items"]:
                c = canon(it)
                if not c.endswith("::encode"):
                    continue
                b = F.by_cdef.get(c)
                if b is None:
                    continue
                puts = [x for x in b.calls if x.name.startswith("bytes::BufMut::put")]
                inner = [x for x in b.calls if x.name == "tokio_util::codec::Encoder::encode"]
                if inner:
                    e = strip(X.operand(b, inner[0].args[1]))
                    ok = len(inner) == 1 and not puts and any(y[0] == "call" and y[1] == "std::string::ToString::to_string" for y in walk(e)) and any(y[0] == "param" for y in walk(e))
                    rep.ob(rid, ok, c, "JSON layer encodes value.to_string() through the line encoder", where=inner[0].loc, how=show(e)[:60], detail="" if ok else "JSON encoder emits %s" % show(e)[:80])
                    continue
                seq = sorted(puts, key=lambda x: len(b.dom.get(x.bb, ())))
                vals = []
                for x in seq:
                    a = strip(X.operand(b, x.args[1]))
                    if lib.const_bytes(a) is not None:
                        vals += lib.const_bytes(a)        # `buf.put(b"\n\n")`
                    elif a[0] == "const":
                        vals.append(a[2])
                    elif any(y[0] == "param" for y in walk(a)):
                        vals.append("text")
                    else:
                        vals.append("?")
                ok = vals == ["text", 10, 10]
                rep.ob(rid, ok, c, "frame = text, newline, newline", where=seq[0].loc if seq else loc(b.span), how=str(vals), detail="" if ok else "line encoder writes %s" % vals)


def p(F, X, rep, rid="C17-P", extra_files=()):
    rep.rule(rid, "panic discipline on codec, driver and logging bodies")
    bodies = [b for b in F.code_bodies() if (panics.in_handler_scope(F, b) and "src/cln_plugin/" in b.span.get("f", "")) or any(b.span.get("f", "").endswith(x) for x in extra_files)]
    rep.anchor(rid, "cln_plugin bodies in handler scope", len(bodies), 20)
    D = panics.Discharger(F, X)
    for s in panics.enumerate_sites(F, bodies):
        ok, how = D.discharge(s)
        rep.ob(rid, ok, s.root, s.what, where=s.where, how=how if ok else "", detail="" if ok else how)
