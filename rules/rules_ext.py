"""Clauses about trampoline classification: the extractor (hash gate, signature gate, amount
reconciliation), the route-hint gate, and key provenance (C01, C10)."""
import re
from mir import Call, canon, loc, strip, walk, alts, show, derive_generated
import lib
import panics
import model_lc as ml
import model_msgs as mm
import rules_lc as R
import rules_hh as HHm
import names as NM

TINFO = "messages::TrampolineInfo"


def tinfo_aggs(F):
    return F.aggregates(TINFO)


def _has_call(e, name):
    return any(x[0] == "call" and x[1] == name for x in walk(e))


def _invoice_of(e):
    """the invoice expression an expression was computed from: arg of Bolt11Invoice::* call"""
    for x in walk(e):
        if x[0] == "call" and x[1].startswith("lightning_invoice::Bolt11Invoice::") and x[2]:
            return x[2][0]
    return None


def eq_sides(C, b, cnd, truth):
    """for a dominating condition return (sides, equal_truth) if it is an (in)equality test, also through a local
    synchronous helper returning bool (one level): `if !same_hash(a, b) { return .. }`"""
    F, X = C.F, C.X
    if cnd.kind == "call" and cnd.call.name in ("std::cmp::PartialEq::eq", "std::cmp::PartialEq::ne"):
        sides = [strip(X.operand(b, a)) for a in cnd.call.args[:2]]
        return sides, (truth if cnd.call.name.endswith("::eq") else (not truth))
    if cnd.kind == "cmp" and cnd.op in ("Eq", "Ne"):
        return [strip(X.operand(b, cnd.a)), strip(X.operand(b, cnd.b))], (truth if cnd.op == "Eq" else (not truth))
    if cnd.kind == "call":
        name = cnd.call.resolved or cnd.call.name
        hb = F.by_cdef.get(name)
        if hb is not None and hb.kind in ("Fn", "AssocFn") and hb.ret_ty == "bool" and not (F.fns.get(name) or {}).get("async"):
            args = tuple(strip(X.operand(b, a)) for a in cnd.call.args)
            r = mm.subst_params(strip(X.local(hb, 0)), hb.cdef, args)
            r = strip(r)
            neg = False
            for a in alts(r):
                x = a
                while x[0] == "un" and x[1] == "Not":
                    neg = not neg
                    x = x[2]
                if x[0] == "call" and x[1] in ("std::cmp::PartialEq::eq", "std::cmp::PartialEq::ne") and len(x[2]) >= 2:
                    t = truth if x[1].endswith("::eq") else (not truth)
                    return [x[2][0], x[2][1]], (t if not neg else not t)
                if x[0] == "bin" and x[1] in ("Eq", "Ne"):
                    t = truth if x[1] == "Eq" else (not truth)
                    return [x[2], x[3]], (t if not neg else not t)
    return None, None


def x_info_built_from_request(C, rep, rid):
    rep.rule(rid, "every TrampolineInfo the extractor hands out is constructed there, from this request's metadata, behind the gates (hash, signature, amount table): none is taken from elsewhere (a cached / previously stored info skips the gates for this HTLC)")
    F, X = C.F, C.X
    exts = [b for b in F.code_bodies() if b.kind in ("Fn", "AssocFn") and b.ret_ty.replace(" ", "").startswith("std::result::Result<std::option::Option<" + TINFO)]
    if not rep.anchor(rid, "extractor fn (-> Result<Option<TrampolineInfo>>)", len(exts), 1):
        return
    for b in exts:
        fn = F.root_of(b)
        bfile = b.span.get("f")
        keep = lambda n, bfile=bfile: F.by_cdef.get(n) is None or F.by_cdef[n].span.get("f") != bfile or n.startswith("<")   # noqa: E731
        defs = mm.def_alternatives(F, X, b, {"k": "move", "pl": {"l": 0, "p": []}})
        n = 0
        for e, vf, cf, wh in defs:
            e = strip(e)
            if not (e[0] == "agg" and e[2] == "Ok" and e[3]):
                continue
            for pa in alts(strip(e[3][0][1])):
                if not (pa[0] == "agg" and pa[2] == "Some" and pa[3]):
                    if pa[0] == "agg" and pa[2] == "None":
                        continue
                    pa = ("agg", "std::option::Option", "Some", (("0", ("field", "0", "std::option::Option", "Some", pa)),), None)
                n += 1
                for x in alts(strip(mm.inline_pure(F, X, strip(pa[3][0][1]), depth=2, keep=keep))):
                    ok = x[0] == "agg" and canon(x[1]) == TINFO
                    where = loc(b.term(wh[1])["sp"]) if wh and wh[0] == b.cdef and wh[1] is not None and wh[1] < len(b.blocks) else loc(b.span)
                    rep.ob(rid, ok, fn, "returned TrampolineInfo is constructed by the extractor", where=where, how="struct literal" if ok else "",
                           detail="" if ok else "the extractor returns %s as the HTLC's trampoline info: it was not built from this request behind the hash / signature / amount gates" % show(x)[:120])
        rep.anchor(rid, "Ok(Some(info)) results of the extractor", n, 1, fn=fn)


def g_hash_gate(C, rep, rid):
    rep.rule(rid, "every TrampolineInfo is built behind `invoice.payment_hash() == htlc.payment_hash` on the same invoice")
    F, X = C.F, C.X
    aggs = tinfo_aggs(F)
    if not rep.anchor(rid, "constructions of TrampolineInfo", len(aggs), 1):
        return
    for b, bi, s in aggs:
        fn = F.root_of(b)
        d = dict(zip(s["rv"]["fields"], s["rv"]["ops"]))
        inv = strip(X.operand(b, d["invoice"])) if "invoice" in d else None
        found = False
        why = "no comparison between the HTLC's payment hash and the invoice's payment hash dominates the construction"
        for cnd, truth in lib.dominating_conditions(b, bi):
            sides, eqtruth = eq_sides(C, b, cnd, truth)
            if not sides:
                continue

            def is_htlc_hash(e):
                return any(x[0] == "field" and x[1] == "payment_hash" and x[2] == "messages::Htlc" for x in walk(e))

            def is_inv_hash(e):
                return _has_call(e, "lightning_invoice::Bolt11Invoice::payment_hash")
            a, c2 = sides
            pair = (is_htlc_hash(a) and is_inv_hash(c2) and not is_inv_hash(a) and not is_htlc_hash(c2)) or \
                   (is_htlc_hash(c2) and is_inv_hash(a) and not is_inv_hash(c2) and not is_htlc_hash(a))
            if not pair:
                continue
            if not eqtruth:
                why = "the hash comparison is taken with the wrong polarity (construction happens when the hashes differ)"
                continue
            ih = a if is_inv_hash(a) else c2
            same = inv is not None and show(_invoice_of(ih)) == show(inv)
            if not same:
                why = "the compared invoice (%s) is not the one stored in the TrampolineInfo (%s)" % (show(_invoice_of(ih))[:50], show(inv)[:50])
                continue
            # nothing lossy on either side: no truncation / slicing of the hashes
            lossy = _lossy(sides)
            if lossy:
                why = "the comparison does not cover the whole hash (%s)" % lossy[0][1]
                continue
            found = True
        how = "eq-edge of (htlc.payment_hash, invoice.payment_hash())"
        if not found:
            # alternative placement: the gate sits in the handler and dominates the table insertion and the registration
            hh_ok, hh_how = _handler_level_gate(C)
            if hh_ok:
                found = True
                how = hh_how
        rep.ob(rid, found, fn, "hash gate dominates TrampolineInfo construction", where=loc(s["sp"]), how=how,
               detail="" if found else why)


def _handler_level_gate(C):
    """the equality htlc.payment_hash == payment_hash(classified invoice) dominates both the table entry() call and the
    add-listener call of the handler (unconditionally: not only for new entries)"""
    F, X = C.F, C.X
    H = HHm.handler(C)
    if H is None or not H.entry or not H.add_calls:
        return False, ""
    b = H.body
    for site in (H.entry[0].bb, H.add_calls[0].bb):
        ok = False
        for cnd, truth in lib.dominating_conditions(b, site):
            sides, eqt = eq_sides(C, b, cnd, truth)
            if not sides or not eqt:
                continue

            def hh(e):
                return any(x[0] == "field" and x[1] == "payment_hash" and x[2] == "messages::Htlc" for x in walk(e))

            def ih(e):
                return any(x[0] == "call" and x[1] == "lightning_invoice::Bolt11Invoice::payment_hash" and any(y[0] == "call" and y[4].t.get("rty") in NM.of(C.F).check for y in walk(x)) for x in walk(e))
            a, c2 = sides
            if (hh(a) and ih(c2) and not ih(a) and not hh(c2)) or (hh(c2) and ih(a) and not ih(c2) and not hh(a)):
                lossy = _lossy(sides)
                if not lossy:
                    ok = True
        if not ok:
            return False, ""
    return True, "equality of the two hashes dominates the table insertion and the registration in the handler"


def _lossy(sides):
    """operations between the hash sources and the comparison that look at only part of the hash (`x[..]` is the whole)"""
    out = []
    for side in sides:
        for x in _walk_until_hash(side):
            if x[0] != "call":
                continue
            if x[1] == "std::ops::Index::index":
                if len(x[2]) > 1 and "RangeFull" in show(x[2][1]):
                    continue
                out.append(x)
            elif x[1].endswith("::first") or x[1].endswith("::get") or "split" in x[1] or x[1].endswith("::len") or x[1].endswith("::last"):
                out.append(x)
    return out


def _walk_until_hash(e, _d=0):
    """sub-expressions above the hash sources (does not descend into payment_hash(..) / the htlc field)"""
    if not isinstance(e, tuple) or not e or _d > 60:
        return
    if e[0] == "call" and e[1] == "lightning_invoice::Bolt11Invoice::payment_hash":
        return
    if e[0] == "field" and e[1] == "payment_hash" and e[2] == "messages::Htlc":
        return
    yield e
    if e[0] == "call":
        for a in e[2]:
            yield from _walk_until_hash(a, _d + 1)
    elif e[0] == "field":
        yield from _walk_until_hash(e[4], _d + 1)
    elif e[0] == "phi":
        for a in e[1]:
            yield from _walk_until_hash(a, _d + 1)
    elif e[0] in ("index", "await", "try", "discr"):
        yield from _walk_until_hash(e[1], _d + 1)
    elif e[0] == "cast":
        yield from _walk_until_hash(e[4], _d + 1)


def k_key_is_invoice_hash(C, rep, rid):
    rep.rule(rid, "table key, wait/pay hash and store keys are all payment_hash() of the one TrampolineInfo's invoice")
    F, X, A = C.F, C.X, C.A
    H = HHm.handler(C)
    if H is not None:
        b = H.body
        for c in H.entry:
            e = strip(X.operand(b, c.args[1]))
            ok = all(a[0] == "call" and a[1] == "lightning_invoice::Bolt11Invoice::payment_hash" and any(x[0] == "field" and x[1] == "invoice" and x[2] == TINFO for x in walk(a))
                     and any(x[0] == "call" and x[4].t.get("rty") in NM.of(C.F).check for x in walk(a)) for a in alts(e))
            rep.ob(rid, ok, H.fn, "table entry key = classified invoice's payment hash", where=c.loc, how=show(e)[:100], detail="" if ok else "payments are grouped by %s" % show(e)[:120])
        # the TrampolineInfo handed to the lifecycle and stored in the entry is that same classified value
    L = C.L
    if L is None:
        return
    b = L.body

    def is_lc_hash(e):
        return all(a[0] == "call" and a[1] == "lightning_invoice::Bolt11Invoice::payment_hash" and a[2] and a[2][0][0] == "field" and a[2][0][1] == "invoice" and a[2][0][4][0] == "param" for a in alts(e))
    for w in L.wait:
        e = strip(X.operand(b, w.args[1]))
        ok = is_lc_hash(e)
        rep.ob(rid, ok, L.fn, "wait_payment hash = invoice hash", where=w.loc, how=show(e)[:80], detail="" if ok else "wait_payment is asked about %s" % show(e)[:100])
    for p in L.pay:
        e = strip(X.operand(b, p.args[1]))
        for a in alts(e):
            if a[0] == "agg" and a[1] == "payment_provider::PaymentRequest":
                d = dict(a[3])
                ok = is_lc_hash(d.get("payment_hash"))
                rep.ob(rid, ok, L.fn, "PaymentRequest.payment_hash = invoice hash", where=p.loc, how=show(d.get("payment_hash"))[:80], detail="" if ok else "pay request hash is %s" % show(d.get("payment_hash"))[:100])
                bo = d.get("bolt11")
                okb = bo is not None and all(x[0] == "field" and x[1] == "bolt11" and x[2] == TINFO and x[4][0] == "param" for x in alts(bo))
                rep.ob(rid, okb, L.fn, "PaymentRequest.bolt11 = trampoline.bolt11", where=p.loc, how=show(bo)[:60], detail="" if okb else "the invoice string paid is %s" % show(bo)[:100])
    for bb2 in [L.body] + [x for rf in A.resolve_fns for x in F.group(rf)]:
        for c in bb2.calls:
            if c.name in ("std::collections::HashMap::get", "std::collections::HashMap::remove", "std::collections::HashMap::get_mut") and NM.PS() in c.full:
                e = strip(X.operand(bb2, c.args[1]))
                e = mm.expand_params(F, X, e, depth=2) if bb2 is not L.body else e
                ok = all(a[0] == "call" and a[1] == "lightning_invoice::Bolt11Invoice::payment_hash" and any(x[0] == "field" and x[1] == "invoice" and x[2] == TINFO for x in walk(a)) for a in alts(e))
                rep.ob(rid, ok, F.root_of(bb2), "table %s key = invoice hash" % c.mname, where=c.loc, how=show(e)[:80], detail="" if ok else "table %s by %s" % (c.mname, show(e)[:100]))
    # the TrampolineInfo given to the lifecycle at spawn is the classified one (the same value that keys the table)
    refs = F.fn_refs(A.lc_root) if A.lc_root else []
    for (rb, rbb, w) in refs:
        if w[0] != "callee":
            continue
        call = Call(rb, rbb, w[1])
        for i, a in enumerate(call.args):
            if TINFO in rb.local_ty(a["pl"]["l"]) if a["k"] in ("copy", "move") else False:
                e = strip(X.operand(rb, a))
                ok = any(x[0] == "call" and x[4].t.get("rty") in NM.of(C.F).check for x in walk(e))
                rep.ob(rid, ok, F.root_of(rb), "lifecycle gets the classified TrampolineInfo", where=call.loc, how=show(e)[:80], detail="" if ok else "lifecycle is started with %s" % show(e)[:100])


def p_resolve_key_provenance(C, rep, rid):
    rep.rule(rid, "every Resolve response's key comes from pay's Ok payload, wait_payment's Ok(Some) payload or the stored Succeeded preimage")
    F, X, A = C.F, C.X, C.A
    L = C.L
    aggs = F.aggregates(mm.RESP_ADT, "Resolve")
    rep.anchor(rid, "constructions of HtlcAcceptedResponse::Resolve", len(aggs), 1)
    n = 0
    for b, bi, s in aggs:
        e = strip(X.operand(b, s["rv"]["ops"][0]))
        e = mm.expand_params(F, X, e, depth=3)
        for a in alts(e):
            n += 1
            ok, how = _key_source_ok(a, L)
            rep.ob(rid, ok, F.root_of(b), "payment_key provenance", where=loc(s["sp"]), how=how, detail="" if ok else "HTLCs can be settled with %s, which is not a preimage obtained from the node or the store" % show(a)[:140])
    rep.anchor(rid, "key alternatives examined", n, 3)


def _key_source_ok(a, L):
    x = a
    # clone()s are already stripped
    if x[0] == "field" and x[3] == "Ok" and x[1] == "0":
        inner = x[4]
        if inner[0] == "await" and inner[1][0] == "call" and inner[1][1] == "payment_provider::PaymentProvider::pay":
            return True, "Ok payload of pay"
    if x[0] == "field" and x[3] == "Some" and x[4][0] == "field" and x[4][3] == "Ok":
        inner = x[4][4]
        if inner[0] == "await" and inner[1][0] == "call" and inner[1][1] == "payment_provider::PaymentProvider::wait_payment":
            return True, "Some payload of wait_payment"
    if x[0] == "field" and x[1] == "preimage" and x[3] == "Succeeded" and x[4][0] == "field" and x[4][3] == "Ok":
        inner = x[4][4]
        if inner[0] == "await" and inner[1][0] == "call" and inner[1][1] == "store::Datastore::fetch_payment_info":
            return True, "stored Succeeded preimage"
    return False, ""


# ============================================================================ C10
def s_signature_gate(C, rep, rid):
    rep.rule(rid, "TrampolineInfo is built only behind check_signature()==Ok; payee = recovered key of that invoice; bolt11 = the parsed string; invoice = the parse result")
    F, X = C.F, C.X
    aggs = tinfo_aggs(F)
    if not rep.anchor(rid, "constructions of TrampolineInfo", len(aggs), 1):
        return
    for b, bi, s in aggs:
        fn = F.root_of(b)
        d = dict(zip(s["rv"]["fields"], s["rv"]["ops"]))
        inv = strip(X.operand(b, d["invoice"]))
        ok = False
        for src, truth, _c in lib.variant_facts(b, X, bi):
            if truth != ("Ok",):
                continue
            for a in alts(src):
                if a[0] == "call" and a[1] == "lightning_invoice::Bolt11Invoice::check_signature" and a[2] and show(a[2][0]) == show(inv):
                    ok = True
        rep.ob(rid, ok, fn, "signature gate dominates construction", where=loc(s["sp"]), how="check_signature() == Ok on the stored invoice",
               detail="" if ok else "a TrampolineInfo can be built from an invoice whose signature was not verified")
        pe = strip(X.operand(b, d["payee"]))
        okp = all(a[0] == "call" and a[1] == "lightning_invoice::Bolt11Invoice::get_payee_pub_key" and show(a[2][0]) == show(inv) for a in alts(pe))
        rep.ob(rid, okp, fn, "payee is the key the signature verifies against", where=loc(s["sp"]), how=show(pe)[:80], detail="" if okp else "payee is %s: with an explicit payee field (`n`) the signature is verified against that field, which only get_payee_pub_key returns" % show(pe)[:120])
        okinv = all(a[0] == "field" and a[3] == "Ok" and a[4][0] == "call" and a[4][1] == "core::str::<impl str>::parse" and "Bolt11Invoice" in a[4][4].full for a in alts(inv))
        rep.ob(rid, okinv, fn, "invoice is the parse result", where=loc(s["sp"]), how=show(inv)[:80], detail="" if okinv else "invoice field is %s" % show(inv)[:120])
        bo = strip(X.operand(b, d["bolt11"]))
        srcs = [a[4][2][0] for a in alts(inv) if a[0] == "field" and a[4][0] == "call" and a[4][2]]
        okb = bool(srcs) and all(show(x) == show(srcs[0]) for x in alts(bo)) or (bool(srcs) and all(show(srcs[0]) in show(x) and x[0] == "call" and x[1] in ("std::convert::From::from", "std::string::ToString::to_string", "std::borrow::ToOwned::to_owned", "std::string::String::from") for x in alts(bo)))
        rep.ob(rid, okb, fn, "bolt11 is the string that was parsed", where=loc(s["sp"]), how=show(bo)[:80], detail="" if okb else "bolt11 is %s but the invoice was parsed from %s" % (show(bo)[:60], show(srcs[0])[:60] if srcs else "?"))
        # the parsed string comes from TLV 33001 of the payment metadata (TLV 16) of the onion payload
        chain = show(inv)
        bfile = b.span.get("f")
        inv_x = strip(mm.inline_pure(F, X, inv, depth=3, keep=lambda n, bfile=bfile: F.by_cdef.get(n) is None or F.by_cdef[n].span.get("f") != bfile or n.startswith("<")))
        gets = [x for x in walk(inv_x) if x[0] == "call" and x[1] == "tlv::SerializedTlvStream::get"]
        consts = sorted({x[2][1][2] for x in gets if len(x[2]) > 1 and x[2][1][0] == "const"})
        okc = consts == [16, 33001]
        rep.ob(rid, okc, fn, "invoice comes from record 33001 inside payment metadata (record 16)", where=loc(s["sp"]), how=str(consts), detail="" if okc else "invoice bytes come from TLV path %s" % consts)


def a_amount_table(C, rep, rid):
    rep.rule(rid, "amount reconciliation: (inv a, tlv t) -> a if a==t; (a, none) -> a; (none, t) -> t; (none, none) -> no TrampolineInfo; t is the tu64 of record 33003")
    F, X = C.F, C.X
    aggs = tinfo_aggs(F)
    for b, bi, s in aggs:
        fn = F.root_of(b)
        d = dict(zip(s["rv"]["fields"], s["rv"]["ops"]))
        op = d.get("amount_msat")
        if op is None:
            rep.ob(rid, False, fn, "amount local", where=loc(s["sp"]), detail="cannot resolve the amount's definitions")
            continue
        # every assignment that can produce the amount (through moves, `?`, Ok(..) payloads and local pure helpers),
        # each with the Option/Result arms and comparisons that hold where it is made
        defs = mm.def_alternatives(F, X, b, op)
        # where an assignment is reached from several arms (`(Some(a), _) => a` after a failed `a != t` guard and from
        # `t == None`) no single branch dominates it: then one entry per path, each must be justified
        if not _amount_defs_ok(C, b, defs):
            pw = mm.def_alternatives(F, X, b, op, pathwise=True)
            if pw and len(pw) <= 64:
                defs = pw
        bfile = b.span.get("f")

        def other_file(n, bfile=bfile):
            return F.by_cdef.get(n) is None or F.by_cdef[n].span.get("f") != bfile or n.startswith("<")
        rep.anchor(rid, "definitions of the amount to deliver", len(defs), 2, fn=fn)
        inv_amt_call = [c for g in [b] + _pure_callee_bodies(F, b) for c in g.calls if c.name == "lightning_invoice::Bolt11Invoice::amount_milli_satoshis"]
        rep.anchor(rid, "invoice.amount_milli_satoshis()", len(inv_amt_call), 1, fn=fn)
        seen_cases = set()
        for e, vfacts, cfacts, wh in defs:
            e = strip(mm.inline_pure(F, X, e, keep=other_file))
            is_inv = all(a[0] == "field" and a[3] == "Some" and a[4][0] == "call" and a[4][1] == "lightning_invoice::Bolt11Invoice::amount_milli_satoshis" for a in alts(e))
            is_tlv = all(_is_tlv_amount(a) for a in alts(e))
            inv_state = tlv_state = None
            eqok = None
            for pe, truth in vfacts:
                pe = strip(mm.inline_pure(F, X, pe, keep=other_file))
                if all(a[0] == "call" and a[1] == "lightning_invoice::Bolt11Invoice::amount_milli_satoshis" for a in alts(pe)):
                    inv_state = truth
                elif any(_mentions_tlv_amount(a) for a in alts(pe)) and truth in (("Some",), ("None",)) and not any(_is_get_result(a) for a in alts(pe)):
                    tlv_state = truth
            for ea, cop, eb in cfacts:
                if cop not in ("Eq", "Ne"):
                    continue
                ea, eb = strip(mm.inline_pure(F, X, ea, keep=other_file)), strip(mm.inline_pure(F, X, eb, keep=other_file))
                pair = (_is_inv_amount(ea) and all(_is_tlv_amount(a) for a in alts(eb))) or (_is_inv_amount(eb) and all(_is_tlv_amount(a) for a in alts(ea)))
                if pair:
                    eqok = cop == "Eq"
            where = wh[0] + ":bb%s" % wh[1] if wh else loc(s["sp"])
            if wh and wh[0] in F.by_cdef and wh[1] is not None and wh[1] < len(F.by_cdef[wh[0]].blocks):
                where = loc(F.by_cdef[wh[0]].term(wh[1])["sp"])
            if is_inv:
                ok = inv_state == ("Some",) and (tlv_state == ("None",) or (tlv_state == ("Some",) and eqok is True))
                case = "inv+tlv-equal" if tlv_state == ("Some",) else "inv-only"
                rep.ob(rid, ok, fn, "invoice amount used (%s)" % case, where=where, how="arms inv=%s tlv=%s eq=%s" % (inv_state, tlv_state, eqok),
                       detail="" if ok else "the invoice amount is taken on arms invoice=%s tlv=%s equal=%s: a disagreeing amount field is not rejected" % (inv_state, tlv_state, eqok))
                seen_cases.add(case)
            elif is_tlv:
                ok = (inv_state == ("None",) and tlv_state == ("Some",)) or (inv_state == ("Some",) and tlv_state == ("Some",) and eqok is True)
                rep.ob(rid, ok, fn, "declared amount used only for amountless invoices", where=where, how="arms inv=%s tlv=%s" % (inv_state, tlv_state),
                       detail="" if ok else "the sender-declared amount is used on arms invoice=%s tlv=%s equal=%s: it can override the invoice's own amount" % (inv_state, tlv_state, eqok))
                seen_cases.add("tlv-only")
            else:
                rep.ob(rid, False, fn, "amount source", where=where, detail="the amount to deliver can be %s" % show(e)[:120])
        for case in ("inv+tlv-equal", "inv-only", "tlv-only"):
            rep.ob(rid, case in seen_cases, fn, "case %s handled" % case, where=loc(s["sp"]), how="definition present", detail="" if case in seen_cases else "no definition of the amount for case %s" % case, nontrivial=False)
        # tu64 Err maps to None (the decode may sit in the extractor or in a pure helper it calls)
        tus = [(hb, c) for hb in [b] + _pure_callee_bodies(F, b) for c in hb.calls if c.name == "tlv::ProtoBuf::get_tu64"]
        rep.anchor(rid, "get_tu64 on the amount record", len(tus), 1, fn=fn)
        for hb in [b] + _pure_callee_bodies(F, b):
            _tu64_rules(F, X, rep, rid, fn, hb, hb is not b)

def _tu64_rules(F, X, rep, rid, fn, b, is_helper):
    tu = [c for c in b.calls if c.name == "tlv::ProtoBuf::get_tu64"]
    for c in tu:
        # the decoder must see the whole field: nothing but type conversions between get(33003).value and get_tu64
        recv = strip(X.operand(b, c.args[0]))
        if is_helper:
            recv = strip(mm.expand_params(F, X, recv, depth=2))
        bfile_ = b.span.get("f")
        recv = strip(mm.inline_pure(F, X, recv, depth=3, keep=lambda n, bfile_=bfile_: F.by_cdef.get(n) is None or F.by_cdef[n].span.get("f") != bfile_ or n.startswith("<")))
        bad = [y for y in walk(recv) if y[0] == "call" and y[1] not in ("tlv::SerializedTlvStream::get", "tlv::FromBytes::from_bytes", "bytes::Bytes::from", "bytes::Bytes::copy_from_slice", "std::vec::Vec::as_slice", "bytes::Bytes::from_static")
               and not y[1].startswith("tlv::") and y[1] not in ("std::convert::TryFrom::try_from", "std::convert::TryInto::try_into")]
        rep.ob(rid, not bad, fn, "the whole amount field is decoded", where=c.loc, how=show(recv)[:90],
               detail="" if not bad else "the amount field is passed through %s before decoding: a field longer than 8 bytes is not rejected as malformed" % bad[0][1])
        # every `None` of the optional amount comes from 'record absent' or 'field malformed'
        outs = [l for l in b.locals_of_type(r"^std::option::Option<u64>$")]
        for l in outs:
            defs = [dd for dd in b.defs.get(l, []) if not dd[2] and dd[3] == "rv" and dd[4]["k"] == "agg"]
            if not any(dd[4].get("variant") == "Some" and any(y[0] == "call" and y[3][1] == c.bb for y in walk(strip(X.operand(b, dd[4]["ops"][0])))) for dd in defs if dd[4]["ops"]):
                continue
            for dd in defs:
                if dd[4].get("variant") != "None":
                    continue
                okn = False
                for cnd, truth in lib.dominating_conditions(b, dd[0]):
                    if cnd.kind == "enum":
                        pe = strip(X.place(b, cnd.place))
                        if truth == ("None",) and any(y[0] == "call" and y[1] == "tlv::SerializedTlvStream::get" for y in walk(pe)) and not any(y[0] == "call" and y[1] == "tlv::ProtoBuf::get_tu64" for y in walk(pe)):
                            okn = True
                        if truth == ("Err",) and all(a2[0] == "call" and a2[3][1] == c.bb for a2 in alts(pe)):
                            okn = True
                rep.ob(rid, okn, fn, "amount is absent only if the record is missing or malformed", where=loc(dd[5]), how="None under get()==None or get_tu64()==Err",
                       detail="" if okn else "a well-formed amount field can be treated as absent (at %s): a disagreeing amount is then not rejected" % loc(dd[5]))
    for c in tu:
        ar = ml.arms_of_result(b, X, c)
        if ar and ar[1].get("Err") is not None:
            err = ar[1]["Err"]
            okt = ar[1].get("Ok")
            own = b.reach([err]) - (b.reach([okt]) if okt is not None else set())
            vals = set()
            for bi2 in own:
                for st in b.blocks[bi2]["s"]:
                    if st["k"] == "assign" and st["rv"]["k"] == "agg" and st["rv"].get("adt") == "std::option::Option" and b.local_ty(st["lhs"]["l"]) == "std::option::Option<u64>":
                        vals.add(st["rv"]["variant"])
            ok = vals == {"None"}
            rep.ob(rid, ok, fn, "malformed amount field => treated as absent", where=c.loc, how=str(sorted(vals)), detail="" if ok else "an over-long amount field yields %s" % sorted(vals))



def _amount_state(C, b, vfacts, cfacts):
    F, X = C.F, C.X
    bfile = b.span.get("f")

    def other_file(n):
        return F.by_cdef.get(n) is None or F.by_cdef[n].span.get("f") != bfile or n.startswith("<")
    inv_state = tlv_state = eqok = None
    for pe, truth in vfacts:
        pe = strip(mm.inline_pure(F, X, pe, keep=other_file))
        if all(a[0] == "call" and a[1] == "lightning_invoice::Bolt11Invoice::amount_milli_satoshis" for a in alts(pe)):
            inv_state = truth
        elif any(_mentions_tlv_amount(a) for a in alts(pe)) and truth in (("Some",), ("None",)) and not any(_is_get_result(a) for a in alts(pe)):
            tlv_state = truth
    for ea, cop, eb in cfacts:
        if cop not in ("Eq", "Ne"):
            continue
        ea, eb = strip(mm.inline_pure(F, X, ea, keep=other_file)), strip(mm.inline_pure(F, X, eb, keep=other_file))
        if (_is_inv_amount(ea) and all(_is_tlv_amount(a) for a in alts(eb))) or (_is_inv_amount(eb) and all(_is_tlv_amount(a) for a in alts(ea))):
            eqok = cop == "Eq"
    return inv_state, tlv_state, eqok


def _amount_defs_ok(C, b, defs):
    F, X = C.F, C.X
    bfile = b.span.get("f")
    for e, vfacts, cfacts, wh in defs:
        e = strip(mm.inline_pure(F, X, e, keep=lambda n: F.by_cdef.get(n) is None or F.by_cdef[n].span.get("f") != bfile or n.startswith("<")))
        inv_state, tlv_state, eqok = _amount_state(C, b, vfacts, cfacts)
        is_inv = all(a[0] == "field" and a[3] == "Some" and a[4][0] == "call" and a[4][1] == "lightning_invoice::Bolt11Invoice::amount_milli_satoshis" for a in alts(e))
        is_tlv = all(_is_tlv_amount(a) for a in alts(e))
        if is_inv:
            if not (inv_state == ("Some",) and (tlv_state == ("None",) or (tlv_state == ("Some",) and eqok is True))):
                return False
        elif is_tlv:
            if not ((inv_state == ("None",) and tlv_state == ("Some",)) or (inv_state == ("Some",) and tlv_state == ("Some",) and eqok is True)):
                return False
        else:
            return False
    return True


def _is_get_result(a):
    """the record lookup itself (Option<TlvEntry>), not the decoded amount"""
    return a[0] == "call" and a[1] == "tlv::SerializedTlvStream::get"


def _pure_callee_bodies(F, b, depth=2):
    """bodies of the local synchronous functions called (transitively) from b - extracted helpers"""
    out = []
    seen = {b.cdef}
    todo = [(b, 0)]
    while todo:
        g, d = todo.pop()
        for c in g.calls:
            n = c.resolved or c.name
            cb = F.by_cdef.get(n)
            fi = F.fns.get(n)
            if cb is None or n in seen or cb.kind not in ("Fn", "AssocFn") or (fi and fi.get("async")) or n.startswith("<"):
                continue
            if cb.span.get("f") != b.span.get("f"):
                continue
            seen.add(n)
            out.append(cb)
            if d + 1 < depth:
                todo.append((cb, d + 1))
    return out


def _is_inv_amount(e):
    return all(a[0] == "field" and a[3] == "Some" and a[4][0] == "call" and a[4][1] == "lightning_invoice::Bolt11Invoice::amount_milli_satoshis" for a in alts(e))


def _mentions_tlv_amount(a):
    return any(x[0] == "call" and x[1] == "tlv::ProtoBuf::get_tu64" for x in walk(a)) or \
        any(x[0] == "call" and x[1] == "tlv::SerializedTlvStream::get" and len(x[2]) > 1 and x[2][1][0] == "const" and x[2][1][2] == 33003 for x in walk(a))


def _is_tlv_amount(a):
    """Some payload of the Option<u64> that holds Ok(get_tu64(record 33003))"""
    x = a
    if x[0] == "field" and x[3] == "Some":
        inner = x[4]
    else:
        inner = x
    ok = False
    for y in alts(inner):
        if y[0] == "field" and y[3] == "Ok" and y[4][0] == "call" and y[4][1] == "tlv::ProtoBuf::get_tu64":
            src = y[4][2][0] if y[4][2] else None
            ok = src is not None and any(z[0] == "call" and z[1] == "tlv::SerializedTlvStream::get" and len(z[2]) > 1 and z[2][1][0] == "const" and z[2][1][2] == 33003 for z in walk(src))
            if not ok:
                return False
        elif y[0] == "agg" and y[2] == "None":
            continue
        elif y[0] == "call" and y[1] == "std::ops::FromResidual::from_residual":
            continue                      # `get(..)?` in an Option-returning helper: None
        else:
            return False
    return ok


def r_self_route_hint(C, rep, rid):
    rep.rule(rid, "the local node as LAST hop of ANY route hint fails the HTLC unless allowed by configuration")
    F, X = C.F, C.X
    H = HHm.handler(C)
    if H is None or not H.check:
        rep.anchor(rid, "classification call", 0)
        return
    callee = H.check[0].resolved or H.check[0].name
    cb = F.by_cdef.get(callee)
    fn = F.root_of(cb)
    grp = F.group(fn)
    eqs = []
    for g in grp:
        for c in g.calls:
            if c.name in ("std::cmp::PartialEq::eq", "std::cmp::PartialEq::ne") and "PublicKey" in c.full:
                ea, eb = strip(X.operand(g, c.args[0])), strip(X.operand(g, c.args[1]))
                eqs.append((g, c, ea, eb))
    rep.anchor(rid, "public key comparison in the classification group", len(eqs), 1, fn=fn)
    for g, c, ea, eb in eqs:
        sa, sb = show(ea), show(eb)
        lp = [e for e in (ea, eb) if any(x[0] == "field" and x[1] == "local_pubkey" and x[2] == "htlc_manager::HtlcManagerParams" for x in walk(e))]
        hp = [e for e in (ea, eb) if any(x[0] == "field" and x[1] == "src_node_id" for x in walk(e))]
        ok = len(lp) == 1 and len(hp) == 1 and lp[0] is not hp[0]
        rep.ob(rid, ok, fn, "compares a hop's src_node_id with params.local_pubkey", where=c.loc, how="%s vs %s" % (sa[:40], sb[:40]), detail="" if ok else "key comparison is %s vs %s" % (sa[:60], sb[:60]))
    # the hop is obtained by slice::last, inside an iteration over all hints
    lasts = [(g, c) for g in grp for c in g.calls if c.name.startswith("core::slice::<impl [T]>::") and "RouteHintHop" in c.full]
    rep.anchor(rid, "hop selection call on a hint", len(lasts), 1, fn=fn)
    for g, c in lasts:
        ok = c.mname == "last"
        rep.ob(rid, ok, fn, "the inspected hop is the last one", where=c.loc, how=c.mname, detail="" if ok else "the gate inspects hint hops via %s(), not the last hop" % c.mname)
    idx = [(g, c) for g in grp for c in g.calls if c.name in ("std::ops::Index::index",) and "RouteHint" in c.full]
    for g, c in idx:
        rep.ob(rid, False, fn, "no positional indexing of hints/hops", where=c.loc, detail="route hints are indexed positionally")
    its = [c for c in cb.calls if c.name.startswith("std::iter::Iterator::") and "RouteHint" in c.full and c.mname in ("find", "any", "position", "filter", "find_map", "all", "next", "nth", "last", "take", "skip")]
    ok = len(its) >= 1 and all(c.mname in ("find", "any", "position", "filter", "find_map") for c in its)
    rep.ob(rid, ok, fn, "all hints are searched", where=its[0].loc if its else loc(cb.span), how=str([c.mname for c in its]),
           detail="" if ok else "route hints are inspected with %s: not every hint is considered" % [c.mname for c in its])
    for c in its:
        e = strip(X.operand(cb, c.args[0]))
        okk = _has_call(e, "lightning_invoice::Bolt11Invoice::route_hints") and not any(x[0] == "call" and x[1].startswith("std::iter::Iterator::") and x[1].split("::")[-1] in ("take", "skip", "rev", "step_by", "filter") for x in walk(e))
        rep.ob(rid, okk, fn, "search runs over invoice.route_hints()", where=c.loc, how=show(e)[:80], detail="" if okk else "search runs over %s" % show(e)[:100])
    # Trampoline construction only via (no hint) or (allowed)
    tr = [(bi, s) for bi in sorted(cb.reachable) for s in cb.blocks[bi]["s"] if s["k"] == "assign" and s["rv"]["k"] == "agg" and HHm._is_check_agg(H, s["rv"]) and s["rv"]["variant"] == H.tramp_variant]
    rep.anchor(rid, "Trampoline classification site", len(tr), 1, fn=fn)
    if not its or not tr:
        return
    f = its[0]
    sw = f.target
    none_t = lib.enum_arm_target(cb, sw, "None") if sw is not None else None
    some_t = lib.enum_arm_target(cb, sw, "Some") if sw is not None else None
    allow = None
    for bb in sorted(cb.reachable):
        c = lib.decode_switch(cb, bb)
        if c is not None and c.kind == "bool" and c.place is not None and any(p.get("n") == "allow_self_route_hints" for p in c.place["p"]):
            allow = (bb, c)
    rep.anchor(rid, "branch on allow_self_route_hints", 1 if allow else 0, fn=fn)
    if none_t is None or some_t is None or allow is None:
        return
    ft = lib.bool_edge_targets(cb, allow[0])
    t_true = ft[1] if not allow[1].negated else ft[0]
    t_false = ft[0] if not allow[1].negated else ft[1]
    for bi, s in tr:
        # remove the None edge and the allow==true edge: construction must become unreachable
        r = cb.reach([0], removed_edges=[(sw, lib_edge(cb, sw, "None")), (allow[0], t_true)])
        ok = bi not in r
        rep.ob(rid, ok, fn, "trampoline only if no self hint or allowed", where=loc(s["sp"]), how="unreachable with the `None` edge and the `allowed` edge removed",
               detail="" if ok else "an HTLC whose invoice has the local node as last hop of a hint is accepted although self route hints are disallowed")
    # the disallowed edge returns a Fail
    r = cb.reach([t_false]) - cb.reach([t_true])
    resp = [(bi, s) for bi in sorted(r) for s in cb.blocks[bi]["s"] if s["k"] == "assign" and s["rv"]["k"] == "agg" and HHm._is_check_agg(H, s["rv"])]
    ok = len(resp) == 1 and resp[0][1]["rv"]["variant"] == H.resp_variant
    if ok:
        vals = mm.eval_response(F, X, strip(X.operand(cb, resp[0][1]["rv"]["ops"][0])), C.enc_table)
        ok = all(v[0] == "Fail" for v in vals)
    rep.ob(rid, ok, fn, "disallowed self hint => fail", where=loc(resp[0][1]["sp"]) if resp else "", how="Response(Fail)", detail="" if ok else "the disallowed-self-hint path does not fail the HTLC")
    # the allow branch is only consulted when a self hint was found
    ok = allow[0] in cb.reach([some_t]) and allow[0] not in cb.reach([none_t])
    rep.ob(rid, ok, fn, "configuration consulted only for self hints", where=loc(cb.term(allow[0])["sp"]), how="reachable from Some only", detail="" if ok else "allow_self_route_hints is consulted on the wrong arm", nontrivial=False)


def lib_edge(b, sw, variant):
    """raw successor block of switch sw for enum variant (before false-edge skipping)"""
    c = lib.decode_switch(b, sw)
    t = b.term(sw)
    val = None
    for v, n in c.variants.items():
        if n == variant:
            val = v
    for v, tg in t["arms"]:
        if v == val:
            return tg
    return t["otherwise"]
