H = "src/htlc_manager.rs"
R = "src/rpc.rs"
MUTANTS = [
    {"name": "guard-across-height", "control": True, "expect": ["C14-L1"],
     "edits": [(H, "        (max_fee_msat, payment.cltv_expiry)\n    };", "        let _h = params.block_provider.current_height().await;\n        (max_fee_msat, payment.cltv_expiry)\n    };")]},
    {"name": "resolve-awaits-store-under-lock", "control": True, "expect": ["C14-L1"],
     "edits": [(H, "    let mut payments = payments.lock().await;\n    let mut payment = payments\n        .remove(trampoline.invoice.payment_hash())", "    let mut payments = payments.lock().await;\n    tokio::time::sleep(Duration::from_millis(1)).await;\n    let mut payment = payments\n        .remove(trampoline.invoice.payment_hash())")]},
    {"name": "shared-rpc-connection", "control": True, "expect": ["C14-L2"],
     "edits": [(R, "pub struct Rpc {\n    /// Socket file to connect to core lightning.\n    rpc_file: String,\n}", "pub struct Rpc {\n    /// Socket file to connect to core lightning.\n    rpc_file: String,\n    #[allow(dead_code)]\n    conn: std::sync::Arc<tokio::sync::Mutex<Option<cln_rpc::ClnRpc>>>,\n}"), (R, "        Self { rpc_file }", "        Self { rpc_file, conn: std::sync::Arc::new(tokio::sync::Mutex::new(None)) }")]},
    {"name": "global-static-sum", "expect": ["C14-K"],
     "edits": [(H, "const TLV_PAYMENT_METADATA: u64 = 16;", "const TLV_PAYMENT_METADATA: u64 = 16;\nstatic TOTAL_RECEIVED: std::sync::atomic::AtomicU64 = std::sync::atomic::AtomicU64::new(0);"), (H, "        self.cltv_expiry = std::cmp::min(req.htlc.cltv_expiry, self.cltv_expiry);", "        self.cltv_expiry = std::cmp::min(req.htlc.cltv_expiry, self.cltv_expiry);\n        TOTAL_RECEIVED.fetch_add(req.htlc.amount_msat, std::sync::atomic::Ordering::Relaxed);")]},
    {"name": "handler-rpc-under-lock", "expect": ["C14-L1"],
     "edits": [(H, "            // Ensure there's enough relative time to claim htlcs.", "            let _ = self.params.store.fetch_payment_info(&trampoline).await;\n            // Ensure there's enough relative time to claim htlcs.")]},
]
from mutants_common import EQUIV_LC as EQUIV
