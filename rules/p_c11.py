"""C11 - incomplete sets fail at the MPP timeout (DESIGN 5/C11)."""
import rules_lc as R

EXPLANATION = (
    "Decides on the lifecycle coroutine: (T1) the value passed to tokio::time::sleep in the pre-payment select is, per reaching "
    "definition, either params.mpp_timeout (Free arm) or mpp_timeout.saturating_sub(now - stored attempt_time_seconds) (Pending "
    "arm) - the receiver of the subtraction is the configured timeout, so a restart never grants more than it; arm(Pending) cannot "
    "reach the select except through that computation; (T2) the value slept on is guarded by is_zero(): zero => immediate "
    "temporary_trampoline_failure, no pay; (T3) the timer arm answers exactly once with 0x2019 and can reach neither pay nor a store "
    "write; (T4) on the Free arm nothing is answered before the select and its operands are exactly {timer, fail request, ready}; "
    "(T6) the timer is armed once: the sleep future of the pre-payment select is not created inside a loop (a re-armed timer lets every late partial HTLC extend the hold); (T5) the configured value reaches params.mpp_timeout (C19-W, cited). Wall-clock behaviour is not decided."
)
ASSUMPTIONS = ["tokio timer fires after the requested duration", "Duration::saturating_sub semantics", "attempt_time_seconds has one-second granularity"]


def run(F, X, rep):
    C = R.Ctx.get(F, X)
    if not R.need_lc(C, rep, "C11-T1"):
        return
    R.t1_timer_value(C, rep, "C11-T1")
    R.t2_zero_means_immediate(C, rep, "C11-T2")
    R.t3_timeout_arm(C, rep, "C11-T3")
    R.t4_not_before(C, rep, "C11-T4")
    R.t6_timer_armed_once(C, rep, "C11-T6")
    # the clock starts after the lifecycle's first RPC (the stored-state lookup): that lookup must not queue behind the
    # long-running RPCs of other payments (no connection / semaphore / lock shared across hashes: C14-L2)
    import rules_hh as H
    if H.need_hh(C, rep, "C11-T7"):
        H.l2_no_shared_blocking_state(C, rep, "C11-T7")
        # and the timer arm's answer needs the table lock: nothing may block while another task holds it
        H.p6_no_blocking_under_lock(C, rep, "C11-T8")
    # "a set that never reaches the required total": what counts as reached is the exact predicate (C12-X1/X2)
    import p_c12
    for pb in p_c12.find_fee_predicate(F)[:1]:
        p_c12.c12_x1(F, X, rep, pb)
        p_c12.c12_x2(F, X, rep, pb)
    # T5: the configured value reaches params.mpp_timeout (and is not crossed with the payment timeout)
    import p_c19
    mb = p_c19.main_body(F)
    if rep.anchor("C11-T5", "main coroutine", 1 if mb else 0):
        p_c19.w_wiring(F, X, rep, mb, F.root_of(mb), rid="C11-T5")
