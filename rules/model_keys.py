"""Symbolic value of a datastore key (a Vec<String>): the ordered list of its components, whatever the way the vector
is put together - `vec![..]`, `Vec::new()` + `push`, a shared prefix helper + `push`, named string constants.

component = ("lit", text) | ("hex", expr) | ("expr", expr)
`components(F, X, e)` evaluates a key *expression* (a call of a local key constructor with its arguments substituted,
or an inline construction); None when the construction is not one of the shapes above (callers then fall back to the
coarser "which string constants / hex calls does the constructor contain" summary)."""
import lib
from mir import Call, strip, alts, walk
import model_msgs as mm

HEX_CALLS = ("hex::ToHex::encode_hex", "hex::encode", "hex::ToHex::encode_hex_upper")
VEC_NEW = ("std::vec::Vec::new", "std::vec::Vec::with_capacity")
INTO_VEC = ("std::boxed::box_assume_init_into_vec_unsafe", "std::slice::<impl [T]>::into_vec", "alloc::slice::<impl [T]>::into_vec")


def _component(F, X, body, op):
    e = strip(X.operand(body, op))
    return _component_of_expr(e)


def _component_of_expr(e):
    if e[0] == "const" and isinstance(e[1], str) and e[1].startswith('"'):
        return ("lit", e[1].strip('"'))
    if e[0] == "call" and e[1] in ("std::string::ToString::to_string", "std::string::String::from_str", "std::str::<impl str>::to_string") and e[2]:
        return _component_of_expr(e[2][0])
    if e[0] == "call" and e[1] in HEX_CALLS and e[2]:
        return ("hex", e[2][0])
    return ("expr", e)


def _root_local(body, o):
    ro = lib.root_operand(body, o)
    if ro["k"] in ("copy", "move") and not [p for p in ro["pl"]["p"] if p["k"] != "deref"]:
        return ro["pl"]["l"]
    return None


def _refs_to(body, l):
    """locals that are `&mut l` / `&l` / moves of those"""
    out = {l}
    for _ in range(4):
        for k, ds in body.defs.items():
            for d in ds:
                if d[3] == "rv" and not d[2]:
                    rv = d[4]
                    src = None
                    if rv["k"] == "ref":
                        src = rv["pl"]
                    elif rv["k"] == "use" and rv["op"]["k"] in ("copy", "move"):
                        src = rv["op"]["pl"]
                    if src is not None and src["l"] in out and not [p for p in src["p"] if p["k"] != "deref"]:
                        out.add(k)
    return out


def vec_of_local(F, X, body, l, depth=0):
    """components of the Vec held in local `l` of `body` at the function's return, or None"""
    if depth > 4:
        return None
    ds = [d for d in body.defs.get(l, []) if not d[2]]
    if len(ds) != 1:
        return None
    d = ds[0]
    base = None
    if d[3] == "rv":
        rv = d[4]
        if rv["k"] == "use" and rv["op"]["k"] in ("copy", "move"):
            sl = _root_local(body, rv["op"])
            if sl is None or sl == l:
                return None
            return vec_of_local(F, X, body, sl, depth + 1)
        return None
    c = Call(body, d[0], d[4])
    if c.name in VEC_NEW:
        base = []
    elif c.name in INTO_VEC and c.args:
        bl = _root_local(body, c.args[0])
        base = _boxed_array(F, X, body, bl) if bl is not None else None
    elif c.name in ("std::convert::From::from", "std::convert::Into::into", "std::slice::<impl [T]>::to_vec", "std::vec::Vec::from") and c.args:
        base = _array_operand(F, X, body, c.args[0])
    elif c.name in ("std::clone::Clone::clone",) and c.args:
        sl = _root_local(body, c.args[0])
        base = vec_of_local(F, X, body, sl, depth + 1) if sl is not None and sl != l else None
    else:
        cal = c.resolved or c.name
        cb = F.by_cdef.get(cal)
        if cb is not None and cb.kind in ("Fn", "AssocFn"):
            inner = vec_of_fn(F, X, cb, depth + 1)
            if inner is not None:
                args = tuple(strip(X.operand(body, a)) for a in c.args)
                base = [(k, mm.subst_params(v, cb.cdef, args) if k != "lit" else v) for k, v in inner]
                base = [_component_of_expr(strip(v)) if k == "expr" else (k, v) for k, v in base]
    if base is None:
        return None
    # pushes on that vector, in program order; each must lie on every path from the definition to the return
    refs = _refs_to(body, l)
    pushes = []
    for c2 in body.calls:
        if c2.name in ("std::vec::Vec::push", "std::vec::Vec::extend_from_slice", "std::vec::Vec::insert", "std::vec::Vec::append",
                       "std::iter::Extend::extend", "std::vec::Vec::pop", "std::vec::Vec::truncate", "std::vec::Vec::clear", "std::vec::Vec::remove"):
            rl = _root_local(body, c2.args[0]) if c2.args else None
            if rl in refs:
                if c2.name != "std::vec::Vec::push":
                    return None
                pushes.append(c2)
    rets = body.returns()
    for p in pushes:
        if not all(body.dominates(p.bb, r) for r in rets) or p.bb in body.reach_after([p.bb]):
            return None
    pushes.sort(key=lambda p: len(body.dom.get(p.bb, ())))
    for a, b2 in zip(pushes, pushes[1:]):
        if not body.dominates(a.bb, b2.bb):
            return None
    return list(base) + [_component(F, X, body, p.args[1]) for p in pushes]


def _boxed_array(F, X, body, bl):
    """Box<MaybeUninit<[T; N]>> local initialised by `(*b).value = [a, b, ..]` (the vec! expansion)"""
    seen = {bl}
    for _ in range(4):
        for d in body.defs.get(bl, []):
            if d[3] == "rv" and not d[2] and d[4]["k"] == "use" and d[4]["op"]["k"] in ("copy", "move"):
                bl = d[4]["op"]["pl"]["l"]
                seen.add(bl)
    for l in seen:
        for d in body.defs.get(l, []):
            if d[3] == "rv" and d[2] and d[4]["k"] == "agg" and d[4].get("ak") == "array":
                return [_component(F, X, body, o) for o in d[4]["ops"]]
    return None


def _array_operand(F, X, body, op):
    d = lib.def_rvalue(body, op)
    if d is not None and d[0] == "rv" and d[1]["k"] == "agg" and d[1].get("ak") == "array":
        return [_component(F, X, body, o) for o in d[1]["ops"]]
    return None


def vec_of_fn(F, X, fb, depth=0):
    """components of the Vec<String> returned by function body fb (params left symbolic)"""
    rets = fb.returns()
    if not rets:
        return None
    return vec_of_local(F, X, fb, 0, depth)


def components(F, X, e):
    """components of a key expression as seen at a use site"""
    out = None
    for a in alts(strip(e)):
        comps = None
        if a[0] == "call":
            cal = a[4].resolved or a[1]
            cb = F.by_cdef.get(cal)
            if cb is not None and cb.kind in ("Fn", "AssocFn"):
                inner = vec_of_fn(F, X, cb)
                if inner is not None:
                    comps = []
                    for k, v in inner:
                        if k == "lit":
                            comps.append((k, v))
                        else:
                            v2 = strip(mm.subst_params(v, cb.cdef, a[2]))
                            comps.append(_component_of_expr(v2) if k == "expr" else (k, v2))
        if comps is None:
            return None
        if out is not None and [c[:1] + (c[1] if c[0] == "lit" else "",) for c in out] != [c[:1] + (c[1] if c[0] == "lit" else "",) for c in comps]:
            return None
        out = comps
    return out
