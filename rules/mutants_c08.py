S = "src/store.rs"
H = "src/htlc_manager.rs"
MUTANTS = [
    {"name": "ignore-add-attempt-error", "control": True, "expect": ["C08-W1"],
     "edits": [(H, "            resolve(\n                &payments,\n                &trampoline,\n                HtlcAcceptedResponse::temporary_node_failure(),\n            )\n            .await;\n            return;\n        }\n    };\n\n    trace!(\"about to pay.\");", "            Default::default()\n        }\n    };\n\n    trace!(\"about to pay.\");")]},
    {"name": "attempt-record-before-marker", "control": True, "expect": ["C08-W1"],
     "edits": [(S, "        let state = serde_json::to_string(&state)?;\n\n        // TODO: double check", "        let state = serde_json::to_string(&state)?;\n        self.rpc.datastore(&DatastoreRequest { generation: None, hex: None, key: attempt_key(trampoline.invoice.payment_hash(), attempt_id.clone()), mode: Some(DatastoreMode::CREATE_OR_REPLACE), string: Some(String::from(\"{}\")) }).await?;\n\n        // TODO: double check")]},
    {"name": "pending-write-not-awaited-ok", "expect": ["C08-W1"],
     "edits": [(S, "            .await?\n            .generation;\n", "            .await\n            .ok()\n            .and_then(|r| r.generation);\n")]},
    {"name": "free-without-generation", "control": True, "expect": ["C08-W2"],
     "edits": [(S, "generation: Some(attempt_id.state_generation),", "generation: None,")]},
    {"name": "free-in-mark-succeeded-error-path", "expect": ["C08-W2"],
     "edits": [(S, "        let state = PersistPaymentState::Succeeded { preimage };\n        let state = serde_json::to_string(&state)?;", "        let state = PersistPaymentState::Succeeded { preimage };\n        let state = match serde_json::to_string(&state) { Ok(s) => s, Err(_) => serde_json::to_string(&PersistPaymentState::Free)? };")]},
    {"name": "succeeded-stores-empty-preimage", "expect": ["C08-W3"],
     "edits": [(S, "let state = PersistPaymentState::Succeeded { preimage };", "let state = PersistPaymentState::Succeeded { preimage: { let _ = preimage; vec![] } };")]},
    {"name": "mark-succeeded-other-value", "expect": ["C08-W3"],
     "edits": [(H, "                .mark_succeeded(&trampoline, &attempt_id, preimage)\n                .await\n            {\n                error!(\"Failed to mark payment as succeeded: {:?}\", e);", "                .mark_succeeded(&trampoline, &attempt_id, trampoline.bolt11.clone().into_bytes())\n                .await\n            {\n                error!(\"Failed to mark payment as succeeded: {:?}\", e);")]},
    {"name": "fetch-pending-as-free", "expect": ["C08-W4"],
     "edits": [(S, "            PersistPaymentState::Free => PaymentState::Free,\n            PersistPaymentState::Pending {\n                attempt_id,\n                attempt_time_seconds,\n            } => PaymentState::Pending {", "            PersistPaymentState::Free => PaymentState::Free,\n            PersistPaymentState::Pending { attempt_time_seconds, .. } if attempt_time_seconds == 0 => PaymentState::Free,\n            PersistPaymentState::Pending {\n                attempt_id,\n                attempt_time_seconds,\n            } => PaymentState::Pending {")]},
    {"name": "fetch-decode-error-as-free", "expect": ["C08-W4"],
     "edits": [(S, "                    let des: PersistPaymentState =\n                        serde_json::from_str(&state.string.ok_or(anyhow!(\"state missing\"))?)?;\n                    PaymentState::from(des, state.generation)", "                    match serde_json::from_str::<PersistPaymentState>(&state.string.clone().unwrap_or_default()) {\n                        Ok(des) => PaymentState::from(des, state.generation),\n                        Err(_) => PaymentState::Free,\n                    }")]},
    {"name": "pay-before-add-attempt", "expect": ["C08-W1"],
     "edits": [(H, "    let attempt_id = match params.store.add_payment_attempt(&trampoline).await {", "    let early = params.payment_provider.pay(PaymentRequest { bolt11: trampoline.bolt11.clone(), payment_hash: *trampoline.invoice.payment_hash(), amount_msat, max_fee_msat, max_cltv_delta }).await;\n    let _ = early;\n    let attempt_id = match params.store.add_payment_attempt(&trampoline).await {")]},
    {"name": "mark-failed-from-timeout-arm", "expect": ["C08-W2"],
     "edits": [(H, "            debug!(\"Payment timed out waiting for htlcs.\");", "            debug!(\"Payment timed out waiting for htlcs.\");\n            let _ = params.store.mark_failed(&trampoline, &Default::default()).await;")]},
]

from mutants_common import EQUIV_LC as EQUIV
