"""C14 - isolation between hashes (DESIGN 5/C14)."""
import rules_lc as R
import rules_hh as H
import rules_ext as E
import rules_store as S

EXPLANATION = (
    "Decides: (L1) for every guard of the payments table in the crate, the awaits inside its live region are only the add-listener / fail-requester "
    "coroutines, which themselves await only latched single-shot mpsc sends (flag false-guarded, set before sending, resets accompanied by a "
    "permanent co-guard, capacity>=1); no second lock, no RPC/sleep/output while the guard is live; (L2) Rpc/ClnDatastore/PayPaymentProvider have no "
    "lock/channel/connection field and every ClnRpc method opens its own connection; other guards in handler scope are never held across an await; "
    "(K) table and datastore keys are the invoice hash (C01-K), no global mutable state; (T) one spawned lifecycle per entry (C05-A3); (S) a hash reads the record under its own state key (C08-W4); (D) every hook call runs in its own spawned task, never awaited by the reader (C17-R2). Scheduler "
    "and node-RPC fairness are not decided."
)
ASSUMPTIONS = ["tokio runtime schedules ready tasks", "cln_rpc::ClnRpc::new opens an independent unix-socket connection"]


def run(F, X, rep):
    C = R.Ctx.get(F, X)
    if not (R.need_lc(C, rep, "C14-L1") and H.need_hh(C, rep, "C14-L1")):
        return
    H.p6_no_blocking_under_lock(C, rep, "C14-L1")
    H.l2_no_shared_blocking_state(C, rep, "C14-L2")
    E.k_key_is_invoice_hash(C, rep, "C14-K")
    # an HTLC is associated with the entry of its OWN hash: the invoice hash that keys the table equals the HTLC's hash
    # before the entry is looked up or created
    E.g_hash_gate(C, rep, "C14-G")
    S.w5_no_deletion_and_keys(C, rep, "C14-K")
    H.k_no_global_state(C, rep, "C14-K")
    R.a3_one_lifecycle_per_entry(C, rep, "C14-T")
    # "stored state is never pooled across hashes": what a hash reads back is the record under ITS OWN state key (C08-W4, cited)
    S.w4_fetch_mapping(C, rep, "C14-S")
    # "a stalled payment does not delay the responses for HTLCs of a different hash": the hook call of every HTLC runs in its own spawned
    # task - the reader does nothing but read and spawn, it never awaits a handler (C17-R2, cited)
    import p_c17
    p_c17.r2(F, X, rep, "C14-D")
    # the table lock is WAITED for: a handler that finds it taken by another hash's short critical section must queue (`lock().await`);
    # `try_lock` makes the outcome for one hash depend on what another hash is doing at that instant
    rep.rule("C14-A", "the payments table (and every other shared tokio Mutex of the handler path) is acquired by awaiting lock(), never by try_lock")
    tl = [(b, c) for b in F.code_bodies() for c in b.calls
          if not c.noise and c.name in ("tokio::sync::Mutex::try_lock", "tokio::sync::Mutex::try_lock_owned", "tokio::sync::RwLock::try_write", "tokio::sync::RwLock::try_read", "std::sync::Mutex::try_lock")
          and "src/" in b.span.get("f", "") and "/cln_plugin/logging" not in b.span.get("f", "") and "::tests" not in b.cdef]
    import names as NM14
    ps = NM14.PS()
    tbl = [(b, c) for b, c in tl if ps in (c.full or "")]
    rep.ob("C14-A", not tbl, F.root_of(tbl[0][0]) if tbl else "crate", "the payments table is never try_lock'ed", where=tbl[0][1].loc if tbl else "", how="no try_lock on the table",
           detail="" if not tbl else "the payments table is taken with try_lock at %s: while another hash holds it the HTLC is not queued - it is dropped or fails (the outcome depends on another payment)" % tbl[0][1].loc)
    locks = [c for b in F.code_bodies() for c in b.calls if c.name == "tokio::sync::Mutex::lock" and ps in (c.full or "")]
    rep.anchor("C14-A", "lock() acquisitions of the payments table", len(locks), 2)
