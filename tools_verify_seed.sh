#!/bin/bash
# usage: tools_verify_seed.sh <PID> [seeddir]   - confirm a sub-agent's seeded change in the scratch worktree /tmp/wt/verify
set -u
PID=$1
SRC=${2:-/tmp/wt/$PID/seed}
V=/tmp/wt/verify
cd $V && git checkout -q -- . && git clean -fdq -e target
export CARGO_NET_OFFLINE=true
run() { (cd $V && cargo test --offline 2>&1 | grep -E "^test result|FAILED|failed|panicked|error(\[|:)" | head -12); }
echo "== apply check"; git apply --check $SRC/patch.diff && echo patch-ok; git apply --check $SRC/demo.diff && echo demo-ok
echo "== (a) defect only"; git apply $SRC/patch.diff; run; git checkout -q -- . ; git clean -fdq -e target
echo "== (c) demo only"; git apply $SRC/demo.diff; run; git checkout -q -- . ; git clean -fdq -e target
echo "== (b) defect + demo"; git apply $SRC/patch.diff; git apply $SRC/demo.diff 2>/dev/null || git apply --3way $SRC/demo.diff; run; git checkout -q -- . ; git clean -fdq -e target
