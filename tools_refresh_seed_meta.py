#!/usr/bin/env python3
"""dev: recompute `checks_firing` of every kept seeded change against the current rules (scratch copies; /repo untouched)"""
import json, os, sys, glob
sys.path.insert(0, os.path.join(os.path.dirname(os.path.abspath(__file__)), "rules"))
import tools_regress as TR
from concurrent.futures import ProcessPoolExecutor
TR.engine.facts_path(True)
dirs = sorted(glob.glob("/verif/seeded/*"))
jobs = [("seed", os.path.basename(d), os.path.join(d, "patch.diff"), TR.PROPS, True) for d in dirs]
with ProcessPoolExecutor(max_workers=12) as ex:
    for (kind, name, st, why, fired, wall) in ex.map(TR.job, jobs):
        mp = "/verif/seeded/%s/meta.json" % name
        m = json.load(open(mp))
        p = m.get("property") or name[:3]
        m["checks_firing"] = {k: v[0] for k, v in fired.items()}
        m["caught_by_own_property_check"] = p in fired
        json.dump(m, open(mp, "w"), indent=1)
        print(name, "OWN" if p in fired else "**MISSED**", sorted(fired))
