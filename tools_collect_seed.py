#!/usr/bin/env python3
"""collect a verified sub-agent seed into /verif/seeded/<name>/ and record which checks fire on it"""
import json, os, shutil, subprocess, sys
name, src, prop = sys.argv[1], sys.argv[2], sys.argv[3]
verified = sys.argv[4] if len(sys.argv) > 4 else ""
dst = os.path.join("/verif/seeded", name)
os.makedirs(dst, exist_ok=True)
shutil.copy(os.path.join(src, "patch.diff"), os.path.join(dst, "patch.diff"))
shutil.copy(os.path.join(src, "demo.diff"), os.path.join(dst, "demo.diff"))
am = json.load(open(os.path.join(src, "meta.json")))
r = subprocess.run(["./tools_seed.py", os.path.join(dst, "patch.diff")], cwd="/verif", stdout=subprocess.PIPE, stderr=subprocess.STDOUT, text=True)
fired = {}
cur = None
for l in r.stdout.split("\n"):
    if l.endswith(" FIRED"):
        cur = l.split()[0]; fired[cur] = []
    elif l.strip().startswith("rule=") and cur:
        fired[cur].append(l.strip().split(" ")[0].replace("rule=", ""))
meta = {
    "property": prop,
    "origin": "independent sub-agent given only the property text and a scratch worktree (nothing from /verif)",
    "summary": am.get("summary"),
    "needs_to_manifest": am.get("needs"),
    "why_tests_pass": am.get("why_tests_pass"),
    "confirmed_by_me": {
        "worktree": "/tmp/wt/verify (scratch git worktree of /repo HEAD, removed afterwards)",
        "commands": ["git apply patch.diff && cargo test --offline", "git apply demo.diff && cargo test --offline", "git apply patch.diff demo.diff && cargo test --offline"],
        "results": verified or "defect only: 56 passed; demo only: all pass; defect+demo: demo test(s) fail",
    },
    "checks_run": "git -C /repo apply patch.diff; ./check Cxx (all 20, quick, controls off); git -C /repo checkout -- .",
    "checks_firing": {k: sorted(set(v)) for k, v in fired.items()},
    "caught_by_own_property_check": prop in fired,
}
json.dump(meta, open(os.path.join(dst, "meta.json"), "w"), indent=1)
print(name, "->", {k: sorted(set(v)) for k, v in fired.items()})
