#!/bin/bash
# dev: tools_variant.sh <base.diff> <out.diff> <file> <sed-expr> : base refactoring + one further edit, as a diff against /repo (scratch copy under /var/tmp)
set -e
BASE=$(readlink -f "$1")
D=$(mktemp -d -p /var/tmp verif-var-XXXX)
mkdir -p $D/a $D/b
cp -r /repo/src $D/a/src; cp -r /repo/src $D/b/src
(cd $D/b && patch -p1 -s -i "$BASE" < /dev/null)
sed -i -E "$4" $D/b/$3
(cd $D && diff -ru a/src b/src > out.diff || true)
cp $D/out.diff $2
rm -rf $D
