#!/usr/bin/env python3
"""collect verified seeds (SUB=a|b: micro-mutation rounds keep two per worktree in seed/a, seed/b): [WT_LETTER=D ORIGIN_NOTE=..] ./tools_collect3.py <suffix> <verify-log> Cxx ...  (scratch-copy based; /repo untouched)"""
import json, os, shutil, sys
sys.path.insert(0, os.path.join(os.path.dirname(os.path.abspath(__file__)), "rules"))
import tools_regress as TR
suffix, vlog = sys.argv[1], sys.argv[2]
WL = os.environ.get("WT_LETTER", "C")
SUB = os.environ.get("SUB", "")
NOTE = os.environ.get("ORIGIN_NOTE", "round 3: asked to hide the defect inside a plausible refactoring")
logs = {l.split(" | ")[0].strip(): l.strip() for l in open(vlog) if " | " in l}
from concurrent.futures import ProcessPoolExecutor
jobs = []
for p in sys.argv[3:]:
    src = "/tmp/wt/%s%s/seed%s" % (p, WL, ("/" + SUB) if SUB else "")
    dst = "/verif/seeded/%s-%s%s" % (p, suffix, SUB)
    os.makedirs(dst, exist_ok=True)
    for f in ("patch.diff", "demo.diff"):
        shutil.copy(os.path.join(src, f), os.path.join(dst, f))
    jobs.append(("seed", "%s-%s%s" % (p, suffix, SUB), os.path.join(dst, "patch.diff"), TR.PROPS, True))
TR.engine.facts_path(True)
with ProcessPoolExecutor(max_workers=10) as ex:
    for (kind, name, st, why, fired, wall), j in zip(ex.map(TR.job, jobs), jobs):
        p = name[:3]
        am = json.load(open("/tmp/wt/%s%s/seed%s/meta.json" % (p, WL, ("/" + SUB) if SUB else "")))
        meta = {
            "property": p,
            "origin": "independent sub-agent given only the property text and a scratch worktree (nothing from /verif); " + NOTE,
            "summary": am.get("summary"), "needs_to_manifest": am.get("needs"), "why_tests_pass": am.get("why_tests_pass"),
            "confirmed_by_me": {"worktree": "the sub-agent's scratch worktree /tmp/wt/%s%s reset to HEAD (removed afterwards)" % (p, WL),
                                "commands": ["git apply patch.diff && cargo test --offline", "git apply demo.diff && cargo test --offline", "git apply patch.diff demo.diff && cargo test --offline"],
                                "results": logs.get(p + WL + (("-" + SUB) if SUB else ""), "")[:1500]},
            "checks_run": "all twenty property modules on a scratch copy of /repo's sources with patch.diff applied (tools_regress.job); /repo untouched",
            "checks_firing": {k: v[0] for k, v in fired.items()},
            "first_messages": {k: v[1] for k, v in fired.items()},
            "caught_by_own_property_check": p in fired,
        }
        json.dump(meta, open("/verif/seeded/%s/meta.json" % name, "w"), indent=1)
        print(name, st, "OWN" if p in fired else "** MISSED BY OWN **", {k: v[0] for k, v in fired.items()})
