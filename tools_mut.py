#!/usr/bin/env python3
"""dev helper:  ./tools_mut.py Cxx [name-substring]   - replay the mutant catalogue of a property"""
import sys, os, importlib, json
sys.path.insert(0, os.path.join(os.path.dirname(os.path.abspath(__file__)), "rules"))
import engine, controls
prop = sys.argv[1]
sub = sys.argv[2] if len(sys.argv) > 2 else ""
engine.facts_path(True)
mod = importlib.import_module("p_" + prop.lower())
known = {k["key"] for k in engine.load_known() if k.get("status") == "known" and k.get("property") == prop}
for m in controls.load_catalogue(prop):
    if sub and sub not in m["name"]:
        continue
    r = controls.run_mutant(mod, prop, m, known)
    print("%-8s %-32s %s %s" % (r["status"], r["name"], r.get("fired"), r.get("first", r.get("why", ""))[:150]))

try:
    eq = importlib.import_module("mutants_" + prop.lower()).EQUIV
except (ImportError, AttributeError):
    eq = []
for m in eq:
    if sub and sub not in m["name"]:
        continue
    r = controls.run_mutant(mod, prop, m, known)
    st = {"missed": "silent", "fired": "FALSE-ALARM"}.get(r["status"], r["status"])
    print("%-11s %-32s %s %s" % (st, r["name"], r.get("fired"), r.get("first", r.get("why", ""))[:200]))
