#!/usr/bin/env python3
"""dev/self-test: apply every behaviour-preserving edit (all EQUIV lists + GLOBAL_EQUIV) and run ALL twenty
property modules on the variant; any violation is a false alarm of the checker."""
import sys, os, importlib, json, glob
sys.path.insert(0, os.path.join(os.path.dirname(os.path.abspath(__file__)), "rules"))
import engine, controls, mir
engine.facts_path(True)
props = ["C%02d" % i for i in range(1, 21)]
mods = {p: importlib.import_module("p_" + p.lower()) for p in props}
known = {k["key"] for k in engine.load_known() if k.get("status") == "known"}
edits = {}
for f in sorted(glob.glob(os.path.join(os.path.dirname(os.path.abspath(__file__)), "rules", "mutants_*.py"))):
    m = importlib.import_module(os.path.basename(f)[:-3])
    for e in getattr(m, "EQUIV", []) + getattr(m, "GLOBAL_EQUIV", []):
        edits.setdefault(e["name"], e)
sub = sys.argv[1] if len(sys.argv) > 1 else ""
bad = 0
for name, e in edits.items():
    if sub and sub not in name:
        continue
    F, st = controls.variant_facts(e["edits"])
    if F is None:
        print("%-14s %-40s %s" % (st.split(":")[0], name, st[:160].replace("\n", " ")))
        continue
    fired = {}
    for p in props:
        rep = controls.run_rules_on(mods[p], F, p)
        v = [o for o in rep.violations() if o["key"] not in known]
        if v:
            fired[p] = sorted({o["rule"] for o in v}), (v[0]["detail"] or v[0]["what"])[:140]
    if fired:
        bad += 1
        print("FALSE-ALARM    %-40s %s" % (name, fired))
    else:
        print("silent         %s" % name)
print("false alarms:", bad)
