#!/usr/bin/env python3
"""dev: ./tools_patch.py <diff>...  - apply each diff to a scratch COPY of /repo's sources (never /repo itself),
extract facts with the driver directly and run all twenty property modules; prints the rules that fire."""
import sys, os, importlib, subprocess, shutil, tempfile
sys.path.insert(0, os.path.join(os.path.dirname(os.path.abspath(__file__)), "rules"))
import engine, controls, mir
engine.facts_path(True)
props = ["C%02d" % i for i in range(1, 21)]
mods = {p: importlib.import_module("p_" + p.lower()) for p in props}
known = {k["key"] for k in engine.load_known() if k.get("status") == "known"}
import hashlib, argparse
ap = argparse.ArgumentParser()
ap.add_argument("diffs", nargs="+")
ap.add_argument("-p", default="")
ap.add_argument("-v", action="store_true")
ap.add_argument("--log", action="store_true")
ap.add_argument("--facts", action="store_true")
args = ap.parse_args()
if args.p:
    props = [p for p in props if p in args.p.split(",")]
CACHE = "/var/tmp/verif-patchfacts"
os.makedirs(CACHE, exist_ok=True)
nsilent = 0
for diff in args.diffs:
    d = tempfile.mkdtemp(prefix="verif-patch-", dir="/var/tmp")
    try:
        hk = hashlib.sha256((engine.source_hash() + open(diff).read()).encode()).hexdigest()[:20]
        cf = os.path.join(CACHE, hk + ".json")
        shutil.copytree("/repo/src", os.path.join(d, "src"))
        for f in ("Cargo.toml", "Cargo.lock"):
            shutil.copy(os.path.join("/repo", f), os.path.join(d, f))
        r = subprocess.run(["patch", "-p1", "-s", "-i", os.path.abspath(diff)], cwd=d, stdout=subprocess.PIPE, stderr=subprocess.STDOUT, text=True)
        if r.returncode != 0:
            print("%-50s PATCH-FAILED %s" % (diff[-50:], r.stdout[:200].replace("\n", " ")))
            continue
        if os.path.exists(cf):
            out = cf
        else:
            out, log = engine.extract_variant(d, True)
            if out is None:
                print("%-50s COMPILE-ERROR %s" % (diff[-50:], log[-300:].replace("\n", " ")))
                continue
            shutil.copy(out, cf)
        F = mir.Facts(out)
        if args.facts:
            print(cf)
        if args.log:
            for x in F.inline_log:
                if "cln_plugin" not in x[0] and "rpc::Rpc" not in x[0]:
                    print("   inl", x)
        fired = {}
        for p in props:
            rep = controls.run_rules_on(mods[p], F, p)
            v = [o for o in rep.violations() if o["key"] not in known]
            if v:
                fired[p] = (sorted({o["rule"] for o in v}), (v[0]["detail"] or v[0]["what"])[:200], v)
        if fired:
            print("%-50s FIRED" % diff[-50:])
            for p, (rs, msg, v) in fired.items():
                print("      %s %s: %s" % (p, rs, msg))
                if args.v:
                    for o in v:
                        print("          - %s | %s | %s" % (o["rule"], o["key"], (o["detail"] or o["what"])[:600]))
        else:
            nsilent += 1
            print("%-50s silent" % diff[-50:])
    finally:
        shutil.rmtree(d, ignore_errors=True)
print("silent %d / %d" % (nsilent, len(args.diffs)))
