#!/usr/bin/env python3
"""dev: ./tools_patch.py <diff>...  - apply each diff to a scratch COPY of /repo's sources (never /repo itself),
extract facts with the driver directly and run all twenty property modules; prints the rules that fire."""
import sys, os, importlib, subprocess, shutil, tempfile
sys.path.insert(0, os.path.join(os.path.dirname(os.path.abspath(__file__)), "rules"))
import engine, controls, mir
engine.facts_path(True)
props = ["C%02d" % i for i in range(1, 21)]
mods = {p: importlib.import_module("p_" + p.lower()) for p in props}
known = {k["key"] for k in engine.load_known() if k.get("status") == "known"}
for diff in sys.argv[1:]:
    d = tempfile.mkdtemp(prefix="verif-patch-", dir="/var/tmp")
    try:
        shutil.copytree("/repo/src", os.path.join(d, "src"))
        for f in ("Cargo.toml", "Cargo.lock"):
            shutil.copy(os.path.join("/repo", f), os.path.join(d, f))
        r = subprocess.run(["patch", "-p1", "-s", "-i", os.path.abspath(diff)], cwd=d, stdout=subprocess.PIPE, stderr=subprocess.STDOUT, text=True)
        if r.returncode != 0:
            print("%-50s PATCH-FAILED %s" % (diff[-50:], r.stdout[:200].replace("\n", " ")))
            continue
        out, log = engine.extract_variant(d, True)
        if out is None:
            print("%-50s COMPILE-ERROR %s" % (diff[-50:], log[-300:].replace("\n", " ")))
            continue
        F = mir.Facts(out)
        fired = {}
        for p in props:
            rep = controls.run_rules_on(mods[p], F, p)
            v = [o for o in rep.violations() if o["key"] not in known]
            if v:
                fired[p] = (sorted({o["rule"] for o in v}), (v[0]["detail"] or v[0]["what"])[:200])
        if fired:
            print("%-50s FIRED" % diff[-50:])
            for p, (rs, msg) in fired.items():
                print("      %s %s: %s" % (p, rs, msg))
        else:
            print("%-50s silent" % diff[-50:])
    finally:
        shutil.rmtree(d, ignore_errors=True)
