#!/usr/bin/env python3
"""dev helper: ./tools_seed.py <patch.diff> [Cxx ...]  - apply a seeded change to /repo, run the checks (quick, no
positive controls), print which fire, and undo the change straight afterwards."""
import subprocess, sys, os, json
patch = sys.argv[1]
props = sys.argv[2:]
man = json.load(open(os.path.join(os.path.dirname(os.path.abspath(__file__)), "MANIFEST.json")))
if not props:
    props = [c["property_id"] for c in man["checks"]]
r = subprocess.run(["git", "-C", "/repo", "apply", "--check", patch])
if r.returncode != 0:
    print("patch does not apply"); sys.exit(2)
subprocess.check_call(["git", "-C", "/repo", "apply", patch])
try:
    env = dict(os.environ, VERIF_NO_CONTROLS="1")
    fired = {}
    for p in props:
        r = subprocess.run(["./check", p], cwd=os.path.dirname(os.path.abspath(__file__)), env=env, stdout=subprocess.PIPE, stderr=subprocess.STDOUT, text=True)
        lines = [l for l in r.stdout.split("\n") if l.strip() and "WARNING conda" not in l]
        if r.returncode == 1:
            fired[p] = [l.strip() for l in lines if l.strip().startswith("rule=")]
        elif r.returncode != 0:
            fired[p] = ["EXIT %d: %s" % (r.returncode, " | ".join(lines)[-300:])]
    for p, ls in fired.items():
        print(p, "FIRED")
        for l in ls[:4]:
            print("    ", l[:260])
    if not fired:
        print("NO CHECK FIRED")
finally:
    subprocess.check_call(["git", "-C", "/repo", "checkout", "--", "."])
    subprocess.run(["git", "-C", "/repo", "status", "--short"])
